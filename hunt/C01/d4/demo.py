#!/usr/bin/env python3
"""d4: KEYS does not follow Redis's glob semantics for character classes: a reversed range ([c-a]), a backslash
escape inside a class ([\\]] , [a\\-c]) and a class without closing bracket ([ab) select other keys than in Redis.

usage: demo.py [path-to-ferrous-binary]      exit 1 = property violated, 0 = holds
"""
import os, shutil, socket, subprocess, sys, tempfile, time

BIN = sys.argv[1] if len(sys.argv) > 1 else "/tmp/hunt-C01/target/debug/ferrous"


def free_port():
    s = socket.socket(); s.bind(("127.0.0.1", 0)); p = s.getsockname()[1]; s.close(); return p


def enc(*args):
    out = b"*%d\r\n" % len(args)
    for a in args:
        if isinstance(a, str): a = a.encode()
        out += b"$%d\r\n%s\r\n" % (len(a), a)
    return out


class Client:
    def __init__(self, port, timeout=20):
        self.s = socket.create_connection(("127.0.0.1", port), timeout=timeout); self.buf = b""
    def _fill(self):
        d = self.s.recv(1 << 16)
        if not d: raise EOFError("closed")
        self.buf += d
    def read(self):
        while b"\r\n" not in self.buf: self._fill()
        l, self.buf = self.buf.split(b"\r\n", 1)
        t, r = l[:1], l[1:]
        if t == b"+": return "+" + r.decode()
        if t == b"-": return "-" + r.decode()
        if t == b":": return int(r)
        if t == b"$":
            n = int(r)
            if n < 0: return None
            while len(self.buf) < n + 2: self._fill()
            v, self.buf = self.buf[:n], self.buf[n + 2:]; return v
        if t == b"*":
            n = int(r)
            return None if n < 0 else [self.read() for _ in range(n)]
        raise ValueError(l)
    def cmd(self, *a):
        self.s.sendall(enc(*a)); return self.read()


def stringmatchlen(p, s):
    """line-by-line port of Redis's util.c stringmatchlen(pattern, string, nocase = 0) over bytes"""
    pi, si, pl, sl = 0, 0, len(p), len(s)      # pl / sl are the REMAINING lengths
    while pl and sl:
        c = p[pi]
        if c == 0x2a:                                           # '*'
            while pl > 1 and p[pi + 1] == 0x2a: pi += 1; pl -= 1
            if pl == 1: return True
            while sl:
                if stringmatchlen(p[pi + 1:pi + pl], s[si:si + sl]): return True
                si += 1; sl -= 1
            return False
        elif c == 0x3f:                                         # '?'
            si += 1; sl -= 1
        elif c == 0x5b:                                         # '['
            pi += 1; pl -= 1
            neg = pl > 0 and p[pi] == 0x5e
            if neg: pi += 1; pl -= 1
            match = False
            while True:
                if pl >= 2 and p[pi] == 0x5c:                   # '\\' inside the class
                    pi += 1; pl -= 1
                    if p[pi] == s[si]: match = True
                elif pl >= 1 and p[pi] == 0x5d:                 # ']'
                    break
                elif pl == 0:
                    pi -= 1; pl += 1
                    break
                elif pl >= 3 and p[pi + 1] == 0x2d:             # range
                    a, b = p[pi], p[pi + 2]
                    if a > b: a, b = b, a
                    pi += 2; pl -= 2
                    if a <= s[si] <= b: match = True
                else:
                    if p[pi] == s[si]: match = True
                pi += 1; pl -= 1
            if neg: match = not match
            if not match: return False
            si += 1; sl -= 1
        else:
            if c == 0x5c and pl >= 2: pi += 1; pl -= 1           # '\\' outside a class
            if p[pi] != s[si]: return False
            si += 1; sl -= 1
        pi += 1; pl -= 1
        if sl == 0:
            while pl and p[pi] == 0x2a: pi += 1; pl -= 1
            break
    return pl == 0 and sl == 0


KEYS = [b"a", b"b", b"c", b"d", b"]", b"-", b"\\", b"[", b"ab", b"a]", b"x1", b"x5", b"x9"]
PATTERNS = [
    (b"[a-c]", "control: ordinary range"),
    (b"[^a-c]", "control: negated range"),
    (b"x[1-5]", "control"),
    (b"\\[", "control: escaped bracket outside a class"),
    (b"[c-a]", "reversed range: Redis swaps the bounds"),
    (b"x[9-5]", "reversed range"),
    (b"[^c-a]", "negated reversed range"),
    (b"[\\]]", "escaped ] inside a class"),
    (b"[a\\]]", "escaped ] inside a class, after a member"),
    (b"[\\\\]", "escaped backslash inside a class"),
    (b"[a\\-c]", "escaped '-' inside a class: members a, -, c (no range)"),
    (b"[ab", "class without closing bracket: Redis reads it up to the end of the pattern"),
    (b"x[1-5", "unterminated class with a range"),
    (b"[^a", "unterminated negated class"),
]


def main():
    d = tempfile.mkdtemp(prefix="hunt-c01-d4-")
    port = free_port()
    log = open(os.path.join(d, "server.log"), "wb")
    p = subprocess.Popen([BIN, "--port", str(port), "--dir", d], stdout=log, stderr=log, cwd=d)
    violated = False
    try:
        for _ in range(200):
            try: socket.create_connection(("127.0.0.1", port), timeout=1).close(); break
            except OSError: time.sleep(0.05)
        c = Client(port)
        for k in KEYS: c.cmd("SET", k, "v")
        print("keys:", sorted(KEYS))
        for pat, why in PATTERNS:
            got = sorted(c.cmd("KEYS", pat))
            want = sorted(k for k in KEYS if stringmatchlen(pat, k))
            ok = got == want
            print("KEYS %-10s %-4s got %-45s Redis %-45s (%s)" % (pat.decode(), "ok" if ok else "DIFF", got, want, why))
            if not ok: violated = True
        # SCAN MATCH goes through the same matcher
        cur, items = c.cmd("SCAN", "0", "MATCH", "[c-a]", "COUNT", "1000")
        print("SCAN 0 MATCH [c-a] COUNT 1000 ->", sorted(items), "(same matcher; Redis: [b'a', b'b', b'c'])")
    finally:
        p.kill(); p.wait(); log.close(); shutil.rmtree(d, ignore_errors=True)
    print("RESULT:", "property VIOLATED" if violated else "property holds")
    return 1 if violated else 0


if __name__ == "__main__":
    sys.exit(main())
