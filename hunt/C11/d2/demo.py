#!/usr/bin/env python3
import os, shutil, socket, subprocess, sys, tempfile, time

BIN = sys.argv[1] if len(sys.argv) > 1 else "/tmp/hunt-C11/target/debug/ferrous"
SERVERS = []


def free_port():
    s = socket.socket()
    s.bind(("127.0.0.1", 0))
    p = s.getsockname()[1]
    s.close()
    return p


class Server:
    """one ferrous process; aof=True -> --appendonly yes; d = directory to (re)use"""

    def __init__(self, aof=True, d=None):
        self.own = d is None
        self.dir = d or tempfile.mkdtemp(prefix="huntC11-")
        self.port = free_port()
        args = [BIN, "--port", str(self.port), "--dir", self.dir]
        if aof:
            args += ["--appendonly", "yes"]
        self.p = subprocess.Popen(args, stdout=subprocess.DEVNULL, stderr=subprocess.DEVNULL, cwd=self.dir)
        SERVERS.append(self)
        for _ in range(200):
            try:
                socket.create_connection(("127.0.0.1", self.port), timeout=1).close()
                return
            except OSError:
                time.sleep(0.05)
        raise RuntimeError("server did not start")

    def aof_path(self):
        return os.path.join(self.dir, "appendonly.aof")

    def aof(self):
        with open(self.aof_path(), "rb") as f:
            return f.read()

    def stop(self, rm=True):
        if self.p.poll() is None:
            self.p.kill()
            self.p.wait()
        if rm and self.own:
            shutil.rmtree(self.dir, ignore_errors=True)


def stop_all():
    for s in SERVERS:
        s.stop()


def enc(*args):
    out = b"*%d\r\n" % len(args)
    for a in args:
        if isinstance(a, str):
            a = a.encode()
        elif isinstance(a, int):
            a = str(a).encode()
        out += b"$%d\r\n%s\r\n" % (len(a), a)
    return out


class Err(Exception):
    def __repr__(self):
        return "Err(%s)" % self.args[0]


class Client:
    def __init__(self, port, timeout=30):
        self.s = socket.create_connection(("127.0.0.1", port), timeout=timeout)
        self.buf = b""

    def _fill(self):
        d = self.s.recv(65536)
        if not d:
            raise EOFError("server closed the connection")
        self.buf += d

    def _line(self):
        while b"\r\n" not in self.buf:
            self._fill()
        l, self.buf = self.buf.split(b"\r\n", 1)
        return l

    def read(self):
        l = self._line()
        t, r = l[:1], l[1:]
        if t == b"+":
            return r.decode()
        if t == b"-":
            return Err(r.decode())
        if t == b":":
            return int(r)
        if t == b"$":
            n = int(r)
            if n < 0:
                return None
            while len(self.buf) < n + 2:
                self._fill()
            v, self.buf = self.buf[:n], self.buf[n + 2:]
            return v
        if t == b"*":
            n = int(r)
            return None if n < 0 else [self.read() for _ in range(n)]
        raise ValueError(l)

    def cmd(self, *args):
        self.s.sendall(enc(*args))
        return self.read()


def parse_aof(data):
    """the file as a list of commands (lists of bytes); ValueError unless it is a sequence of complete
    RESP command frames (arrays of bulk strings)"""
    cmds, i = [], 0

    def line():
        nonlocal i
        j = data.find(b"\r\n", i)
        if j < 0:
            raise ValueError("offset %d: unterminated line %r" % (i, data[i:i + 30]))
        l = data[i:j]
        i = j + 2
        return l

    while i < len(data):
        at = i
        l = line()
        if l[:1] != b"*":
            raise ValueError("offset %d: expected an array header, found %r" % (at, l[:30]))
        parts = []
        for _ in range(int(l[1:])):
            at = i
            h = line()
            if h[:1] != b"$":
                raise ValueError("offset %d: expected a bulk string header, found %r" % (at, h[:30]))
            n = int(h[1:])
            if len(data) < i + n + 2 or data[i + n:i + n + 2] != b"\r\n":
                raise ValueError("offset %d: bulk string of %d bytes is not complete / not followed by CRLF" % (at, n))
            parts.append(data[i:i + n])
            i += n + 2
        cmds.append(parts)
    return cmds


def dump(port):
    """the dataset: {(db, key): (type, value, has a TTL)}"""
    c = Client(port)
    out = {}
    for db in range(16):
        c.cmd("SELECT", db)
        for k in sorted(c.cmd("KEYS", "*")):
            t = c.cmd("TYPE", k)
            if t == "string":
                v = c.cmd("GET", k)
            elif t == "list":
                v = c.cmd("LRANGE", k, 0, -1)
            elif t == "set":
                v = sorted(c.cmd("SMEMBERS", k))
            elif t == "hash":
                h = c.cmd("HGETALL", k)
                v = sorted(zip(h[::2], h[1::2]))
            elif t == "zset":
                v = c.cmd("ZRANGE", k, 0, -1, "WITHSCORES")
            else:
                v = "?"
            out[(db, k)] = (t, v, c.cmd("PTTL", k) >= 0)
    return out


def replay(aof_bytes):
    """re-execute the file's commands, in file order, on an empty server (same binary, no AOF)"""
    r = Server(aof=False)
    c = Client(r.port)
    replies = [c.cmd(*parts) for parts in parse_aof(aof_bytes)]
    return r, replies


def show(title, d):
    print("  %s:" % title)
    if not d:
        print("    (empty)")
    for k in sorted(d, key=repr):
        print("    db%d %r -> type=%s value=%r ttl=%s" % (k[0], k[1], d[k][0], d[k][1], "yes" if d[k][2] else "no"))


def show_aof(data):
    try:
        for parts in parse_aof(data):
            print("    " + " ".join(repr(p)[1:] for p in parts))
    except ValueError as e:
        print("    (not a sequence of complete command frames: %s)" % e)
        print("    raw: %r" % data)


# ---------------------------------------------------------------------------------------------------
# d2: XCLAIM is appended verbatim, but whether it claims depends on the clock (min-idle-time against the
# time since the last delivery): the replay leaves the pending entry with its old owner
# ---------------------------------------------------------------------------------------------------
def pending(port):
    """[id, owner, delivery count] of every pending entry of group g of stream x (idle time left out)"""
    c = Client(port)
    rows = c.cmd("XPENDING", "x", "g", "-", "+", "100")
    return [[r[0], r[1], r[3]] for r in rows], c.cmd("XPENDING", "x", "g")


def main():
    live = Server(aof=True)
    c = Client(live.port)
    print("live server (appendonly yes):")
    steps = [("XADD", "x", "1-1", "job", "resize"),
             ("XGROUP", "CREATE", "x", "g", "0"),
             ("XREADGROUP", "GROUP", "g", "worker-A", "COUNT", "1", "STREAMS", "x", ">")]
    for args in steps:
        print("  %-60s -> %r" % (" ".join(args), c.cmd(*args)))
    print("  ... worker-A is silent for 0.6 s ...")
    time.sleep(0.6)
    args = ("XCLAIM", "x", "g", "worker-B", "300", "1-1")
    print("  %-60s -> %r" % (" ".join(args), c.cmd(*args)))
    live_p = pending(live.port)
    data = live.aof()
    print("appendonly.aof:")
    show_aof(data)
    r, replies = replay(data)
    print("replies of the replay:", replies)
    replay_p = pending(r.port)
    print("  live     XPENDING x g - + 100 (id, owner, deliveries): %r   summary: %r" % live_p)
    print("  replayed XPENDING x g - + 100 (id, owner, deliveries): %r   summary: %r" % replay_p)
    violated = live_p != replay_p
    print("VIOLATED: the replayed stream's pending list has another owner / delivery count" if violated else "holds")
    return 1 if violated else 0


if __name__ == "__main__":
    try:
        rc = main()
    finally:
        stop_all()
    sys.exit(rc)
