#!/usr/bin/env python3
import os, shutil, socket, subprocess, sys, tempfile, time

BIN = sys.argv[1] if len(sys.argv) > 1 else "/tmp/hunt-C11/target/debug/ferrous"
SERVERS = []


def free_port():
    s = socket.socket()
    s.bind(("127.0.0.1", 0))
    p = s.getsockname()[1]
    s.close()
    return p


class Server:
    """one ferrous process; aof=True -> --appendonly yes; d = directory to (re)use"""

    def __init__(self, aof=True, d=None):
        self.own = d is None
        self.dir = d or tempfile.mkdtemp(prefix="huntC11-")
        self.port = free_port()
        args = [BIN, "--port", str(self.port), "--dir", self.dir]
        if aof:
            args += ["--appendonly", "yes"]
        self.p = subprocess.Popen(args, stdout=subprocess.DEVNULL, stderr=subprocess.DEVNULL, cwd=self.dir)
        SERVERS.append(self)
        for _ in range(200):
            try:
                socket.create_connection(("127.0.0.1", self.port), timeout=1).close()
                return
            except OSError:
                time.sleep(0.05)
        raise RuntimeError("server did not start")

    def aof_path(self):
        return os.path.join(self.dir, "appendonly.aof")

    def aof(self):
        with open(self.aof_path(), "rb") as f:
            return f.read()

    def stop(self, rm=True):
        if self.p.poll() is None:
            self.p.kill()
            self.p.wait()
        if rm and self.own:
            shutil.rmtree(self.dir, ignore_errors=True)


def stop_all():
    for s in SERVERS:
        s.stop()


def enc(*args):
    out = b"*%d\r\n" % len(args)
    for a in args:
        if isinstance(a, str):
            a = a.encode()
        elif isinstance(a, int):
            a = str(a).encode()
        out += b"$%d\r\n%s\r\n" % (len(a), a)
    return out


class Err(Exception):
    def __repr__(self):
        return "Err(%s)" % self.args[0]


class Client:
    def __init__(self, port, timeout=30):
        self.s = socket.create_connection(("127.0.0.1", port), timeout=timeout)
        self.buf = b""

    def _fill(self):
        d = self.s.recv(65536)
        if not d:
            raise EOFError("server closed the connection")
        self.buf += d

    def _line(self):
        while b"\r\n" not in self.buf:
            self._fill()
        l, self.buf = self.buf.split(b"\r\n", 1)
        return l

    def read(self):
        l = self._line()
        t, r = l[:1], l[1:]
        if t == b"+":
            return r.decode()
        if t == b"-":
            return Err(r.decode())
        if t == b":":
            return int(r)
        if t == b"$":
            n = int(r)
            if n < 0:
                return None
            while len(self.buf) < n + 2:
                self._fill()
            v, self.buf = self.buf[:n], self.buf[n + 2:]
            return v
        if t == b"*":
            n = int(r)
            return None if n < 0 else [self.read() for _ in range(n)]
        raise ValueError(l)

    def cmd(self, *args):
        self.s.sendall(enc(*args))
        return self.read()


def parse_aof(data):
    """the file as a list of commands (lists of bytes); ValueError unless it is a sequence of complete
    RESP command frames (arrays of bulk strings)"""
    cmds, i = [], 0

    def line():
        nonlocal i
        j = data.find(b"\r\n", i)
        if j < 0:
            raise ValueError("offset %d: unterminated line %r" % (i, data[i:i + 30]))
        l = data[i:j]
        i = j + 2
        return l

    while i < len(data):
        at = i
        l = line()
        if l[:1] != b"*":
            raise ValueError("offset %d: expected an array header, found %r" % (at, l[:30]))
        parts = []
        for _ in range(int(l[1:])):
            at = i
            h = line()
            if h[:1] != b"$":
                raise ValueError("offset %d: expected a bulk string header, found %r" % (at, h[:30]))
            n = int(h[1:])
            if len(data) < i + n + 2 or data[i + n:i + n + 2] != b"\r\n":
                raise ValueError("offset %d: bulk string of %d bytes is not complete / not followed by CRLF" % (at, n))
            parts.append(data[i:i + n])
            i += n + 2
        cmds.append(parts)
    return cmds


def dump(port):
    """the dataset: {(db, key): (type, value, has a TTL)}"""
    c = Client(port)
    out = {}
    for db in range(16):
        c.cmd("SELECT", db)
        for k in sorted(c.cmd("KEYS", "*")):
            t = c.cmd("TYPE", k)
            if t == "string":
                v = c.cmd("GET", k)
            elif t == "list":
                v = c.cmd("LRANGE", k, 0, -1)
            elif t == "set":
                v = sorted(c.cmd("SMEMBERS", k))
            elif t == "hash":
                h = c.cmd("HGETALL", k)
                v = sorted(zip(h[::2], h[1::2]))
            elif t == "zset":
                v = c.cmd("ZRANGE", k, 0, -1, "WITHSCORES")
            else:
                v = "?"
            out[(db, k)] = (t, v, c.cmd("PTTL", k) >= 0)
    return out


def replay(aof_bytes):
    """re-execute the file's commands, in file order, on an empty server (same binary, no AOF)"""
    r = Server(aof=False)
    c = Client(r.port)
    replies = [c.cmd(*parts) for parts in parse_aof(aof_bytes)]
    return r, replies


def show(title, d):
    print("  %s:" % title)
    if not d:
        print("    (empty)")
    for k in sorted(d, key=repr):
        print("    db%d %r -> type=%s value=%r ttl=%s" % (k[0], k[1], d[k][0], d[k][1], "yes" if d[k][2] else "no"))


def show_aof(data):
    try:
        for parts in parse_aof(data):
            print("    " + " ".join(repr(p)[1:] for p in parts))
    except ValueError as e:
        print("    (not a sequence of complete command frames: %s)" % e)
        print("    raw: %r" % data)


# ---------------------------------------------------------------------------------------------------
# d1: the removal of a key whose time-to-live has elapsed is never written to the AOF, so every later
# command whose outcome depends on the key being gone replays differently (and for good)
# ---------------------------------------------------------------------------------------------------
def main():
    violated = False
    live = Server(aof=True)
    c = Client(live.port)
    print("live server (appendonly yes):")
    for args in [("SET", "counter", "10", "PX", "100"),
                 ("SET", "lock", "owner-A", "PX", "100"),
                 ("RPUSH", "queue", "old"), ("PEXPIRE", "queue", "100")]:
        print("  %-40s -> %r" % (" ".join(args), c.cmd(*args)))
    print("  ... 0.5 s pass, the three keys expire (GET counter -> %r) ..." % (time.sleep(0.5) or c.cmd("GET", "counter")))
    for args in [("INCR", "counter"), ("SETNX", "lock", "owner-B"), ("RPUSH", "queue", "new")]:
        print("  %-40s -> %r" % (" ".join(args), c.cmd(*args)))
    live_data = dump(live.port)
    data = live.aof()
    print("appendonly.aof:")
    show_aof(data)
    r, replies = replay(data)
    print("replies of the replay:", replies)
    replay_data = dump(r.port)
    show("live dataset", live_data)
    show("dataset after replaying the AOF on an empty server", replay_data)
    if live_data != replay_data:
        violated = True
    print("  ... 0.5 s later (the deadlines set by the replay have passed too) ...")
    time.sleep(0.5)
    replay_later = dump(r.port)
    show("replayed dataset, later", replay_later)
    if dump(live.port) != replay_later:
        violated = True
    print("VIOLATED: the AOF does not replay to the live dataset" if violated else "holds")
    return 1 if violated else 0


if __name__ == "__main__":
    try:
        rc = main()
    finally:
        stop_all()
    sys.exit(rc)
