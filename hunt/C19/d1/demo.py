#!/usr/bin/env python3
"""SCAN ... TYPE <name> compares the type name case-SENSITIVELY: `SCAN 0 TYPE STRING`
(or `Hash`, `ZSET`, ...) completes a full iteration without returning a single key,
although Redis matches the type name with strcasecmp and returns every key of that type.
Exit 1 = property violated, 0 = holds."""
import os, shutil, signal, socket, subprocess, sys, tempfile, time

BIN = sys.argv[1] if len(sys.argv) > 1 else '/tmp/hunt-C19/target/debug/ferrous'

def free_port():
    s = socket.socket(); s.bind(('127.0.0.1', 0)); p = s.getsockname()[1]; s.close(); return p

class Client:
    def __init__(self, port):
        self.s = socket.create_connection(('127.0.0.1', port), timeout=10); self.buf = b''
    def _line(self):
        while b'\r\n' not in self.buf:
            d = self.s.recv(65536)
            if not d: raise EOFError('server closed the connection')
            self.buf += d
        l, self.buf = self.buf.split(b'\r\n', 1); return l
    def _read(self):
        l = self._line(); t, r = l[:1], l[1:]
        if t == b'+': return r.decode()
        if t == b'-': return Exception(r.decode())
        if t == b':': return int(r)
        if t == b'$':
            n = int(r)
            if n < 0: return None
            while len(self.buf) < n + 2:
                self.buf += self.s.recv(65536)
            d, self.buf = self.buf[:n], self.buf[n + 2:]; return d
        if t == b'*':
            n = int(r)
            return None if n < 0 else [self._read() for _ in range(n)]
        raise ValueError(l)
    def cmd(self, *args):
        out = b'*%d\r\n' % len(args)
        for a in args:
            if not isinstance(a, bytes): a = str(a).encode()
            out += b'$%d\r\n%s\r\n' % (len(a), a)
        self.s.sendall(out); return self._read()

def full_scan(c, *opts):
    cur, got, calls = b'0', [], 0
    while True:
        r = c.cmd('SCAN', cur, *opts); calls += 1
        if isinstance(r, Exception): return r
        cur = r[0]; got += r[1]
        if cur == b'0' or calls > 10000: return got

def main():
    tmp = tempfile.mkdtemp(prefix='huntC19-d1-'); port = free_port()
    srv = subprocess.Popen([BIN, '--port', str(port), '--dir', tmp], stdout=subprocess.DEVNULL, stderr=subprocess.DEVNULL)
    signal.signal(signal.SIGTERM, lambda *a: sys.exit(143))
    violated = False
    try:
        for _ in range(200):
            try: socket.create_connection(('127.0.0.1', port), timeout=0.2).close(); break
            except OSError: time.sleep(0.05)
        c = Client(port)
        for i in range(25): c.cmd('SET', 'str%d' % i, 'v')
        c.cmd('RPUSH', 'mylist', 'a'); c.cmd('SADD', 'myset', 'a'); c.cmd('HSET', 'myhash', 'f', 'v')
        c.cmd('ZADD', 'myzset', 1, 'a'); c.cmd('XADD', 'mystream', '*', 'f', 'v')
        expect = {
            'string': {b'str%d' % i for i in range(25)}, 'list': {b'mylist'}, 'set': {b'myset'},
            'hash': {b'myhash'}, 'zset': {b'myzset'}, 'stream': {b'mystream'},
        }
        for tname, keys in expect.items():
            print('TYPE command on one of them answers:', c.cmd('TYPE', sorted(keys)[0]))
            for spelling in (tname, tname.upper(), tname.capitalize()):
                for count in (1, 10, 1000):
                    got = full_scan(c, 'TYPE', spelling, 'COUNT', count)
                    if isinstance(got, Exception):
                        print('  SCAN TYPE %-7s COUNT %-4d -> error %s' % (spelling, count, got)); violated = True; continue
                    missing = keys - set(got); extra = set(got) - keys
                    ok = not missing and not extra
                    print('  SCAN TYPE %-7s COUNT %-4d -> %2d keys, expected %2d %s' % (
                        spelling, count, len(set(got)), len(keys), 'ok' if ok else 'VIOLATION: missing %s' % sorted(missing)[:3]))
                    if not ok: violated = True
        # the option NAME is case-insensitive already (type / Type / TYPE), only its VALUE is not
        print('scan 0 type string count 1000 ->', len(full_scan(c, 'type', 'string', 'count', 1000)), 'keys')
        print('scan 0 type STRING count 1000 ->', len(full_scan(c, 'type', 'STRING', 'count', 1000)), 'keys')
    finally:
        srv.kill(); srv.wait(); shutil.rmtree(tmp, ignore_errors=True)
    print('RESULT:', 'property VIOLATED' if violated else 'property holds')
    sys.exit(1 if violated else 0)

if __name__ == '__main__':
    main()
