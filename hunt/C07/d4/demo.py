#!/usr/bin/env python3
"""C07 d4: UNWATCH sent between MULTI and EXEC is not queued: it is executed at once (+OK instead of
+QUEUED), gets no slot in the EXEC reply, and removes the WATCH protection of the running transaction,
so an EXEC that Redis aborts (watched key changed) is executed.

usage: demo.py [path of the ferrous binary]     exit 1 = property violated, 0 = holds
"""
import os, shutil, socket, subprocess, sys, tempfile, time

BIN = sys.argv[1] if len(sys.argv) > 1 else '/tmp/hunt-C07/target/debug/ferrous'


def free_port():
    s = socket.socket()
    s.bind(('127.0.0.1', 0))
    p = s.getsockname()[1]
    s.close()
    return p


class Server:
    """ferrous on a free port with a temp dir; `conf` = text of an optional config file"""

    def __init__(self, conf=None, d=None, port=None):
        self.port = port or free_port()
        self.dir = d or tempfile.mkdtemp(prefix='hunt-C07-demo-')
        self.log = open(os.path.join(self.dir, 'server.log'), 'ab')
        args = [BIN]
        if conf is not None:
            path = os.path.join(self.dir, 'ferrous.conf')
            with open(path, 'w') as f:
                f.write(conf)
            args.append(path)
        args += ['--port', str(self.port), '--dir', self.dir]
        self.p = subprocess.Popen(args, stdout=self.log, stderr=self.log, cwd=self.dir)
        for _ in range(200):
            try:
                socket.create_connection(('127.0.0.1', self.port), timeout=1).close()
                return
            except OSError:
                time.sleep(0.05)
        self.kill()
        raise RuntimeError('server did not start')

    def kill(self):
        try:
            self.p.kill()
            self.p.wait(timeout=5)
        except Exception:
            pass

    def cleanup(self):
        self.kill()
        shutil.rmtree(self.dir, ignore_errors=True)


def enc(*args):
    out = b'*%d\r\n' % len(args)
    for a in args:
        if isinstance(a, str):
            a = a.encode()
        elif isinstance(a, int):
            a = str(a).encode()
        out += b'$%d\r\n%s\r\n' % (len(a), a)
    return out


class Client:
    def __init__(self, port, timeout=5):
        self.s = socket.create_connection(('127.0.0.1', port), timeout=timeout)
        self.s.settimeout(timeout)
        self.buf = b''

    def send(self, *args):
        self.s.sendall(enc(*args))

    def raw(self, data):
        self.s.sendall(data)

    def _fill(self):
        d = self.s.recv(65536)
        if not d:
            raise EOFError('connection closed by server')
        self.buf += d

    def _line(self):
        while b'\r\n' not in self.buf:
            self._fill()
        l, self.buf = self.buf.split(b'\r\n', 1)
        return l

    def read(self):
        l = self._line()
        t, r = l[:1], l[1:]
        if t == b'+':
            return '+' + r.decode(errors='replace')
        if t == b'-':
            return '-' + r.decode(errors='replace')
        if t == b':':
            return int(r)
        if t == b'$':
            n = int(r)
            if n < 0:
                return None
            while len(self.buf) < n + 2:
                self._fill()
            v, self.buf = self.buf[:n], self.buf[n + 2:]
            return v
        if t == b'*':
            n = int(r)
            if n < 0:
                return None
            return [self.read() for _ in range(n)]
        raise ValueError('bad reply line %r' % l)

    def cmd(self, *args):
        self.send(*args)
        return self.read()

    def close(self):
        try:
            self.s.close()
        except Exception:
            pass


def main():
    srv = Server()
    bad = False
    try:
        a = Client(srv.port)
        b = Client(srv.port)
        print('A: SET k 1 ->', a.cmd('SET', 'k', '1'))
        print('A: WATCH k ->', a.cmd('WATCH', 'k'))
        print('A: MULTI ->', a.cmd('MULTI'))
        r_unwatch = a.cmd('UNWATCH')
        print('A: UNWATCH (inside MULTI) ->', r_unwatch, '   (Redis: +QUEUED)')
        print('A: SET k from-tx ->', a.cmd('SET', 'k', 'from-tx'))
        print('B: SET k from-b ->', b.cmd('SET', 'k', 'from-b'), '   (changes the watched key before EXEC)')
        r_exec = a.cmd('EXEC')
        print('A: EXEC ->', r_exec, '   (Redis: nil - the watched key was modified; the queued UNWATCH never ran)')
        final = b.cmd('GET', 'k')
        print('B: GET k ->', final, "   (Redis: b'from-b')")
        if r_unwatch != '+QUEUED':
            print('VIOLATION: a command sent between MULTI and EXEC was executed at once instead of being queued')
            bad = True
        if r_exec is not None:
            print('VIOLATION: EXEC ran although the key watched by this transaction was changed by another client')
            bad = True
        if isinstance(r_exec, list) and len(r_exec) != 2:
            print('VIOLATION: EXEC answered %d replies for 2 commands sent between MULTI and EXEC' % len(r_exec))
            bad = True

        # second face: without any WATCH the reply stream is simply one slot short
        c = Client(srv.port)
        c.raw(enc('MULTI') + enc('PING') + enc('UNWATCH') + enc('ECHO', 'x') + enc('EXEC'))
        rs = [c.read() for _ in range(5)]
        print('C: MULTI / PING / UNWATCH / ECHO x / EXEC ->', rs, "   (Redis: [+OK, +QUEUED, +QUEUED, +QUEUED, [+PONG, +OK, b'x']])")
        if rs[2] != '+QUEUED' or not (isinstance(rs[4], list) and len(rs[4]) == 3):
            bad = True
    finally:
        srv.cleanup()
    if bad:
        print('RESULT: property VIOLATED')
        sys.exit(1)
    print('RESULT: property holds')
    sys.exit(0)


if __name__ == '__main__':
    main()
