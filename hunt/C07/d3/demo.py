#!/usr/bin/env python3
"""C07 d3: the RDB snapshot is written by a background thread that walks the LIVE dataset while the command
thread is in the middle of EXEC. An auto-save (or BGSAVE) that falls between two queued commands persists
the first half of the transaction; after a crash + restart the transaction is half applied
("... atomically, in order, or not at all" is violated across a restart).

usage: demo.py [path of the ferrous binary]     exit 1 = property violated, 0 = holds
"""
import os, shutil, socket, subprocess, sys, tempfile, time

BIN = sys.argv[1] if len(sys.argv) > 1 else '/tmp/hunt-C07/target/debug/ferrous'


def free_port():
    s = socket.socket()
    s.bind(('127.0.0.1', 0))
    p = s.getsockname()[1]
    s.close()
    return p


class Server:
    """ferrous on a free port with a temp dir; `conf` = text of an optional config file"""

    def __init__(self, conf=None, d=None, port=None):
        self.port = port or free_port()
        self.dir = d or tempfile.mkdtemp(prefix='hunt-C07-demo-')
        self.log = open(os.path.join(self.dir, 'server.log'), 'ab')
        args = [BIN]
        if conf is not None:
            path = os.path.join(self.dir, 'ferrous.conf')
            with open(path, 'w') as f:
                f.write(conf)
            args.append(path)
        args += ['--port', str(self.port), '--dir', self.dir]
        self.p = subprocess.Popen(args, stdout=self.log, stderr=self.log, cwd=self.dir)
        for _ in range(200):
            try:
                socket.create_connection(('127.0.0.1', self.port), timeout=1).close()
                return
            except OSError:
                time.sleep(0.05)
        self.kill()
        raise RuntimeError('server did not start')

    def kill(self):
        try:
            self.p.kill()
            self.p.wait(timeout=5)
        except Exception:
            pass

    def cleanup(self):
        self.kill()
        shutil.rmtree(self.dir, ignore_errors=True)


def enc(*args):
    out = b'*%d\r\n' % len(args)
    for a in args:
        if isinstance(a, str):
            a = a.encode()
        elif isinstance(a, int):
            a = str(a).encode()
        out += b'$%d\r\n%s\r\n' % (len(a), a)
    return out


class Client:
    def __init__(self, port, timeout=5):
        self.s = socket.create_connection(('127.0.0.1', port), timeout=timeout)
        self.s.settimeout(timeout)
        self.buf = b''

    def send(self, *args):
        self.s.sendall(enc(*args))

    def raw(self, data):
        self.s.sendall(data)

    def _fill(self):
        d = self.s.recv(65536)
        if not d:
            raise EOFError('connection closed by server')
        self.buf += d

    def _line(self):
        while b'\r\n' not in self.buf:
            self._fill()
        l, self.buf = self.buf.split(b'\r\n', 1)
        return l

    def read(self):
        l = self._line()
        t, r = l[:1], l[1:]
        if t == b'+':
            return '+' + r.decode(errors='replace')
        if t == b'-':
            return '-' + r.decode(errors='replace')
        if t == b':':
            return int(r)
        if t == b'$':
            n = int(r)
            if n < 0:
                return None
            while len(self.buf) < n + 2:
                self._fill()
            v, self.buf = self.buf[:n], self.buf[n + 2:]
            return v
        if t == b'*':
            n = int(r)
            if n < 0:
                return None
            return [self.read() for _ in range(n)]
        raise ValueError('bad reply line %r' % l)

    def cmd(self, *args):
        self.send(*args)
        return self.read()

    def close(self):
        try:
            self.s.close()
        except Exception:
            pass


CONF = 'save 1 1\n'     # auto-save rule "after 1 s if at least 1 change" (Redis syntax; checked once per second)


def calibrate():
    """number of Lua loop iterations that keep a script busy for about 3 s (the script time limit is 5 s)"""
    srv = Server()
    try:
        c = Client(srv.port, timeout=30)
        n = 5_000_000
        t = time.time()
        c.cmd('EVAL', 'local t=0 for i=1,%d do t=t+i end return 1' % n, 0)
        dt = max(time.time() - t, 0.01)
        return int(n * 3.0 / dt)
    finally:
        srv.cleanup()


def run(variant, loops):
    d = tempfile.mkdtemp(prefix='hunt-C07-demo-')
    srv = Server(conf=CONF, d=d)
    try:
        c = Client(srv.port, timeout=30)
        if variant == 'SLEEP':
            slow = enc('SLEEP', '3000')
        else:
            slow = enc('EVAL', 'local t=0 for i=1,%d do t=t+i end return 1' % loops, 0)
        dump = os.path.join(d, 'dump.rdb')
        assert not os.path.exists(dump)
        # one transaction: both counters are incremented together, so in every state a client (or a restart)
        # may see a == b
        c.raw(enc('MULTI') + enc('INCR', 'a') + slow + enc('INCR', 'b') + enc('EXEC'))
        t0 = time.time()
        while time.time() - t0 < 2.6 and not os.path.exists(dump):
            time.sleep(0.02)
        saved = os.path.exists(dump)
        time.sleep(0.1)
        srv.kill()           # crash (kill -9) while EXEC is still running
        print('  [%s] dump.rdb written during EXEC: %s; server killed %.2f s after the transaction was sent (EXEC needs ~3 s)'
              % (variant, saved, time.time() - t0))
        srv2 = Server(conf=CONF, d=d)
        try:
            c2 = Client(srv2.port)
            a, b = c2.cmd('GET', 'a'), c2.cmd('GET', 'b')
            print('  [%s] after restart: GET a -> %r, GET b -> %r' % (variant, a, b))
            return a, b
        finally:
            srv2.kill()
    finally:
        srv.kill()
        shutil.rmtree(d, ignore_errors=True)


def run_race(attempt):
    """no slow command and no crash during EXEC: another client's BGSAVE runs while EXEC increments N counters"""
    N = 2000
    d = tempfile.mkdtemp(prefix='hunt-C07-demo-')
    srv = Server(conf='save ""\n', d=d)          # no auto-save: the only snapshot is the BGSAVE below
    try:
        c = Client(srv.port, timeout=60)
        b = Client(srv.port, timeout=60)
        pad = 'x' * 1000
        for base in range(0, 30000, 1000):        # 30 MB of filler so that the dump takes some tenths of a second
            c.raw(b''.join(enc('SET', 'fill%d' % i, pad) for i in range(base, base + 1000)))
            for _ in range(1000):
                c.read()
        c.raw(b''.join(enc('SET', 'k%d' % i, '0') for i in range(N)))
        for _ in range(N):
            c.read()
        c.raw(enc('MULTI') + b''.join(enc('INCR', 'k%d' % i) for i in range(N)))
        for _ in range(N + 1):
            c.read()
        t0 = time.time()
        r = b.cmd('BGSAVE')
        time.sleep(0.02 * attempt)
        c.raw(enc('EXEC'))
        c.read()
        t_exec = time.time() - t0
        dump = os.path.join(d, 'dump.rdb')
        while not os.path.exists(dump) and time.time() - t0 < 30:
            time.sleep(0.05)
        t_dump = time.time() - t0
        time.sleep(0.3)
        print('  [BGSAVE race] B: BGSAVE -> %s; A: EXEC of %d INCRs done after %.2f s; dump finished after %.2f s' % (r, N, t_exec, t_dump))
        srv.kill()           # crash some time later, before any other save
        srv2 = Server(conf='save ""\n', d=d)
        try:
            c2 = Client(srv2.port, timeout=30)
            c2.raw(b''.join(enc('GET', 'k%d' % i) for i in range(N)))
            vals = [c2.read() for _ in range(N)]
            counts = {v: vals.count(v) for v in set(vals)}
            print('  [BGSAVE race] after restart the %d counters of the transaction hold: %r' % (N, counts))
            return counts
        finally:
            srv2.kill()
    finally:
        srv.kill()
        shutil.rmtree(d, ignore_errors=True)


def main():
    loops = calibrate()
    print('busy-loop script calibrated to %d iterations (~3 s)' % loops)
    bad = False
    for variant in ('SLEEP', 'EVAL'):
        print('transaction: MULTI / INCR a / %s / INCR b / EXEC, auto-save rule "save 1 1"'
              % ('SLEEP 3000' if variant == 'SLEEP' else 'EVAL <busy loop ~3 s> 0'))
        a, b = run(variant, loops)
        if a != b:
            print('  VIOLATION: the restarted server holds the first half of the transaction only (a=%r, b=%r)' % (a, b))
            bad = True
        else:
            print('  all or nothing: ok')
    print('transaction: MULTI / INCR k0 .. INCR k1999 / EXEC while another client\'s BGSAVE is writing the snapshot')
    for attempt in range(3):
        counts = run_race(attempt)
        if len(counts) > 1:
            print('  VIOLATION: the snapshot holds part of the transaction: some counters incremented, others not')
            bad = True
            break
        print('  all or nothing this time')
    if bad:
        print('RESULT: property VIOLATED (a transaction is persisted, and restored, half applied)')
        sys.exit(1)
    print('RESULT: property holds')
    sys.exit(0)


if __name__ == '__main__':
    main()
