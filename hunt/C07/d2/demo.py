#!/usr/bin/env python3
"""C07 d2: a wake-up left in the queue by serve_key is carried out INSIDE a later EXEC, between two
queued commands: the transaction 'LLEN k; LLEN k; LRANGE k 0 -1' sees 1, then 0 / [] because another
client's BLPOP is served between its first and its second command.

usage: demo.py [path of the ferrous binary]     exit 1 = property violated, 0 = holds
"""
import os, shutil, socket, subprocess, sys, tempfile, time

BIN = sys.argv[1] if len(sys.argv) > 1 else '/tmp/hunt-C07/target/debug/ferrous'


def free_port():
    s = socket.socket()
    s.bind(('127.0.0.1', 0))
    p = s.getsockname()[1]
    s.close()
    return p


class Server:
    """ferrous on a free port with a temp dir; `conf` = text of an optional config file"""

    def __init__(self, conf=None, d=None, port=None):
        self.port = port or free_port()
        self.dir = d or tempfile.mkdtemp(prefix='hunt-C07-demo-')
        self.log = open(os.path.join(self.dir, 'server.log'), 'ab')
        args = [BIN]
        if conf is not None:
            path = os.path.join(self.dir, 'ferrous.conf')
            with open(path, 'w') as f:
                f.write(conf)
            args.append(path)
        args += ['--port', str(self.port), '--dir', self.dir]
        self.p = subprocess.Popen(args, stdout=self.log, stderr=self.log, cwd=self.dir)
        for _ in range(200):
            try:
                socket.create_connection(('127.0.0.1', self.port), timeout=1).close()
                return
            except OSError:
                time.sleep(0.05)
        self.kill()
        raise RuntimeError('server did not start')

    def kill(self):
        try:
            self.p.kill()
            self.p.wait(timeout=5)
        except Exception:
            pass

    def cleanup(self):
        self.kill()
        shutil.rmtree(self.dir, ignore_errors=True)


def enc(*args):
    out = b'*%d\r\n' % len(args)
    for a in args:
        if isinstance(a, str):
            a = a.encode()
        elif isinstance(a, int):
            a = str(a).encode()
        out += b'$%d\r\n%s\r\n' % (len(a), a)
    return out


class Client:
    def __init__(self, port, timeout=5):
        self.s = socket.create_connection(('127.0.0.1', port), timeout=timeout)
        self.s.settimeout(timeout)
        self.buf = b''

    def send(self, *args):
        self.s.sendall(enc(*args))

    def raw(self, data):
        self.s.sendall(data)

    def _fill(self):
        d = self.s.recv(65536)
        if not d:
            raise EOFError('connection closed by server')
        self.buf += d

    def _line(self):
        while b'\r\n' not in self.buf:
            self._fill()
        l, self.buf = self.buf.split(b'\r\n', 1)
        return l

    def read(self):
        l = self._line()
        t, r = l[:1], l[1:]
        if t == b'+':
            return '+' + r.decode(errors='replace')
        if t == b'-':
            return '-' + r.decode(errors='replace')
        if t == b':':
            return int(r)
        if t == b'$':
            n = int(r)
            if n < 0:
                return None
            while len(self.buf) < n + 2:
                self._fill()
            v, self.buf = self.buf[:n], self.buf[n + 2:]
            return v
        if t == b'*':
            n = int(r)
            if n < 0:
                return None
            return [self.read() for _ in range(n)]
        raise ValueError('bad reply line %r' % l)

    def cmd(self, *args):
        self.send(*args)
        return self.read()

    def close(self):
        try:
            self.s.close()
        except Exception:
            pass


def scenario(variant):
    """returns (reply of the 2nd EXEC, what the surviving blocked client A2 received)"""
    srv = Server()
    try:
        staller = Client(srv.port)
        a1 = Client(srv.port)
        a2 = Client(srv.port)
        b = Client(srv.port)
        ids = [c.cmd('CLIENT', 'ID') for c in (staller, a1, a2, b)]
        # connections are visited in the order of id % 16: the staller must come before B (variant 'vanish')
        assert ids[0] % 16 < ids[3] % 16, ids
        a1.send('BLPOP', 'k', 0)          # first waiter on k
        time.sleep(0.3)
        a2.send('BLPOP', 'k', 0)          # second waiter on k
        time.sleep(0.3)
        tx1 = enc('MULTI') + enc('RPUSH', 'k', 'x') + enc('EXEC')
        tx2 = enc('MULTI') + enc('LLEN', 'k') + enc('LLEN', 'k') + enc('LRANGE', 'k', 0, -1) + enc('EXEC')
        if variant == 'kill':
            # A1 is killed in the same batch: it is Closing but still registered (cleanup_connections runs at
            # the end of the loop iteration), i.e. a stale first waiter
            b.raw(enc('CLIENT', 'KILL', 'ID', str(ids[1])) + tx1 + tx2)
            print('  CLIENT KILL A1 ->', b.read())
        else:
            # A1 hangs up while the loop is stalled AFTER this iteration's hang-up probe; B's batch is handled
            # later in the same iteration: again a stale first waiter
            staller.send('SLEEP', '700')
            time.sleep(0.25)
            a1.close()
            time.sleep(0.05)
            b.raw(tx1 + tx2)
        r1 = [b.read() for _ in range(3)]
        print('  tx1 MULTI / RPUSH k x / EXEC ->', r1)
        r2 = [b.read() for _ in range(5)]
        print('  tx2 MULTI / LLEN k / LLEN k / LRANGE k 0 -1 / EXEC ->', r2)
        a2.s.settimeout(2)
        try:
            got = a2.read()
        except Exception as e:
            got = 'nothing (%r)' % (e,)
        print('  A2 (BLPOP k 0) received ->', got)
        return r2[-1], got
    finally:
        srv.cleanup()


def main():
    bad = False
    for variant in ('kill', 'vanish'):
        for attempt in range(1):
            print('variant %s, run %d' % (variant, attempt + 1))
            exec2, _ = scenario(variant)
            # an indivisible transaction sees ONE state of k: either [1, 1, [x]] or [0, 0, []]
            consistent = isinstance(exec2, list) and len(exec2) == 3 and exec2[0] == exec2[1] == len(exec2[2])
            if not consistent:
                print('  VIOLATION: the three queued reads of one EXEC saw different states of k: %r' % (exec2,))
                bad = True
            else:
                print('  consistent')
    if bad:
        print('RESULT: property VIOLATED (another client\'s pop took effect between two commands of one EXEC)')
        sys.exit(1)
    print('RESULT: property holds')
    sys.exit(0)


if __name__ == '__main__':
    main()
