#!/usr/bin/env python3
"""C07 d1: with replication, EXEC is not indivisible.
 (1) on a replica the master's write stream is applied by a background thread straight into the dataset, also
     while the command thread is in the middle of a local client's EXEC: 'MULTI; GET x; ...; GET x; EXEC' sees
     several values of x in ONE transaction;
 (2) a master propagates the commands of a transaction one by one, without MULTI/EXEC around them, and the
     replica applies them one by one: a client of the replica observes the master's transaction half applied.

The replica authenticates to its master with the password that is hard-coded in src/replication/client.rs
(get_master_password: "mysecretpassword"), so the master is started with --requirepass mysecretpassword.

usage: demo.py [path of the ferrous binary]     exit 1 = property violated, 0 = holds
"""
import threading
import os, shutil, socket, subprocess, sys, tempfile, time

BIN = sys.argv[1] if len(sys.argv) > 1 else '/tmp/hunt-C07/target/debug/ferrous'


def free_port():
    s = socket.socket()
    s.bind(('127.0.0.1', 0))
    p = s.getsockname()[1]
    s.close()
    return p


class Server:
    """ferrous on a free port with a temp dir; `conf` = text of an optional config file"""

    def __init__(self, conf=None, d=None, port=None):
        self.port = port or free_port()
        self.dir = d or tempfile.mkdtemp(prefix='hunt-C07-demo-')
        self.log = open(os.path.join(self.dir, 'server.log'), 'ab')
        args = [BIN]
        if conf is not None:
            path = os.path.join(self.dir, 'ferrous.conf')
            with open(path, 'w') as f:
                f.write(conf)
            args.append(path)
        args += ['--port', str(self.port), '--dir', self.dir]
        self.p = subprocess.Popen(args, stdout=self.log, stderr=self.log, cwd=self.dir)
        for _ in range(200):
            try:
                socket.create_connection(('127.0.0.1', self.port), timeout=1).close()
                return
            except OSError:
                time.sleep(0.05)
        self.kill()
        raise RuntimeError('server did not start')

    def kill(self):
        try:
            self.p.kill()
            self.p.wait(timeout=5)
        except Exception:
            pass

    def cleanup(self):
        self.kill()
        shutil.rmtree(self.dir, ignore_errors=True)


def enc(*args):
    out = b'*%d\r\n' % len(args)
    for a in args:
        if isinstance(a, str):
            a = a.encode()
        elif isinstance(a, int):
            a = str(a).encode()
        out += b'$%d\r\n%s\r\n' % (len(a), a)
    return out


class Client:
    def __init__(self, port, timeout=5):
        self.s = socket.create_connection(('127.0.0.1', port), timeout=timeout)
        self.s.settimeout(timeout)
        self.buf = b''

    def send(self, *args):
        self.s.sendall(enc(*args))

    def raw(self, data):
        self.s.sendall(data)

    def _fill(self):
        d = self.s.recv(65536)
        if not d:
            raise EOFError('connection closed by server')
        self.buf += d

    def _line(self):
        while b'\r\n' not in self.buf:
            self._fill()
        l, self.buf = self.buf.split(b'\r\n', 1)
        return l

    def read(self):
        l = self._line()
        t, r = l[:1], l[1:]
        if t == b'+':
            return '+' + r.decode(errors='replace')
        if t == b'-':
            return '-' + r.decode(errors='replace')
        if t == b':':
            return int(r)
        if t == b'$':
            n = int(r)
            if n < 0:
                return None
            while len(self.buf) < n + 2:
                self._fill()
            v, self.buf = self.buf[:n], self.buf[n + 2:]
            return v
        if t == b'*':
            n = int(r)
            if n < 0:
                return None
            return [self.read() for _ in range(n)]
        raise ValueError('bad reply line %r' % l)

    def cmd(self, *args):
        self.send(*args)
        return self.read()

    def close(self):
        try:
            self.s.close()
        except Exception:
            pass


PW = 'mysecretpassword'


class Pair:
    """a master and a replica of it"""

    def __init__(self):
        self.procs, self.dirs = [], []
        self.mport, self.rport = free_port(), free_port()
        self._start(['--port', str(self.mport), '--requirepass', PW])
        self._wait(self.mport)
        self._start(['--port', str(self.rport), '--replicaof', '127.0.0.1', str(self.mport)])
        self._wait(self.rport)
        self.m = Client(self.mport, timeout=30)
        assert self.m.cmd('AUTH', PW) == '+OK'
        self.r = Client(self.rport, timeout=30)
        for _ in range(150):
            if b'master_link_status:up' in self.r.cmd('INFO', 'replication'):
                break
            time.sleep(0.1)
        else:
            raise RuntimeError('replica did not connect to its master')

    def _start(self, args):
        d = tempfile.mkdtemp(prefix='hunt-C07-demo-')
        log = open(os.path.join(d, 'server.log'), 'ab')
        self.dirs.append(d)
        self.procs.append(subprocess.Popen([BIN] + args + ['--dir', d], stdout=log, stderr=log, cwd=d))

    def _wait(self, port):
        for _ in range(200):
            try:
                socket.create_connection(('127.0.0.1', port), timeout=1).close()
                return
            except OSError:
                time.sleep(0.05)
        raise RuntimeError('server did not start')

    def wait_replicated(self, key, value):
        for _ in range(100):
            if self.r.cmd('GET', key) == value:
                return
            time.sleep(0.05)
        raise RuntimeError('%r did not reach the replica' % key)

    def cleanup(self):
        for p in self.procs:
            try:
                p.kill()
                p.wait(timeout=5)
            except Exception:
                pass
        for d in self.dirs:
            shutil.rmtree(d, ignore_errors=True)


def replica_exec_stalled():
    """deterministic: the master's SET arrives while the replica's EXEC is between its two GETs"""
    p = Pair()
    try:
        p.m.cmd('SET', 'x', '1')
        p.wait_replicated('x', b'1')
        p.r.raw(enc('MULTI') + enc('GET', 'x') + enc('SLEEP', '800') + enc('GET', 'x') + enc('EXEC'))
        time.sleep(0.3)
        print('  master: SET x 2 ->', p.m.cmd('SET', 'x', '2'), '  (0.3 s after the replica client sent its transaction)')
        rs = [p.r.read() for _ in range(5)]
        print('  replica client: MULTI / GET x / SLEEP 800 / GET x / EXEC ->', rs)
        ex = rs[-1]
        return ex[0] == ex[2]
    finally:
        p.cleanup()


def replica_exec_natural():
    """no slow command: the master increments x all the time, a replica client reads x 3000 times in one EXEC"""
    p = Pair()
    try:
        p.m.cmd('SET', 'x', '0')
        p.wait_replicated('x', b'0')
        stop = []

        def writer():
            while not stop:
                p.m.cmd('INCR', 'x')
                time.sleep(0.001)
        th = threading.Thread(target=writer)
        th.start()
        ok = True
        try:
            n = 3000
            for i in range(3):
                p.r.raw(enc('MULTI') + b''.join(enc('GET', 'x') for _ in range(n)) + enc('EXEC'))
                rs = [p.r.read() for _ in range(n + 2)]
                vals = sorted(set(rs[-1]), key=lambda v: int(v))
                print('  replica client: EXEC of %d x GET x saw these values of x: %r' % (n, vals))
                if len(vals) != 1:
                    ok = False
        finally:
            stop.append(1)
            th.join()
        return ok
    finally:
        p.cleanup()


def master_tx_seen_on_replica():
    """the master increments k0..k1999 in ONE transaction; a replica client reads k0 and k1999 with one MGET"""
    p = Pair()
    try:
        n = 2000
        seen = set()
        stop = []
        reader_conn = Client(p.rport, timeout=30)

        def reader():
            while not stop:
                seen.add(tuple(reader_conn.cmd('MGET', 'k0', 'k%d' % (n - 1))))
        th = threading.Thread(target=reader)
        th.start()
        try:
            for i in range(5):
                p.m.raw(enc('MULTI') + b''.join(enc('INCR', 'k%d' % j) for j in range(n)) + enc('EXEC'))
                for _ in range(n + 2):
                    p.m.read()
                time.sleep(0.3)
        finally:
            stop.append(1)
            th.join()
        torn = sorted((s for s in seen if s[0] != s[1]), key=str)
        print('  replica client saw (k0, k%d) pairs: %d distinct, of which UNEQUAL: %r' % (n - 1, len(seen), torn))
        return not torn
    finally:
        p.cleanup()


def main():
    bad = False
    print('1a. replica: local EXEC vs. the master\'s write stream (deterministic, SLEEP inside the transaction)')
    if not replica_exec_stalled():
        print('  VIOLATION: the master\'s SET took effect between two queued commands of one EXEC')
        bad = True
    print('1b. replica: local EXEC vs. the master\'s write stream (no slow command)')
    if not replica_exec_natural():
        print('  VIOLATION: one EXEC saw several values of x')
        bad = True
    print('2. master transaction MULTI / INCR k0 .. INCR k1999 / EXEC observed from the replica')
    if not master_tx_seen_on_replica():
        print('  VIOLATION: a client observed the state between two commands of the master\'s transaction')
        bad = True
    if bad:
        print('RESULT: property VIOLATED')
        sys.exit(1)
    print('RESULT: property holds')
    sys.exit(0)


if __name__ == '__main__':
    main()
