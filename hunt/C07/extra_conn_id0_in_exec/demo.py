#!/usr/bin/env python3
"""C07 extra (conn id 0 in EXEC): queued commands are executed by EXEC under the dummy connection id 0, so every command that acts
on / reports about the issuing connection gives another reply inside EXEC than when issued directly, and
has no effect: CLIENT ID -> 0, CLIENT SETNAME -> error (name not set), CLIENT GETNAME -> error,
SUBSCRIBE -> unknown command (no subscription).

usage: demo.py [path of the ferrous binary]     exit 1 = property violated, 0 = holds
"""
import os, shutil, socket, subprocess, sys, tempfile, time

BIN = sys.argv[1] if len(sys.argv) > 1 else '/tmp/hunt-C07/target/debug/ferrous'


def free_port():
    s = socket.socket()
    s.bind(('127.0.0.1', 0))
    p = s.getsockname()[1]
    s.close()
    return p


class Server:
    """ferrous on a free port with a temp dir; `conf` = text of an optional config file"""

    def __init__(self, conf=None, d=None, port=None):
        self.port = port or free_port()
        self.dir = d or tempfile.mkdtemp(prefix='hunt-C07-demo-')
        self.log = open(os.path.join(self.dir, 'server.log'), 'ab')
        args = [BIN]
        if conf is not None:
            path = os.path.join(self.dir, 'ferrous.conf')
            with open(path, 'w') as f:
                f.write(conf)
            args.append(path)
        args += ['--port', str(self.port), '--dir', self.dir]
        self.p = subprocess.Popen(args, stdout=self.log, stderr=self.log, cwd=self.dir)
        for _ in range(200):
            try:
                socket.create_connection(('127.0.0.1', self.port), timeout=1).close()
                return
            except OSError:
                time.sleep(0.05)
        self.kill()
        raise RuntimeError('server did not start')

    def kill(self):
        try:
            self.p.kill()
            self.p.wait(timeout=5)
        except Exception:
            pass

    def cleanup(self):
        self.kill()
        shutil.rmtree(self.dir, ignore_errors=True)


def enc(*args):
    out = b'*%d\r\n' % len(args)
    for a in args:
        if isinstance(a, str):
            a = a.encode()
        elif isinstance(a, int):
            a = str(a).encode()
        out += b'$%d\r\n%s\r\n' % (len(a), a)
    return out


class Client:
    def __init__(self, port, timeout=5):
        self.s = socket.create_connection(('127.0.0.1', port), timeout=timeout)
        self.s.settimeout(timeout)
        self.buf = b''

    def send(self, *args):
        self.s.sendall(enc(*args))

    def raw(self, data):
        self.s.sendall(data)

    def _fill(self):
        d = self.s.recv(65536)
        if not d:
            raise EOFError('connection closed by server')
        self.buf += d

    def _line(self):
        while b'\r\n' not in self.buf:
            self._fill()
        l, self.buf = self.buf.split(b'\r\n', 1)
        return l

    def read(self):
        l = self._line()
        t, r = l[:1], l[1:]
        if t == b'+':
            return '+' + r.decode(errors='replace')
        if t == b'-':
            return '-' + r.decode(errors='replace')
        if t == b':':
            return int(r)
        if t == b'$':
            n = int(r)
            if n < 0:
                return None
            while len(self.buf) < n + 2:
                self._fill()
            v, self.buf = self.buf[:n], self.buf[n + 2:]
            return v
        if t == b'*':
            n = int(r)
            if n < 0:
                return None
            return [self.read() for _ in range(n)]
        raise ValueError('bad reply line %r' % l)

    def cmd(self, *args):
        self.send(*args)
        return self.read()

    def close(self):
        try:
            self.s.close()
        except Exception:
            pass


def main():
    srv = Server()
    bad = False
    try:
        a = Client(srv.port)
        my_id = a.cmd('CLIENT', 'ID')
        print('A: CLIENT ID (direct) ->', my_id)
        print('A: MULTI ->', a.cmd('MULTI'))
        for q in (('CLIENT', 'ID'), ('CLIENT', 'SETNAME', 'worker-7'), ('CLIENT', 'GETNAME'), ('SET', 'a', '1')):
            print('A:', ' '.join(q), '->', a.cmd(*q))
        r = a.cmd('EXEC')
        print('A: EXEC ->', r)
        print("   expected  [%d, '+OK', b'worker-7', '+OK']" % my_id)
        name_after = a.cmd('CLIENT', 'GETNAME')
        print('A: CLIENT GETNAME (direct, after EXEC) ->', name_after, "   expected b'worker-7'")
        if r != [my_id, '+OK', b'worker-7', '+OK']:
            print('VIOLATION: the replies of queued CLIENT commands are not the replies of the commands issued by this connection')
            bad = True
        if name_after != b'worker-7':
            print('VIOLATION: the queued CLIENT SETNAME had no effect')
            bad = True

        # the same cause, pub/sub face: SUBSCRIBE queued inside MULTI
        s = Client(srv.port, timeout=2)
        p = Client(srv.port)
        print('S: MULTI ->', s.cmd('MULTI'))
        print('S: SUBSCRIBE ch ->', s.cmd('SUBSCRIBE', 'ch'))
        rs = s.cmd('EXEC')
        print('S: EXEC ->', rs, "   (Redis: the subscribe confirmation ['subscribe', 'ch', 1]; the client is subscribed)")
        n = p.cmd('PUBLISH', 'ch', 'hello')
        print('P: PUBLISH ch hello ->', n, '   expected 1')
        if n != 1:
            print('VIOLATION: the queued SUBSCRIBE was not executed by EXEC (reply: %r)' % (rs,))
            bad = True
    finally:
        srv.cleanup()
    if bad:
        print('RESULT: property VIOLATED')
        sys.exit(1)
    print('RESULT: property holds')
    sys.exit(0)


if __name__ == '__main__':
    main()
