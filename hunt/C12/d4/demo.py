#!/usr/bin/env python3
"""C12 d4 (lower confidence as to the property's letter): EVAL does not put the script into the script cache.
In Redis a script is "loaded" by SCRIPT LOAD *and by EVAL* (EVAL caches the body under its SHA1), so that
EVAL body ...; EVALSHA sha1(body) ... is the standard client sequence (EVALSHA, on NOSCRIPT fall back to EVAL once,
EVALSHA from then on).  Here only SCRIPT LOAD fills the cache: after a successful EVAL, SCRIPT EXISTS answers 0 and
EVALSHA answers NOSCRIPT - EVALSHA does not behave like EVAL of the source the server has just executed."""
import hashlib, os, shutil, socket, subprocess, sys, tempfile, time

BIN = sys.argv[1] if len(sys.argv) > 1 else '/tmp/hunt-C12/target/debug/ferrous'

def free_port():
    s = socket.socket(); s.bind(('127.0.0.1', 0)); p = s.getsockname()[1]; s.close(); return p

class Conn:
    def __init__(self, port):
        self.s = socket.create_connection(('127.0.0.1', port), timeout=30); self.buf = b''
    def _fill(self):
        d = self.s.recv(65536)
        if not d: raise EOFError('closed')
        self.buf += d
    def _line(self):
        while b'\r\n' not in self.buf: self._fill()
        l, self.buf = self.buf.split(b'\r\n', 1); return l
    def read(self):
        l = self._line(); t, r = l[:1], l[1:]
        if t in b'+-': return l.decode(errors='replace')
        if t == b':': return int(r)
        if t == b'$':
            n = int(r)
            if n < 0: return None
            while len(self.buf) < n + 2: self._fill()
            v = self.buf[:n]; self.buf = self.buf[n + 2:]; return v
        if t == b'*':
            n = int(r); return None if n < 0 else [self.read() for _ in range(n)]
        raise ValueError(l)
    def cmd(self, *args):
        out = b'*%d\r\n' % len(args)
        for a in args:
            a = a if isinstance(a, bytes) else str(a).encode()
            out += b'$%d\r\n%s\r\n' % (len(a), a)
        self.s.sendall(out); return self.read()

def main():
    d = tempfile.mkdtemp(prefix='hunt-c12-d4-')
    port = free_port()
    p = subprocess.Popen([BIN, '--port', str(port), '--dir', d], stdout=subprocess.DEVNULL, stderr=subprocess.DEVNULL)
    bad = False
    try:
        c = None
        for _ in range(200):
            try:
                c = Conn(port); c.cmd('PING'); break
            except Exception: time.sleep(0.05)
        body = "return redis.call('INCRBY', KEYS[1], ARGV[1])"
        sha = hashlib.sha1(body.encode()).hexdigest()
        r1 = c.cmd('EVAL', body, 1, 'ctr', 5)
        ex = c.cmd('SCRIPT', 'EXISTS', sha)
        r2 = c.cmd('EVALSHA', sha, 1, 'ctr', 5)
        print('EVAL body 1 ctr 5          ->', r1)
        print('SCRIPT EXISTS sha1(body)   ->', ex, '  (Redis: [1])')
        print('EVALSHA sha1(body) 1 ctr 5 ->', r2, '  (Redis: 10)')
        print('GET ctr                    ->', c.cmd('GET', 'ctr'))
        # control: after SCRIPT LOAD the same EVALSHA works
        print('SCRIPT LOAD body           ->', c.cmd('SCRIPT', 'LOAD', body))
        print('EVALSHA sha1(body) 1 ctr 5 ->', c.cmd('EVALSHA', sha, 1, 'ctr', 5))
        bad = not (r1 == 5 and ex == [1] and r2 == 10)
        print('VIOLATED: the script the server executed with EVAL is unknown to EVALSHA' if bad else 'HOLDS')
    finally:
        p.kill(); p.wait(); shutil.rmtree(d, ignore_errors=True)
    sys.exit(1 if bad else 0)

if __name__ == '__main__':
    main()
