#!/usr/bin/env python3
"""C12 d1: a key expires IN THE MIDDLE of a script.  Every redis.call tests the key's deadline against the wall
clock of that very call (StorageEngine::get_shard / is_expired), and the expiry sweeper thread deletes keys while the
script runs, so two redis.call's of one script see different datasets although no command of any client ran in
between: the script is not one indivisible step.  Real Redis freezes the clock used for expiry at the start of the
script ("a key can expire only the first time it is accessed and not in the middle of the script execution"), so the
same script answers {v, 1, 1, v}."""
import os, shutil, socket, subprocess, sys, tempfile, time

BIN = sys.argv[1] if len(sys.argv) > 1 else '/tmp/hunt-C12/target/debug/ferrous'

def free_port():
    s = socket.socket(); s.bind(('127.0.0.1', 0)); p = s.getsockname()[1]; s.close(); return p

class Conn:
    def __init__(self, port):
        self.s = socket.create_connection(('127.0.0.1', port), timeout=30); self.buf = b''
    def _fill(self):
        d = self.s.recv(65536)
        if not d: raise EOFError('closed')
        self.buf += d
    def _line(self):
        while b'\r\n' not in self.buf: self._fill()
        l, self.buf = self.buf.split(b'\r\n', 1); return l
    def read(self):
        l = self._line(); t, r = l[:1], l[1:]
        if t in b'+-': return l.decode(errors='replace')
        if t == b':': return int(r)
        if t == b'$':
            n = int(r)
            if n < 0: return None
            while len(self.buf) < n + 2: self._fill()
            v = self.buf[:n]; self.buf = self.buf[n + 2:]; return v
        if t == b'*':
            n = int(r); return None if n < 0 else [self.read() for _ in range(n)]
        raise ValueError(l)
    def cmd(self, *args):
        out = b'*%d\r\n' % len(args)
        for a in args:
            a = a if isinstance(a, bytes) else str(a).encode()
            out += b'$%d\r\n%s\r\n' % (len(a), a)
        self.s.sendall(out); return self.read()

# "check then use" inside ONE script: the lock is there at the first call and gone at the second one.
# The loop in the middle stands for any work that takes time (it polls TIME, which exists inside scripts).
SCRIPT = """
local function now() local t = redis.call('TIME') return t[1] * 1000 + math.floor(t[2] / 1000) end
local v1 = redis.call('GET', KEYS[1])
local e1 = redis.call('EXISTS', KEYS[1])
local t0 = now()
while now() - t0 < 400 do end
local e2 = redis.call('EXISTS', KEYS[1])
local v2 = redis.call('GET', KEYS[1])
local n = redis.call('APPEND', KEYS[1], '+more')      -- a write that believes the key (and its TTL) is still there
return {v1 or 'NIL', e1, e2, v2 or 'NIL', n, redis.call('PTTL', KEYS[1])}
"""

def main():
    d = tempfile.mkdtemp(prefix='hunt-c12-d1-')
    port = free_port()
    p = subprocess.Popen([BIN, '--port', str(port), '--dir', d], stdout=subprocess.DEVNULL, stderr=subprocess.DEVNULL)
    bad = 0
    try:
        c = None
        for _ in range(200):
            try:
                c = Conn(port); c.cmd('PING'); break
            except Exception: time.sleep(0.05)
        for db in (0, 5):
            c.cmd('SELECT', db)
            for i in range(3):
                c.cmd('DEL', 'lock')
                c.cmd('SET', 'lock', 'owner', 'PX', '200')
                r = c.cmd('EVAL', SCRIPT, '1', 'lock')
                v1, e1, e2, v2, n, pttl = r
                ok = (v1 == v2 and e1 == e2)
                print('db %d run %d: first GET=%r EXISTS=%r | 0.4 s later, same script: EXISTS=%r GET=%r | APPEND->%r PTTL->%r  %s'
                      % (db, i, v1, e1, e2, v2, n, pttl, 'ok' if ok else '<-- the key expired inside the script'))
                if not ok: bad += 1
        if bad:
            print('VIOLATED: %d of 6 scripts saw the dataset change between two of their own redis.call (expiry inside '
                  'the script; the APPEND even re-created the key without a TTL); expected {owner, 1, 1, owner, 10, >0}' % bad)
        else:
            print('HOLDS: every script saw one dataset')
    finally:
        p.kill(); p.wait(); shutil.rmtree(d, ignore_errors=True)
    sys.exit(1 if bad else 0)

if __name__ == '__main__':
    main()
