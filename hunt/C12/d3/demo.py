#!/usr/bin/env python3
"""C12 d3: an automatic RDB save (the StorageMonitor thread -> RdbEngine::bgsave -> a second thread that reads the
live storage key by key) runs WHILE a script is executing on the command thread, so the dump on disk contains the
first half of the script's writes and not the second half.  A crash (kill -9) before the next save, followed by a
restart, brings up a dataset in which the script is half applied: not an indivisible step.
(Real Redis: serverCron cannot run while a script occupies the event loop, and the fork()ed child sees a
point-in-time image, so a dump never contains part of a script.)"""
import os, shutil, signal, socket, subprocess, sys, tempfile, time

BIN = sys.argv[1] if len(sys.argv) > 1 else '/tmp/hunt-C12/target/debug/ferrous'

def free_port():
    s = socket.socket(); s.bind(('127.0.0.1', 0)); p = s.getsockname()[1]; s.close(); return p

class Conn:
    def __init__(self, port):
        self.s = socket.create_connection(('127.0.0.1', port), timeout=30); self.buf = b''
    @staticmethod
    def enc(*args):
        out = b'*%d\r\n' % len(args)
        for a in args:
            a = a if isinstance(a, bytes) else str(a).encode()
            out += b'$%d\r\n%s\r\n' % (len(a), a)
        return out
    def _fill(self):
        d = self.s.recv(65536)
        if not d: raise EOFError('closed')
        self.buf += d
    def _line(self):
        while b'\r\n' not in self.buf: self._fill()
        l, self.buf = self.buf.split(b'\r\n', 1); return l
    def read(self):
        l = self._line(); t, r = l[:1], l[1:]
        if t in b'+-': return l.decode(errors='replace')
        if t == b':': return int(r)
        if t == b'$':
            n = int(r)
            if n < 0: return None
            while len(self.buf) < n + 2: self._fill()
            v = self.buf[:n]; self.buf = self.buf[n + 2:]; return v
        if t == b'*':
            n = int(r); return None if n < 0 else [self.read() for _ in range(n)]
        raise ValueError(l)
    def cmd(self, *args):
        self.s.sendall(self.enc(*args)); return self.read()

def start(conf, port):
    p = subprocess.Popen([BIN, conf], stdout=subprocess.DEVNULL, stderr=subprocess.DEVNULL)
    for _ in range(200):
        try:
            c = Conn(port); c.cmd('PING'); return p, c
        except Exception: time.sleep(0.05)
    p.kill(); raise RuntimeError('server did not start')

# one transfer: 100 units from acct:a to acct:b, with a pause between the two writes (any long script will do)
SCRIPT = """
local function now() local t = redis.call('TIME') return t[1] * 1000 + math.floor(t[2] / 1000) end
redis.call('DECRBY', KEYS[1], 100)
local t0 = now()
while now() - t0 < 3500 do end
redis.call('INCRBY', KEYS[2], 100)
return 'done'
"""

def attempt():
    d = tempfile.mkdtemp(prefix='hunt-c12-d3-')
    port = free_port()
    conf = os.path.join(d, 'ferrous.conf')
    with open(conf, 'w') as f:
        f.write('bind 127.0.0.1\nport %d\ndir %s\ndbfilename dump.rdb\nappendonly no\nsave 1 1\n' % (port, d))
    dump = os.path.join(d, 'dump.rdb')
    p = p2 = None
    violated = False
    try:
        p, c = start(conf, port)
        # initial state, saved: a consistent dump exists before the script starts
        c.cmd('SET', 'acct:a', '1000'); c.cmd('SET', 'acct:b', '1000')
        print('SAVE ->', c.cmd('SAVE'))
        time.sleep(2.3)   # let the auto-save armed by these writes happen and finish: nothing is pending when the script starts
        m0 = os.stat(dump).st_mtime_ns
        # one ordinary write arms the save rule "1 change / 1 second", then the script starts at once (same segment)
        c.s.sendall(Conn.enc('SET', 'other', 'x') + Conn.enc('EVAL', SCRIPT, '2', 'acct:a', 'acct:b'))
        t0 = time.time()   # (the replies of one segment are flushed together when the script ends: do not wait for them)
        saved_mid_script = False
        while time.time() - t0 < 3.0:
            try:
                if os.stat(dump).st_mtime_ns != m0:
                    saved_mid_script = True; break
            except FileNotFoundError:
                pass
            time.sleep(0.02)
        print('dump.rdb rewritten %.2f s after the script started (script still running, it lasts 3.5 s): %s'
              % (time.time() - t0, saved_mid_script))
        time.sleep(0.2)
        # crash while the script is still running
        p.send_signal(signal.SIGKILL); p.wait(); p = None
        print('server killed (SIGKILL) %.2f s after the script started' % (time.time() - t0))
        p2, c2 = start(conf, port)
        a, b = c2.cmd('GET', 'acct:a'), c2.cmd('GET', 'acct:b')
        print('after restart: acct:a =', a, ' acct:b =', b)
        if (a, b) == (b'1000', b'1000'):
            print('HOLDS: the script is not visible at all after the crash (none of it)')
        elif (a, b) == (b'900', b'1100'):
            print('HOLDS: the script is visible completely')
        else:
            violated = True
            print('VIOLATED: the restarted dataset contains HALF of the script (100 units vanished): the dump was taken '
                  'in the middle of the script by the auto-save thread')
    finally:
        for q in (p, p2):
            if q is not None:
                q.kill(); q.wait()
        shutil.rmtree(d, ignore_errors=True)
    return violated

def main():
    for i in range(3):
        print('--- attempt', i + 1)
        if attempt():
            sys.exit(1)
    sys.exit(0)

if __name__ == '__main__':
    main()
