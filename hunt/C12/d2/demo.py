#!/usr/bin/env python3
"""C12 d2: on a REPLICA a script is not atomic with respect to the writes that arrive from the master.
The replication client (src/replication/client.rs, start_background_replication) runs on its OWN thread and applies
each propagated command straight to the StorageEngine (handle_replicated_set -> storage.set_string, ...), not through
the command thread.  A script running on the replica therefore sees a write of a master's client land between two
of its redis.call's.  Real Redis applies the replication stream in the same event loop as the clients' commands, so
a script on a replica sees one dataset: {before, before} (or {after, after}).
(The replication client authenticates with a hard-coded password, 'mysecretpassword', so the master runs with it.)"""
import os, shutil, socket, subprocess, sys, tempfile, threading, time

BIN = sys.argv[1] if len(sys.argv) > 1 else '/tmp/hunt-C12/target/debug/ferrous'
PW = 'mysecretpassword'

def free_port():
    s = socket.socket(); s.bind(('127.0.0.1', 0)); p = s.getsockname()[1]; s.close(); return p

class Conn:
    def __init__(self, port):
        self.s = socket.create_connection(('127.0.0.1', port), timeout=30); self.buf = b''
    def _fill(self):
        d = self.s.recv(65536)
        if not d: raise EOFError('closed')
        self.buf += d
    def _line(self):
        while b'\r\n' not in self.buf: self._fill()
        l, self.buf = self.buf.split(b'\r\n', 1); return l
    def read(self):
        l = self._line(); t, r = l[:1], l[1:]
        if t in b'+-': return l.decode(errors='replace')
        if t == b':': return int(r)
        if t == b'$':
            n = int(r)
            if n < 0: return None
            while len(self.buf) < n + 2: self._fill()
            v = self.buf[:n]; self.buf = self.buf[n + 2:]; return v
        if t == b'*':
            n = int(r); return None if n < 0 else [self.read() for _ in range(n)]
        raise ValueError(l)
    def cmd(self, *args):
        out = b'*%d\r\n' % len(args)
        for a in args:
            a = a if isinstance(a, bytes) else str(a).encode()
            out += b'$%d\r\n%s\r\n' % (len(a), a)
        self.s.sendall(out); return self.read()

def start():
    port = free_port(); d = tempfile.mkdtemp(prefix='hunt-c12-d2-')
    p = subprocess.Popen([BIN, '--port', str(port), '--dir', d, '--requirepass', PW], stdout=subprocess.DEVNULL, stderr=subprocess.DEVNULL)
    for _ in range(200):
        try:
            c = Conn(port); c.cmd('AUTH', PW); return p, port, d, c
        except Exception: time.sleep(0.05)
    p.kill(); raise RuntimeError('server did not start')

SCRIPT = """
local function now() local t = redis.call('TIME') return t[1] * 1000 + math.floor(t[2] / 1000) end
local a = redis.call('GET', KEYS[1])
local t0 = now()
while now() - t0 < 800 do end          -- any work that takes time
local b = redis.call('GET', KEYS[1])
return {a or 'NIL', b or 'NIL'}
"""

def main():
    procs = []
    bad = 0
    try:
        pm, portm, dm, cm = start(); procs.append((pm, dm))
        pr, portr, dr, cr = start(); procs.append((pr, dr))
        print('replica: REPLICAOF ->', cr.cmd('REPLICAOF', '127.0.0.1', portm))
        # wait until the link carries writes
        linked = False
        for i in range(100):
            cm.cmd('SET', 'probe', i); time.sleep(0.1)
            if cr.cmd('GET', 'probe') == str(i).encode(): linked = True; break
        print('replication link carries writes:', linked)
        if not linked:
            print('INCONCLUSIVE: no replication link'); sys.exit(0)
        for run in range(3):
            cm.cmd('SET', 'k', 'before')
            for _ in range(50):
                if cr.cmd('GET', 'k') == b'before': break
                time.sleep(0.05)
            def writer():
                time.sleep(0.3)
                c = Conn(portm); c.cmd('AUTH', PW); c.cmd('SET', 'k', 'after')   # a client of the master
            t = threading.Thread(target=writer); t.start()
            r = cr.cmd('EVAL', SCRIPT, '1', 'k')                                  # a script on the replica
            t.join()
            ok = r[0] == r[1]
            print('run %d: the script on the replica read k twice: %r  %s' % (run, r, 'ok' if ok else '<-- changed inside the script'))
            if not ok: bad += 1
        if bad:
            print('VIOLATED: in %d of 3 runs the write of a master\'s client landed between two redis.call of one script' % bad)
        else:
            print('HOLDS')
    finally:
        for p, d in procs:
            p.kill(); p.wait(); shutil.rmtree(d, ignore_errors=True)
    sys.exit(1 if bad else 0)

if __name__ == '__main__':
    main()
