#!/usr/bin/env python3
"""C10 d4: loading a truncated dump (a prefix of a valid file) is not a CLEAN partial load: the key that the
cut goes through stays in the dataset half built and WITHOUT its time to live.

RdbReader::read_key_value_with_type builds lists (rpush per element), sorted sets (zadd per member) and streams
(xadd_with_id per entry) directly in the live dataset while it reads them and gives the key its deadline only
after the last element (expire_at at the end of the branch).  When the file ends inside such a key, read_string
fails, the error is propagated with `?`, Server::from_config prints 'Failed to load RDB file' and goes on
serving: the dataset now holds that key with the first few elements only and no deadline - a (value, TTL) pair
the key never had; a key that was about to expire has become immortal.  Strings, sets and hashes are read
completely before they are stored, so they are either whole or absent.

The demo saves six small keys, each with a TTL, and restarts the server on EVERY prefix of the dump.
exit 1 = property violated, 0 = holds.
"""
import os, shutil, signal, socket, subprocess, sys, tempfile, time

BIN = sys.argv[1] if len(sys.argv) > 1 else '/tmp/hunt-C10/target/debug/ferrous'


def free_port():
    s = socket.socket(); s.bind(('127.0.0.1', 0)); p = s.getsockname()[1]; s.close(); return p


def enc(*args):
    out = b'*%d\r\n' % len(args)
    for a in args:
        if not isinstance(a, bytes):
            a = str(a).encode()
        out += b'$%d\r\n%s\r\n' % (len(a), a)
    return out


class C:
    def __init__(self, port, timeout=120):
        self.s = socket.create_connection(('127.0.0.1', port), timeout=timeout); self.buf = b''

    def _line(self):
        while b'\r\n' not in self.buf:
            d = self.s.recv(1 << 16)
            if not d:
                raise EOFError
            self.buf += d
        l, self.buf = self.buf.split(b'\r\n', 1); return l

    def read(self):
        l = self._line(); t, r = l[:1], l[1:]
        if t == b'+': return r.decode()
        if t == b'-': return 'ERR:' + r.decode()
        if t == b':': return int(r)
        if t == b'$':
            n = int(r)
            if n < 0: return None
            while len(self.buf) < n + 2:
                self.buf += self.s.recv(1 << 16)
            v = self.buf[:n]; self.buf = self.buf[n + 2:]; return v
        if t == b'*':
            n = int(r); return None if n < 0 else [self.read() for _ in range(n)]
        raise ValueError(l)

    def cmd(self, *a):
        self.s.sendall(enc(*a)); return self.read()

    def pipe(self, cmds):
        self.s.sendall(b''.join(enc(*c) for c in cmds)); return [self.read() for _ in cmds]


def start(d, port, log):
    p = subprocess.Popen([BIN, '--port', str(port), '--dir', d], stdout=open(log, 'ab'), stderr=subprocess.STDOUT)
    for _ in range(600):
        if p.poll() is not None:
            break
        try:
            c = C(port, 5); c.cmd('PING'); c.s.close(); return p
        except Exception:
            time.sleep(0.05)
    return p




def main():
    d = tempfile.mkdtemp(prefix='hunt-c10-d4-'); port = free_port(); log = os.path.join(d, 'server.log')
    dump = os.path.join(d, 'dump.rdb')
    p = start(d, port, log)
    bad = []
    try:
        c = C(port)
        c.cmd('SET', 'str', 'hello'); c.cmd('RPUSH', 'list', 'a', 'b', 'c', 'd', 'e'); c.cmd('ZADD', 'zset', 1, 'm1', 2, 'm2', 3, 'm3', 4, 'm4')
        c.cmd('SADD', 'set', 'x', 'y', 'z'); c.cmd('HSET', 'hash', 'f1', 'v1', 'f2', 'v2'); 
        for i in range(1, 5): c.cmd('XADD', 'stream', '%d-0' % i, 'f', 'v')
        names = ['str', 'list', 'zset', 'set', 'hash', 'stream']
        for k in names: c.cmd('EXPIRE', k, 100000)

        def state(c):
            return {
                'str': c.cmd('GET', 'str'), 'list': c.cmd('LRANGE', 'list', 0, -1), 'zset': c.cmd('ZRANGE', 'zset', 0, -1, 'WITHSCORES'),
                'set': sorted(c.cmd('SMEMBERS', 'set') or []), 'hash': sorted(c.cmd('HGETALL', 'hash') or []),
                'stream': c.cmd('XRANGE', 'stream', '-', '+'),
            }
        full = state(c)
        empty = {'str': None, 'list': [], 'zset': [], 'set': [], 'hash': [], 'stream': []}
        print('SAVE:', c.cmd('SAVE'))
        p.kill(); p.wait()
        data = open(dump, 'rb').read()
        print('valid dump: %d bytes; restarting on each of its %d proper prefixes' % (len(data), len(data)))
        for cut in range(len(data)):
            open(dump, 'wb').write(data[:cut])
            port = free_port()
            p = start(d, port, log)
            if p.poll() is not None:
                bad.append((cut, 'server died at start-up, exit status %s' % p.returncode)); continue
            c = C(port, 10)
            st = state(c)
            for k in names:
                if st[k] == empty[k] or st[k] is None:
                    continue
                ttl = c.cmd('TTL', k)
                if st[k] != full[k] or ttl < 0:
                    bad.append((cut, '%s = %r with TTL %s (saved: %r with a TTL of 100000 s)' % (k, st[k], ttl, full[k])))
            p.kill(); p.wait()
        open(dump, 'wb').write(data)
    finally:
        try: p.kill(); p.wait()
        except Exception: pass
        shutil.rmtree(d, ignore_errors=True)
    if bad:
        print('%d of the prefixes left a half-built key behind; first ones and last one:' % len(set(b[0] for b in bad)))
        for cut, msg in bad[:6] + bad[-1:]:
            print('   prefix of %3d bytes: %s' % (cut, msg))
        print('VIOLATION: a truncated dump was loaded into a key with a value and TTL it never had (not a clean partial load)')
        sys.exit(1)
    print('property held for every prefix'); sys.exit(0)


main()
