#!/usr/bin/env python3
"""C10 d3: a single corrupted byte in a valid dump makes the loader PANIC (arithmetic overflow) at start-up.

RdbReader::read_key_value_with_type, stream branch (src/storage/rdb.rs:937-945): the number of fields of a
stream entry is read from the file as a decimal STRING, parsed into a usize and used unchecked in
    if entry_idx + (field_count * 2) > remaining_count
A count >= 2^63 overflows `field_count * 2` (and a slightly smaller one the addition): in a build with
overflow checks (the default dev profile, i.e. target/debug/ferrous) the process panics
('attempt to multiply with overflow') and the server does not start; without overflow checks the product
wraps to a small number, the test passes and the loader reads 'fields' until the end of the file.

The count string of a valid dump is short ("1"), but its LENGTH byte is a single byte of the file: turned from
1 into 20 it makes the loader take the next 19 bytes into the number - the length byte of the first field
name (48 = ASCII '0' for a 48 byte name) and the first 18 bytes of the name.  A field name that starts with
digits is all it takes.

exit 1 = property violated (panic), 0 = holds (error or clean partial load).
"""
import os, shutil, signal, socket, subprocess, sys, tempfile, time

BIN = sys.argv[1] if len(sys.argv) > 1 else '/tmp/hunt-C10/target/debug/ferrous'


def free_port():
    s = socket.socket(); s.bind(('127.0.0.1', 0)); p = s.getsockname()[1]; s.close(); return p


def enc(*args):
    out = b'*%d\r\n' % len(args)
    for a in args:
        if not isinstance(a, bytes):
            a = str(a).encode()
        out += b'$%d\r\n%s\r\n' % (len(a), a)
    return out


class C:
    def __init__(self, port, timeout=120):
        self.s = socket.create_connection(('127.0.0.1', port), timeout=timeout); self.buf = b''

    def _line(self):
        while b'\r\n' not in self.buf:
            d = self.s.recv(1 << 16)
            if not d:
                raise EOFError
            self.buf += d
        l, self.buf = self.buf.split(b'\r\n', 1); return l

    def read(self):
        l = self._line(); t, r = l[:1], l[1:]
        if t == b'+': return r.decode()
        if t == b'-': return 'ERR:' + r.decode()
        if t == b':': return int(r)
        if t == b'$':
            n = int(r)
            if n < 0: return None
            while len(self.buf) < n + 2:
                self.buf += self.s.recv(1 << 16)
            v = self.buf[:n]; self.buf = self.buf[n + 2:]; return v
        if t == b'*':
            n = int(r); return None if n < 0 else [self.read() for _ in range(n)]
        raise ValueError(l)

    def cmd(self, *a):
        self.s.sendall(enc(*a)); return self.read()

    def pipe(self, cmds):
        self.s.sendall(b''.join(enc(*c) for c in cmds)); return [self.read() for _ in cmds]


def start(d, port, log):
    p = subprocess.Popen([BIN, '--port', str(port), '--dir', d], stdout=open(log, 'ab'), stderr=subprocess.STDOUT)
    for _ in range(600):
        if p.poll() is not None:
            break
        try:
            c = C(port, 5); c.cmd('PING'); c.s.close(); return p
        except Exception:
            time.sleep(0.05)
    return p




def main():
    d = tempfile.mkdtemp(prefix='hunt-c10-d3-'); port = free_port(); log = os.path.join(d, 'server.log')
    dump = os.path.join(d, 'dump.rdb')
    p = start(d, port, log)
    try:
        c = C(port)
        field = b'0' * 18 + b'-sensor-reading-field-name-xxx'      # 48 bytes, starts with digits
        assert len(field) == 48
        print('SET a 1:', c.cmd('SET', 'a', '1'))
        print('XADD st 1-1 <48 byte field name starting with 18 digits> v:', c.cmd('XADD', 'st', '1-1', field, 'v'))
        print('SAVE:', c.cmd('SAVE'))
        p.kill(); p.wait()
        data = open(dump, 'rb').read()
        k = data.index(b'\x031-1\x011') + 4         # length byte of the field-count string "1"
        assert data[k] == 1
        bad = bytearray(data); bad[k] = 20
        open(dump, 'wb').write(bytes(bad))
        print('valid dump: %d bytes; byte %d changed 0x01 -> 0x14 (one byte)' % (len(data), k))
        port2 = free_port()
        p = subprocess.Popen([BIN, '--port', str(port2), '--dir', d], stdout=subprocess.PIPE, stderr=subprocess.STDOUT)
        try:
            out, _ = p.communicate(timeout=6)
            rc = p.returncode
        except subprocess.TimeoutExpired:
            rc = None
            # still running: the load ended with an error or a partial load; look at it
            try:
                c = C(port2, 5); print('server is up; DBSIZE =', c.cmd('DBSIZE'))
            except Exception as e:
                print('server not answering:', e)
            p.kill(); out, _ = p.communicate()
        out = out.decode(errors='replace')
        lines = [l for l in out.split('\n') if 'panicked' in l or 'overflow' in l or 'RDB' in l or 'rdb.rs' in l]
        print('server output (relevant lines):')
        for l in lines[:12]: print('   ', l)
        print('exit status of the server:', rc)
        panicked = 'panicked' in out
    finally:
        try: p.kill(); p.wait()
        except Exception: pass
        shutil.rmtree(d, ignore_errors=True)
    if panicked:
        print('VIOLATION: loading a dump with one corrupted byte panicked')
        sys.exit(1)
    print('property held (no panic in this build)'); sys.exit(0)


main()
