#!/usr/bin/env python3
"""C10 d1 (second path): SAVE and the auto-save thread are not mutually exclusive (check-then-act in handle_save).

handle_save tests bgsave_in_progress and then runs RdbEngine::save WITHOUT holding/setting anything.
The auto-save monitor is another thread: when its 1-second tick falls inside a running SAVE it sees
the flag clear, sets it and starts a background save that opens the same dump.tmp with O_TRUNC.
SAVE keeps writing at its old offset, renames the file and answers +OK although the first part of
dump.rdb is still a hole that the background saver is only beginning to fill.  For up to a whole save
duration the acknowledged dump is not a complete snapshot (a crash then leaves it unloadable), and the
previous completed dump is gone.

exit 1 = property violated, 0 = holds.
"""
import os, shutil, signal, socket, subprocess, sys, tempfile, time

BIN = sys.argv[1] if len(sys.argv) > 1 else '/tmp/hunt-C10/target/debug/ferrous'
N = 450000


def free_port():
    s = socket.socket(); s.bind(('127.0.0.1', 0)); p = s.getsockname()[1]; s.close(); return p


def enc(*args):
    out = b'*%d\r\n' % len(args)
    for a in args:
        if not isinstance(a, bytes):
            a = str(a).encode()
        out += b'$%d\r\n%s\r\n' % (len(a), a)
    return out


class C:
    def __init__(self, port, timeout=120):
        self.s = socket.create_connection(('127.0.0.1', port), timeout=timeout); self.buf = b''

    def _line(self):
        while b'\r\n' not in self.buf:
            d = self.s.recv(1 << 16)
            if not d:
                raise EOFError
            self.buf += d
        l, self.buf = self.buf.split(b'\r\n', 1); return l

    def read(self):
        l = self._line(); t, r = l[:1], l[1:]
        if t == b'+': return r.decode()
        if t == b'-': return 'ERR:' + r.decode()
        if t == b':': return int(r)
        if t == b'$':
            n = int(r)
            if n < 0: return None
            while len(self.buf) < n + 2:
                self.buf += self.s.recv(1 << 16)
            v = self.buf[:n]; self.buf = self.buf[n + 2:]; return v
        if t == b'*':
            n = int(r); return None if n < 0 else [self.read() for _ in range(n)]
        raise ValueError(l)

    def cmd(self, *a):
        self.s.sendall(enc(*a)); return self.read()

    def pipe(self, cmds):
        self.s.sendall(b''.join(enc(*c) for c in cmds)); return [self.read() for _ in cmds]


def start(d, port, log):
    p = subprocess.Popen([BIN, '--port', str(port), '--dir', d], stdout=open(log, 'ab'), stderr=subprocess.STDOUT)
    for _ in range(600):
        if p.poll() is not None:
            break
        try:
            c = C(port, 5); c.cmd('PING'); c.s.close(); return p
        except Exception:
            time.sleep(0.05)
    return p


def parse_dump(b):
    """Structural check of a ferrous dump; returns the number of keys, raises on a malformed/truncated file."""
    pos = 0

    def take(n):
        nonlocal pos
        if pos + n > len(b):
            raise ValueError('truncated at %d' % pos)
        r = b[pos:pos + n]; pos += n; return r

    def length():
        f = take(1)[0]
        if f >> 6 == 0: return f
        if f >> 6 == 1: return ((f & 0x3f) << 8) | take(1)[0]
        if f >> 6 == 2: return int.from_bytes(take(4), 'big')
        raise ValueError('bad length byte 0x%02x at %d' % (f, pos - 1))

    def string():
        return take(length())

    if take(5) != b'REDIS':
        raise ValueError('bad magic')
    take(4)
    keys = 0
    while True:
        op = take(1)[0]
        if op == 0xFF:
            take(8); return keys
        if op == 0xFE: length(); continue
        if op == 0xFB: length(); length(); continue
        if op == 0xFA: string(); string(); continue
        if op == 0xFC: take(8); op = take(1)[0]
        elif op == 0xFD: take(4); op = take(1)[0]
        if op == 0:
            string(); string()
        elif op in (1, 2):
            string()
            for _ in range(length()): string()
        elif op in (3, 5):
            string()
            for _ in range(length()): string(); take(8)
        elif op == 4:
            string()
            for _ in range(2 * length()): string()
        else:
            raise ValueError('unknown type 0x%02x at %d' % (op, pos - 1))
        keys += 1




def count(log, needle):
    return open(log, 'rb').read().decode(errors='replace').count(needle)


def bg_idle(log):
    return count(log, 'RDB: Background saving started') == count(log, 'Background saving terminated') + count(log, 'Background saving error')


def main():
    d = tempfile.mkdtemp(prefix='hunt-c10-d1b-'); port = free_port(); log = os.path.join(d, 'server.log')
    dump = os.path.join(d, 'dump.rdb')
    conf = os.path.join(d, 'ferrous.conf')
    open(conf, 'w').write('save 1 1\n')
    p = subprocess.Popen([BIN, conf, '--port', str(port), '--dir', d], stdout=open(log, 'ab'), stderr=subprocess.STDOUT)
    violated = False
    try:
        for _ in range(200):
            try:
                c = C(port, 5); c.cmd('PING'); break
            except Exception:
                time.sleep(0.05)
        c = C(port)
        print('server started with auto-save rule "save 1 1"; filling', N, 'keys')
        for i in range(0, N, 10000):
            c.pipe([('SET', 'key:%07d' % j, 'v' * 50) for j in range(i, i + 10000)])
        # let the auto-saves of the fill phase drain: quiet = no background save running and none started for 2.5 s
        while True:
            n0 = count(log, 'Auto-save:'); time.sleep(2.5)
            if count(log, 'Auto-save:') == n0 and bg_idle(log):
                break
        for k in range(14):
            while not bg_idle(log):
                time.sleep(0.05)
            time.sleep(1.2 + (k * 0.17) % 1.0)          # move around relative to the monitor's 1 s tick
            autos = count(log, 'Auto-save:')
            t = time.time()
            r = c.pipe([('SET', 'probe', k), ('SAVE',)])
            dur = time.time() - t
            snap = open(dump, 'rb').read()            # the dump as it is when SAVE has just answered
            fired = count(log, 'Auto-save:') - autos
            try:
                keys = parse_dump(snap); state = 'complete (%d keys)' % keys; ok = True
            except ValueError as e:
                state = 'NOT a complete dump: %s' % e; ok = False
            print('attempt %2d: SET+SAVE -> %s in %.2fs; auto-save started during SAVE: %s; dump.rdb at the +OK: %d bytes, %s'
                  % (k, r, dur, bool(fired), len(snap), state))
            if r[1] == 'OK' and not ok:
                z = snap.find(b'\0' * 4096)
                if z >= 0:
                    e2 = z
                    while e2 < len(snap) and snap[e2] == 0: e2 += 1
                    print('   run of zero bytes: [%d, %d)' % (z, e2))
                while not bg_idle(log):
                    time.sleep(0.05)
                print('server log (tail):')
                for l in open(log, 'rb').read().decode(errors='replace').split('\n')[-9:]:
                    if l: print('   ', l)
                violated = True
                break
    finally:
        try: p.kill(); p.wait()
        except Exception: pass
        shutil.rmtree(d, ignore_errors=True)
    if violated:
        print('VIOLATION: SAVE answered OK while dump.rdb was not a complete snapshot (an auto-save truncated the shared dump.tmp under it)')
        sys.exit(1)
    print('property held in every attempt')
    sys.exit(0)


main()
