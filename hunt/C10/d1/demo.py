#!/usr/bin/env python3
"""C10 d1: SHUTDOWN saves while a background save is running (no mutual exclusion).

handle_shutdown calls RdbEngine::save without looking at bgsave_in_progress.  Both savers write the
same temporary file dump.tmp: SHUTDOWN's open(O_TRUNC) empties the file under the background saver,
which goes on writing at its old offset, finishes first and renames the half-written file over
dump.rdb ("Background saving terminated with success").  From that instant until SHUTDOWN's own
writer has filled the gap, dump.rdb is NOT a complete snapshot and the previously completed dump is
gone; a crash in that window (simulated here with SIGKILL) leaves an unloadable dump.

exit 1 = property violated, 0 = holds.
"""
import os, shutil, signal, socket, subprocess, sys, tempfile, time

BIN = sys.argv[1] if len(sys.argv) > 1 else '/tmp/hunt-C10/target/debug/ferrous'
N = 300000


def free_port():
    s = socket.socket(); s.bind(('127.0.0.1', 0)); p = s.getsockname()[1]; s.close(); return p


def enc(*args):
    out = b'*%d\r\n' % len(args)
    for a in args:
        if not isinstance(a, bytes):
            a = str(a).encode()
        out += b'$%d\r\n%s\r\n' % (len(a), a)
    return out


class C:
    def __init__(self, port, timeout=120):
        self.s = socket.create_connection(('127.0.0.1', port), timeout=timeout); self.buf = b''

    def _line(self):
        while b'\r\n' not in self.buf:
            d = self.s.recv(1 << 16)
            if not d:
                raise EOFError
            self.buf += d
        l, self.buf = self.buf.split(b'\r\n', 1); return l

    def read(self):
        l = self._line(); t, r = l[:1], l[1:]
        if t == b'+': return r.decode()
        if t == b'-': return 'ERR:' + r.decode()
        if t == b':': return int(r)
        if t == b'$':
            n = int(r)
            if n < 0: return None
            while len(self.buf) < n + 2:
                self.buf += self.s.recv(1 << 16)
            v = self.buf[:n]; self.buf = self.buf[n + 2:]; return v
        if t == b'*':
            n = int(r); return None if n < 0 else [self.read() for _ in range(n)]
        raise ValueError(l)

    def cmd(self, *a):
        self.s.sendall(enc(*a)); return self.read()

    def pipe(self, cmds):
        self.s.sendall(b''.join(enc(*c) for c in cmds)); return [self.read() for _ in cmds]


def start(d, port, log):
    p = subprocess.Popen([BIN, '--port', str(port), '--dir', d], stdout=open(log, 'ab'), stderr=subprocess.STDOUT)
    for _ in range(600):
        if p.poll() is not None:
            break
        try:
            c = C(port, 5); c.cmd('PING'); c.s.close(); return p
        except Exception:
            time.sleep(0.05)
    return p


def parse_dump(b):
    """Structural check of a ferrous dump; returns the number of keys, raises on a malformed/truncated file."""
    pos = 0

    def take(n):
        nonlocal pos
        if pos + n > len(b):
            raise ValueError('truncated at %d' % pos)
        r = b[pos:pos + n]; pos += n; return r

    def length():
        f = take(1)[0]
        if f >> 6 == 0: return f
        if f >> 6 == 1: return ((f & 0x3f) << 8) | take(1)[0]
        if f >> 6 == 2: return int.from_bytes(take(4), 'big')
        raise ValueError('bad length byte 0x%02x at %d' % (f, pos - 1))

    def string():
        return take(length())

    if take(5) != b'REDIS':
        raise ValueError('bad magic')
    take(4)
    keys = 0
    while True:
        op = take(1)[0]
        if op == 0xFF:
            take(8); return keys
        if op == 0xFE: length(); continue
        if op == 0xFB: length(); length(); continue
        if op == 0xFA: string(); string(); continue
        if op == 0xFC: take(8); op = take(1)[0]
        elif op == 0xFD: take(4); op = take(1)[0]
        if op == 0:
            string(); string()
        elif op in (1, 2):
            string()
            for _ in range(length()): string()
        elif op in (3, 5):
            string()
            for _ in range(length()): string(); take(8)
        elif op == 4:
            string()
            for _ in range(2 * length()): string()
        else:
            raise ValueError('unknown type 0x%02x at %d' % (op, pos - 1))
        keys += 1


def attempt(frac):
    d = tempfile.mkdtemp(prefix='hunt-c10-d1-'); port = free_port(); log = os.path.join(d, 'server.log')
    dump = os.path.join(d, 'dump.rdb')
    p = start(d, port, log)
    p2 = None
    try:
        c = C(port)
        for i in range(0, N, 10000):
            c.pipe([('SET', 'key:%07d' % j, 'v' * 50) for j in range(i, i + 10000)])
        t = time.time(); r = c.cmd('SAVE'); dur = time.time() - t
        d0 = open(dump, 'rb').read()
        ino0 = os.stat(dump).st_ino
        print('first SAVE: %s in %.2fs, completed dump D0 = %d bytes, %d keys' % (r, dur, len(d0), parse_dump(d0)))
        c.cmd('SET', 'after-first-save', 'x')
        r = c.cmd('BGSAVE'); print('BGSAVE ->', r)
        time.sleep(frac * dur)
        c.s.sendall(enc('SHUTDOWN'))          # default: save, then exit
        # watch dump.rdb being replaced
        deadline = time.time() + 30
        while time.time() < deadline:
            try:
                if os.stat(dump).st_ino != ino0:
                    break
            except FileNotFoundError:
                pass
        else:
            print('dump.rdb never replaced'); return None
        os.kill(p.pid, signal.SIGKILL); p.wait()   # crash right after dump.rdb was replaced
        snap = open(dump, 'rb').read()
        logtxt = open(log, 'rb').read().decode(errors='replace')
        print('server log (save related):')
        for l in logtxt.split('\n'):
            if 'RDB' in l or 'SHUTDOWN' in l or 'saving' in l:
                print('   ', l)
        print('dump.rdb after the crash: %d bytes (D0 was %d), identical to D0: %s' % (len(snap), len(d0), snap == d0))
        try:
            k = parse_dump(snap); ok = True
            print('structural check: complete file, %d keys' % k)
        except ValueError as e:
            ok = False
            print('structural check: NOT a complete dump:', e)
            z = snap.find(b'\0' * 4096)
            if z >= 0:
                e2 = z
                while e2 < len(snap) and snap[e2] == 0: e2 += 1
                print('   run of zero bytes (hole left by O_TRUNC under the background saver): [%d, %d)' % (z, e2))
        # what does a restart make of it?
        port2 = free_port(); log2 = os.path.join(d, 'server2.log')
        p2 = start(d, port2, log2)
        try:
            c2 = C(port2); n = c2.cmd('DBSIZE'); print('restart on that file: DBSIZE = %s (dataset had %d keys)' % (n, N + 1))
        except Exception as e:
            n = None; print('restart failed:', e)
        for l in open(log2, 'rb').read().decode(errors='replace').split('\n'):
            if 'RDB' in l and ('load' in l.lower() or 'Load' in l):
                print('   ', l)
        violated = (not ok) or (n != N + 1 and snap != d0)
        return violated
    finally:
        for q in (p, p2):
            if q is not None:
                try: q.kill(); q.wait()
                except Exception: pass
        shutil.rmtree(d, ignore_errors=True)


def main():
    for frac in (0.6, 0.7, 0.5, 0.8):
        print('--- attempt: SHUTDOWN sent %.0f%% into the background save ---' % (frac * 100))
        v = attempt(frac)
        if v:
            print('VIOLATION: dump.rdb was replaced by a file that is neither the previous completed dump nor a complete snapshot')
            sys.exit(1)
    print('property held in every attempt')
    sys.exit(0)


main()
