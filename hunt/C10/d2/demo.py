#!/usr/bin/env python3
"""C10 d2: a stream does not survive SAVE + restart as the value it was: the dump holds only its entries.

write_key_value (Value::Stream arm) writes the marker and the entries returned by stream.range(); the
stream's last ID (StreamData::last_id / last_id_millis / last_id_seq) and its consumer groups (name,
last-delivered ID, consumers, pending entries list) are never written, and the loader rebuilds the stream
with xadd_with_id only.  After a restart the key holds a value it never had: every consumer group is gone
(XREADGROUP -> NOGROUP, pending entries forgotten, so messages that were delivered but not acknowledged are
lost to the group) and the last ID falls back to the highest entry still present, so IDs that the stream had
already used and refused are accepted again.

exit 1 = property violated, 0 = holds.
"""
import os, shutil, signal, socket, subprocess, sys, tempfile, time

BIN = sys.argv[1] if len(sys.argv) > 1 else '/tmp/hunt-C10/target/debug/ferrous'


def free_port():
    s = socket.socket(); s.bind(('127.0.0.1', 0)); p = s.getsockname()[1]; s.close(); return p


def enc(*args):
    out = b'*%d\r\n' % len(args)
    for a in args:
        if not isinstance(a, bytes):
            a = str(a).encode()
        out += b'$%d\r\n%s\r\n' % (len(a), a)
    return out


class C:
    def __init__(self, port, timeout=120):
        self.s = socket.create_connection(('127.0.0.1', port), timeout=timeout); self.buf = b''

    def _line(self):
        while b'\r\n' not in self.buf:
            d = self.s.recv(1 << 16)
            if not d:
                raise EOFError
            self.buf += d
        l, self.buf = self.buf.split(b'\r\n', 1); return l

    def read(self):
        l = self._line(); t, r = l[:1], l[1:]
        if t == b'+': return r.decode()
        if t == b'-': return 'ERR:' + r.decode()
        if t == b':': return int(r)
        if t == b'$':
            n = int(r)
            if n < 0: return None
            while len(self.buf) < n + 2:
                self.buf += self.s.recv(1 << 16)
            v = self.buf[:n]; self.buf = self.buf[n + 2:]; return v
        if t == b'*':
            n = int(r); return None if n < 0 else [self.read() for _ in range(n)]
        raise ValueError(l)

    def cmd(self, *a):
        self.s.sendall(enc(*a)); return self.read()

    def pipe(self, cmds):
        self.s.sendall(b''.join(enc(*c) for c in cmds)); return [self.read() for _ in cmds]


def start(d, port, log):
    p = subprocess.Popen([BIN, '--port', str(port), '--dir', d], stdout=open(log, 'ab'), stderr=subprocess.STDOUT)
    for _ in range(600):
        if p.poll() is not None:
            break
        try:
            c = C(port, 5); c.cmd('PING'); c.s.close(); return p
        except Exception:
            time.sleep(0.05)
    return p




def main():
    d = tempfile.mkdtemp(prefix='hunt-c10-d2-'); port = free_port(); log = os.path.join(d, 'server.log')
    p = start(d, port, log)
    try:
        c = C(port)
        print('XADD s 5-0 / 6-0 / 7-0:', c.cmd('XADD', 's', '5-0', 'a', '1'), c.cmd('XADD', 's', '6-0', 'a', '2'), c.cmd('XADD', 's', '7-0', 'a', '3'))
        print('XDEL s 7-0:', c.cmd('XDEL', 's', '7-0'))
        print('XGROUP CREATE s g 0:', c.cmd('XGROUP', 'CREATE', 's', 'g', '0'))
        print('XREADGROUP GROUP g c1 COUNT 1 STREAMS s > :', c.cmd('XREADGROUP', 'GROUP', 'g', 'c1', 'COUNT', '1', 'STREAMS', 's', '>'))
        before = {
            'groups': c.cmd('XINFO', 'GROUPS', 's'),
            'pending': c.cmd('XPENDING', 's', 'g'),
            'xadd 7-0': c.cmd('XADD', 's', '7-0', 'b', '1'),
        }
        print('before SAVE :', before)
        print('SAVE:', c.cmd('SAVE'))
        p.kill(); p.wait()
        p = start(d, port, log)
        c = C(port)
        print('restarted; XRANGE s - + :', c.cmd('XRANGE', 's', '-', '+'))
        after = {
            'groups': c.cmd('XINFO', 'GROUPS', 's'),
            'pending': c.cmd('XPENDING', 's', 'g'),
        }
        rg = c.cmd('XREADGROUP', 'GROUP', 'g', 'c1', 'COUNT', '1', 'STREAMS', 's', '>')
        after['xadd 7-0'] = c.cmd('XADD', 's', '7-0', 'b', '1')
        print('after restart:', after)
        print('XREADGROUP after restart:', rg)
        bad = []
        if before['groups'] != after['groups']: bad.append('consumer groups lost')
        if before['pending'] != after['pending']: bad.append('pending entries lost')
        if str(before['xadd 7-0']).startswith('ERR') and not str(after['xadd 7-0']).startswith('ERR'):
            bad.append('last ID went back: the deleted ID 7-0 was refused before the save and is accepted after the restart')
    finally:
        try: p.kill(); p.wait()
        except Exception: pass
        shutil.rmtree(d, ignore_errors=True)
    if bad:
        print('VIOLATION: the reloaded stream is not a value the key ever had:', '; '.join(bad))
        sys.exit(1)
    print('property held'); sys.exit(0)


main()
