import socket, subprocess, tempfile, time, sys, shutil

BIN = sys.argv[1] if len(sys.argv) > 1 else '/tmp/hunt-C15/target/debug/ferrous'

def free_port():
    s = socket.socket(); s.bind(('127.0.0.1', 0)); p = s.getsockname()[1]; s.close(); return p

class Srv:
    def __init__(self, d, extra=()):
        self.port = free_port()
        self.p = subprocess.Popen([BIN, '--port', str(self.port), '--dir', d, *extra],
                                  stdout=subprocess.DEVNULL, stderr=subprocess.DEVNULL, cwd=d)
        for _ in range(200):
            try:
                socket.create_connection(('127.0.0.1', self.port), timeout=0.2).close(); return
            except OSError:
                time.sleep(0.05)
        self.stop(); raise RuntimeError('server did not start')
    def stop(self):
        self.p.kill(); self.p.wait()

class C:
    def __init__(self, port):
        self.s = socket.create_connection(('127.0.0.1', port), timeout=10); self.b = b''
    def _line(self):
        while b'\r\n' not in self.b:
            d = self.s.recv(65536)
            if not d: raise EOFError('connection closed')
            self.b += d
        l, self.b = self.b.split(b'\r\n', 1); return l
    def _read(self):
        l = self._line(); t, r = l[:1], l[1:]
        if t == b'+': return r.decode()
        if t == b'-': return Exception(r.decode())
        if t == b':': return int(r)
        if t == b'$':
            n = int(r)
            if n < 0: return None
            while len(self.b) < n + 2: self.b += self.s.recv(65536)
            v = self.b[:n]; self.b = self.b[n + 2:]; return v
        if t == b'*':
            n = int(r)
            return None if n < 0 else [self._read() for _ in range(n)]
        raise ValueError(l)
    def cmd(self, *a):
        out = b'*%d\r\n' % len(a)
        for x in a:
            if isinstance(x, str): x = x.encode()
            out += b'$%d\r\n%s\r\n' % (len(x), x)
        self.s.sendall(out)
        r = self._read()
        print('  %-60s -> %r' % (' '.join(x if isinstance(x, str) else x.decode('latin1') for x in a), r))
        return r

def main():
    d = tempfile.mkdtemp(prefix='huntC15-d1-')
    srv = None
    violations = []
    try:
        srv = Srv(d); c = C(srv.port)
        print('== before restart')
        # (a) top entry deleted with XDEL
        c.cmd('XADD', 'a', '5-0', 'f', 'v'); c.cmd('XADD', 'a', '9-0', 'f', 'v'); c.cmd('XDEL', 'a', '9-0')
        r = c.cmd('XADD', 'a', '7-0', 'f', 'v')
        assert isinstance(r, Exception), 'sanity: 7-0 must be refused before the restart'
        # (b) top entry far ahead of the wall clock, then deleted: stream is empty
        c.cmd('XADD', 'b', '99999999999999-5', 'f', 'v'); c.cmd('XDEL', 'b', '99999999999999-5')
        # (c) stream emptied by XTRIM
        for i in (1, 2, 3): c.cmd('XADD', 'c', '%d-0' % i, 'f', 'v')
        c.cmd('XTRIM', 'c', 'MAXLEN', '0')
        # (d) trimming that keeps the top entry is harmless (control)
        for i in (1, 2, 3): c.cmd('XADD', 'd', '%d-0' % i, 'f', 'v')
        c.cmd('XTRIM', 'd', 'MAXLEN', '1')
        assert c.cmd('SAVE') == 'OK'
        srv.stop()
        print('== after SAVE + restart')
        srv = Srv(d); c = C(srv.port)
        r = c.cmd('XADD', 'a', '7-0', 'f', 'v')
        if not isinstance(r, Exception):
            violations.append('a: explicit ID 7-0 accepted although 9-0 was added earlier (and deleted)')
        r = c.cmd('XADD', 'b', '*', 'f', 'v')
        if not isinstance(r, Exception):
            ms, seq = (int(x) for x in r.split(b'-'))
            if (ms, seq) <= (99999999999999, 5):
                violations.append('b: XADD * returned %s, not greater than 99999999999999-5 added earlier' % r.decode())
        r = c.cmd('XADD', 'c', '2-0', 'f', 'v')
        if not isinstance(r, Exception):
            violations.append('c: explicit ID 2-0 accepted although 3-0 was added earlier (and trimmed)')
        r = c.cmd('XADD', 'd', '2-0', 'f', 'v')
        if not isinstance(r, Exception):
            violations.append('d: explicit ID 2-0 accepted although 3-0 is still present')
        c.cmd('XRANGE', 'a', '-', '+')
    finally:
        if srv: srv.stop()
        shutil.rmtree(d, ignore_errors=True)
    if violations:
        print('PROPERTY VIOLATED:')
        for v in violations: print('  -', v)
        sys.exit(1)
    print('property holds'); sys.exit(0)

main()
