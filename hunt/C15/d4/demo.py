import socket, subprocess, tempfile, time, sys, shutil

BIN = sys.argv[1] if len(sys.argv) > 1 else '/tmp/hunt-C15/target/debug/ferrous'

def free_port():
    s = socket.socket(); s.bind(('127.0.0.1', 0)); p = s.getsockname()[1]; s.close(); return p

class Srv:
    def __init__(self, d, extra=()):
        self.port = free_port()
        self.p = subprocess.Popen([BIN, '--port', str(self.port), '--dir', d, *extra],
                                  stdout=subprocess.DEVNULL, stderr=subprocess.DEVNULL, cwd=d)
        for _ in range(200):
            try:
                socket.create_connection(('127.0.0.1', self.port), timeout=0.2).close(); return
            except OSError:
                time.sleep(0.05)
        self.stop(); raise RuntimeError('server did not start')
    def stop(self):
        self.p.kill(); self.p.wait()

class C:
    def __init__(self, port):
        self.s = socket.create_connection(('127.0.0.1', port), timeout=10); self.b = b''
    def _line(self):
        while b'\r\n' not in self.b:
            d = self.s.recv(65536)
            if not d: raise EOFError('connection closed')
            self.b += d
        l, self.b = self.b.split(b'\r\n', 1); return l
    def _read(self):
        l = self._line(); t, r = l[:1], l[1:]
        if t == b'+': return r.decode()
        if t == b'-': return Exception(r.decode())
        if t == b':': return int(r)
        if t == b'$':
            n = int(r)
            if n < 0: return None
            while len(self.b) < n + 2: self.b += self.s.recv(65536)
            v = self.b[:n]; self.b = self.b[n + 2:]; return v
        if t == b'*':
            n = int(r)
            return None if n < 0 else [self._read() for _ in range(n)]
        raise ValueError(l)
    def cmd(self, *a):
        out = b'*%d\r\n' % len(a)
        for x in a:
            if isinstance(x, str): x = x.encode()
            out += b'$%d\r\n%s\r\n' % (len(x), x)
        self.s.sendall(out)
        r = self._read()
        print('  %-60s -> %r' % (' '.join(x if isinstance(x, str) else x.decode('latin1') for x in a), r))
        return r

def rids(reply):
    if isinstance(reply, Exception) or reply is None: return reply
    return [e[0] for e in reply]

def main():
    d = tempfile.mkdtemp(prefix='huntC15-d4-')
    srv = None
    violations = []
    def check(what, got, want):
        if isinstance(got, Exception) or got != want:
            violations.append('%s: got %r, Redis gives %r' % (what, got, want))
    try:
        srv = Srv(d); c = C(srv.port)
        for i in ('4-7', '5-0', '5-3', '7-1', '9-0', '9-8', '10-0'):
            c.cmd('XADD', 's', i, 'f', 'v')
        print('== bounds given as a bare millisecond (Redis: start ms means ms-0, end ms means ms-18446744073709551615)')
        check('XRANGE s 5 9', rids(c.cmd('XRANGE', 's', '5', '9')), [b'5-0', b'5-3', b'7-1', b'9-0', b'9-8'])
        check('XRANGE s 5-3 9', rids(c.cmd('XRANGE', 's', '5-3', '9')), [b'5-3', b'7-1', b'9-0', b'9-8'])
        check('XREVRANGE s 9 5 COUNT 2', rids(c.cmd('XREVRANGE', 's', '9', '5', 'COUNT', '2')), [b'9-8', b'9-0'])
        check('XRANGE s 0 +', rids(c.cmd('XRANGE', 's', '0', '+')), [b'4-7', b'5-0', b'5-3', b'7-1', b'9-0', b'9-8', b'10-0'])
        r = c.cmd('XREAD', 'STREAMS', 's', '9')
        check('XREAD STREAMS s 9', r if isinstance(r, Exception) or not r else [e[0] for e in r[0][1]], [b'9-8', b'10-0'])
        print('== exclusive bounds (Redis >= 6.2)')
        check('XRANGE s (5-0 (9-8', rids(c.cmd('XRANGE', 's', '(5-0', '(9-8')), [b'5-3', b'7-1', b'9-0'])
        print('== XADD / XDEL with a bare millisecond (Redis: ms-0)')
        check('XADD s 12 f v', c.cmd('XADD', 's', '12', 'f', 'v'), b'12-0')
        check('XDEL s 12', c.cmd('XDEL', 's', '12'), 1)
        c.cmd('XLEN', 's')
    finally:
        if srv: srv.stop()
        shutil.rmtree(d, ignore_errors=True)
    if violations:
        print('PROPERTY VIOLATED (valid Redis bounds / IDs are refused, so the range reads return an error instead of the entries in range):')
        for v in violations: print('  -', v)
        sys.exit(1)
    print('property holds'); sys.exit(0)

main()
