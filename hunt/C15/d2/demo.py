import socket, subprocess, tempfile, time, sys, shutil

BIN = sys.argv[1] if len(sys.argv) > 1 else '/tmp/hunt-C15/target/debug/ferrous'

def free_port():
    s = socket.socket(); s.bind(('127.0.0.1', 0)); p = s.getsockname()[1]; s.close(); return p

class Srv:
    def __init__(self, d, extra=()):
        self.port = free_port()
        self.p = subprocess.Popen([BIN, '--port', str(self.port), '--dir', d, *extra],
                                  stdout=subprocess.DEVNULL, stderr=subprocess.DEVNULL, cwd=d)
        for _ in range(200):
            try:
                socket.create_connection(('127.0.0.1', self.port), timeout=0.2).close(); return
            except OSError:
                time.sleep(0.05)
        self.stop(); raise RuntimeError('server did not start')
    def stop(self):
        self.p.kill(); self.p.wait()

class C:
    def __init__(self, port):
        self.s = socket.create_connection(('127.0.0.1', port), timeout=10); self.b = b''
    def _line(self):
        while b'\r\n' not in self.b:
            d = self.s.recv(65536)
            if not d: raise EOFError('connection closed')
            self.b += d
        l, self.b = self.b.split(b'\r\n', 1); return l
    def _read(self):
        l = self._line(); t, r = l[:1], l[1:]
        if t == b'+': return r.decode()
        if t == b'-': return Exception(r.decode())
        if t == b':': return int(r)
        if t == b'$':
            n = int(r)
            if n < 0: return None
            while len(self.b) < n + 2: self.b += self.s.recv(65536)
            v = self.b[:n]; self.b = self.b[n + 2:]; return v
        if t == b'*':
            n = int(r)
            return None if n < 0 else [self._read() for _ in range(n)]
        raise ValueError(l)
    def cmd(self, *a):
        out = b'*%d\r\n' % len(a)
        for x in a:
            if isinstance(x, str): x = x.encode()
            out += b'$%d\r\n%s\r\n' % (len(x), x)
        self.s.sendall(out)
        r = self._read()
        print('  %-60s -> %r' % (' '.join(x if isinstance(x, str) else x.decode('latin1') for x in a), r))
        return r

def pairs(flat):
    return list(zip(flat[::2], flat[1::2]))

def main():
    d = tempfile.mkdtemp(prefix='huntC15-d2-')
    srv = None
    violations = []
    try:
        srv = Srv(d); c = C(srv.port)
        print('== (1) a field name given twice: Redis keeps both pairs')
        c.cmd('XADD', 'dup', '1-0', 'a', '1', 'a', '2', 'b', '3')
        want = [(b'a', b'1'), (b'a', b'2'), (b'b', b'3')]
        for name, r in (('XRANGE', c.cmd('XRANGE', 'dup', '-', '+')),
                        ('XREVRANGE', c.cmd('XREVRANGE', 'dup', '+', '-')),
                        ('XREAD', c.cmd('XREAD', 'STREAMS', 'dup', '0-0'))):
            flat = r[0][1][0][1] if name == 'XREAD' else r[0][1]
            got = pairs(flat)
            if sorted(got) != sorted(want):
                violations.append('%s: entry 1-0 was added with pairs %r, comes back as %r (a pair is lost)' % (name, want, got))
        print('== (2) the pairs of an entry come back in another order than given (Redis: insertion order)')
        fields = [(b'f%d' % i, b'v%d' % i) for i in range(8)]
        flat = [x for p in fields for x in p]
        misordered = 0
        for i in range(1, 11):
            c.cmd('XADD', 'ord', '%d-0' % i, *flat)
        r = c.cmd('XRANGE', 'ord', '-', '+')
        for e in r:
            got = pairs(e[1])
            if sorted(got) != sorted(fields):
                violations.append('ord %s: pairs changed: %r' % (e[0].decode(), got))
            elif got != fields:
                misordered += 1
        print('  entries whose pairs are not in the order given: %d of %d' % (misordered, len(r)))
        if misordered:
            violations.append('%d of %d entries return their 8 pairs in an order different from the XADD (and different from each other)' % (misordered, len(r)))
    finally:
        if srv: srv.stop()
        shutil.rmtree(d, ignore_errors=True)
    if violations:
        print('PROPERTY VIOLATED:')
        for v in violations: print('  -', v)
        sys.exit(1)
    print('property holds'); sys.exit(0)

main()
