import socket, subprocess, tempfile, time, sys, shutil

BIN = sys.argv[1] if len(sys.argv) > 1 else '/tmp/hunt-C15/target/debug/ferrous'

def free_port():
    s = socket.socket(); s.bind(('127.0.0.1', 0)); p = s.getsockname()[1]; s.close(); return p

class Srv:
    def __init__(self, d, extra=()):
        self.port = free_port()
        self.p = subprocess.Popen([BIN, '--port', str(self.port), '--dir', d, *extra],
                                  stdout=subprocess.DEVNULL, stderr=subprocess.DEVNULL, cwd=d)
        for _ in range(200):
            try:
                socket.create_connection(('127.0.0.1', self.port), timeout=0.2).close(); return
            except OSError:
                time.sleep(0.05)
        self.stop(); raise RuntimeError('server did not start')
    def stop(self):
        self.p.kill(); self.p.wait()

class C:
    def __init__(self, port):
        self.s = socket.create_connection(('127.0.0.1', port), timeout=10); self.b = b''
    def _line(self):
        while b'\r\n' not in self.b:
            d = self.s.recv(65536)
            if not d: raise EOFError('connection closed')
            self.b += d
        l, self.b = self.b.split(b'\r\n', 1); return l
    def _read(self):
        l = self._line(); t, r = l[:1], l[1:]
        if t == b'+': return r.decode()
        if t == b'-': return Exception(r.decode())
        if t == b':': return int(r)
        if t == b'$':
            n = int(r)
            if n < 0: return None
            while len(self.b) < n + 2: self.b += self.s.recv(65536)
            v = self.b[:n]; self.b = self.b[n + 2:]; return v
        if t == b'*':
            n = int(r)
            return None if n < 0 else [self._read() for _ in range(n)]
        raise ValueError(l)
    def cmd(self, *a):
        out = b'*%d\r\n' % len(a)
        for x in a:
            if isinstance(x, str): x = x.encode()
            out += b'$%d\r\n%s\r\n' % (len(x), x)
        self.s.sendall(out)
        r = self._read()
        print('  %-60s -> %r' % (' '.join(x if isinstance(x, str) else x.decode('latin1') for x in a), r))
        return r

def ids(reply, key):
    if not reply or isinstance(reply, Exception): return []
    for k, entries in reply:
        if k == key: return [e[0] for e in entries]
    return []

def main():
    d = tempfile.mkdtemp(prefix='huntC15-d3-')
    srv = None
    violations = []
    try:
        srv = Srv(d); c = C(srv.port)
        for i in (1, 2, 3): c.cmd('XADD', 's', '%d-0' % i, 'f', 'v')
        all_ids = [b'1-0', b'2-0', b'3-0']
        print('== control: no COUNT, COUNT 2')
        assert ids(c.cmd('XREAD', 'STREAMS', 's', '0-0'), b's') == all_ids
        assert ids(c.cmd('XREAD', 'COUNT', '2', 'STREAMS', 's', '0-0'), b's') == all_ids[:2]
        print('== XREAD COUNT 0: in Redis a count of 0 means "no limit" (xreadCommand: count 0 -> streamReplyWithRange without limit)')
        got = ids(c.cmd('XREAD', 'COUNT', '0', 'STREAMS', 's', '0-0'), b's')
        if got != all_ids:
            violations.append('XREAD COUNT 0 STREAMS s 0-0 returned %r, expected all entries after 0-0: %r' % (got, all_ids))
        got = ids(c.cmd('XREAD', 'COUNT', '0', 'STREAMS', 's', '1-0'), b's')
        if got != all_ids[1:]:
            violations.append('XREAD COUNT 0 STREAMS s 1-0 returned %r, expected %r' % (got, all_ids[1:]))
    finally:
        if srv: srv.stop()
        shutil.rmtree(d, ignore_errors=True)
    if violations:
        print('PROPERTY VIOLATED:')
        for v in violations: print('  -', v)
        sys.exit(1)
    print('property holds'); sys.exit(0)

main()
