from h import *
s = Server()
try:
    a = C(s.port); b = C(s.port)
    b.cmd('SET','k','0')
    print(a.cmd('WATCH','k'), a.cmd('UNWATCH','extra'))
    b.cmd('SET','k','1')
    print(a.cmd('MULTI'), a.cmd('PING'), 'EXEC after UNWATCH extra ->', a.cmd('EXEC'))
    print(a.cmd('WATCH','k'), a.cmd('MULTI'), a.cmd('PING'), 'DISCARD extra ->', a.cmd('DISCARD','x'))
    print('EXEC now ->', a.cmd('EXEC'))
    print(a.cmd('MULTI'), a.cmd('SET','y','1'), 'EXEC extra ->', a.cmd('EXEC','x'))
    print(a.cmd('MULTI','x'))
    print(a.cmd('DISCARD'))
    # after nil exec
    print(a.cmd('WATCH','k')); b.cmd('SET','k','2'); print(a.cmd('MULTI'), a.cmd('EXEC'))
    print(a.cmd('MULTI'), a.cmd('PING'), a.cmd('EXEC'))
finally:
    s.stop()
