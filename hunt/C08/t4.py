from h import *
import time
s = Server()
try:
    a = C(s.port); b = C(s.port)
    bad = 0
    for typ, mk in [('str',('SET','k','v')),('list',('RPUSH','k','a')),('hash',('HSET','k','f','v')),('set',('SADD','k','a')),('zset',('ZADD','k','1','a')),('stream',('XADD','k','1-1','a','b'))]:
        for db in (0, 5):
            b.cmd('FLUSHALL'); b.cmd('SELECT', db); a.cmd('SELECT', db)
            b.cmd(*mk); b.cmd('PEXPIRE','k','60')
            assert a.cmd('WATCH','k') == 'OK'
            a.cmd('SELECT', 0)
            time.sleep(0.09)
            a.cmd('MULTI'); a.cmd('PING'); r = a.cmd('EXEC')
            print(typ, db, 'expired ->', r)
            if r is not None: bad += 1
            # not expired
            a.cmd('SELECT', db)
            b.cmd(*mk); b.cmd('PEXPIRE','k','5000')
            assert a.cmd('WATCH','k') == 'OK'
            time.sleep(0.05)
            a.cmd('MULTI'); a.cmd('PING'); r = a.cmd('EXEC')
            if r is None: bad += 1; print('false abort', typ, db)
    # watch expired-not-swept key, then nothing
    b.cmd('SELECT',0); a.cmd('SELECT',0)
    for i in range(20):
        b.cmd('SET','e','v','PX','5'); time.sleep(0.02)
        a.cmd('WATCH','e'); time.sleep(0.3 if i%5==0 else 0.01)
        a.cmd('MULTI'); a.cmd('PING'); r = a.cmd('EXEC')
        if r is None: bad += 1; print('false abort on already-expired key')
    print('bad', bad)
finally:
    s.stop()
