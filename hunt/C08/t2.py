from h import *
s = Server()
try:
    a = C(s.port); b = C(s.port)
    def trial(name, watch_key, mod, setup=None, expect_abort=True):
        b.cmd('FLUSHALL')
        if setup:
            for c in setup: r = b.cmd(*c); 
        r = a.cmd('WATCH', watch_key)
        assert r == 'OK', r
        rr = [b.cmd(*c) for c in mod]
        a.cmd('MULTI'); a.cmd('PING'); r = a.cmd('EXEC')
        ab = r is None
        print(('ok  ' if ab == expect_abort else 'BAD ') + name, 'mods->', rr, 'exec->', r)
    trial('empty key', '', [('SET','','x')])
    trial('binary key', b'\xff\x00\r\n', [('SET',b'\xff\x00\r\n','x')])
    trial('lowercase', 'k', [('set','k','x')])
    trial('setrange empty noop', 'k', [('SETRANGE','k','0','')], setup=[('SET','k','abc')], expect_abort=False)
    trial('eval setbit', 'k', [('EVAL',"return redis.call('SETBIT',KEYS[1],7,1)",'1','k')])
    trial('eval zremrangebyrank', 'z', [('EVAL',"return redis.call('ZREMRANGEBYRANK',KEYS[1],0,0)",'1','z')], setup=[('ZADD','z','1','a','2','b')])
    trial('eval zremrangebyscore', 'z', [('EVAL',"return redis.call('ZREMRANGEBYSCORE',KEYS[1],0,1)",'1','z')], setup=[('ZADD','z','1','a','2','b')])
    trial('eval zremrangebylex', 'z', [('EVAL',"return redis.call('ZREMRANGEBYLEX',KEYS[1],'-','[a')",'1','z')], setup=[('ZADD','z','0','a','0','b')])
    trial('eval flushall other db', 'k', [('SELECT','3'),('EVAL',"return redis.call('FLUSHALL')",'0'),('SELECT','0')], setup=[('SET','k','v')])
    trial('flushall other db', 'k', [('SELECT','3'),('FLUSHALL',),('SELECT','0')], setup=[('SET','k','v')])
    trial('flushdb other db no abort', 'k', [('SELECT','3'),('FLUSHDB',),('SELECT','0')], setup=[('SET','k','v')], expect_abort=False)
    trial('multi exec rename', 'dst', [('MULTI',),('RENAME','src','dst'),('EXEC',)], setup=[('SET','src','v')])
    trial('xgroup destroy', 's', [('XGROUP','DESTROY','s','g')], setup=[('XADD','s','1-1','a','b'),('XGROUP','CREATE','s','g','0')])
    trial('xclaim', 's', [('XCLAIM','s','g','c2','0','1-1')], setup=[('XADD','s','1-1','a','b'),('XGROUP','CREATE','s','g','0'),('XREADGROUP','GROUP','g','c1','STREAMS','s','>')])
    trial('xgroup setid', 's', [('XGROUP','SETID','s','g','$')], setup=[('XADD','s','1-1','a','b'),('XGROUP','CREATE','s','g','0')])
    trial('xgroup delconsumer', 's', [('XGROUP','DELCONSUMER','s','g','c1')], setup=[('XADD','s','1-1','a','b'),('XGROUP','CREATE','s','g','0'),('XREADGROUP','GROUP','g','c1','STREAMS','s','>')])
    trial('spop count 0', 'st', [('SPOP','st','0')], setup=[('SADD','st','a')], expect_abort=False)
    trial('blpop immediate', 'l', [('BLPOP','l','0')], setup=[('RPUSH','l','a')])
    trial('brpop immediate', 'l', [('BRPOP','l','0')], setup=[('RPUSH','l','a')])
    trial('getset', 'k', [('GETSET','k','x')])
    trial('mset', 'k2', [('MSET','k1','x','k2','y')])
    trial('hmset', 'h', [('HMSET','h','a','b')])
    trial('zpopmin', 'z', [('ZPOPMIN','z')], setup=[('ZADD','z','1','a')])
    trial('zpopmax', 'z', [('ZPOPMAX','z','5')], setup=[('ZADD','z','1','a')])
    trial('pexpire neg', 'k', [('PEXPIRE','k','-1')], setup=[('SET','k','v')])
    trial('expire 0', 'k', [('EXPIRE','k','0')], setup=[('SET','k','v')])
    trial('set xx', 'k', [('SET','k','v2','XX')], setup=[('SET','k','v')])
    trial('set xx absent no abort', 'k', [('SET','k','v2','XX')], expect_abort=False)
    trial('set nx present no abort', 'k', [('SET','k','v2','NX')], setup=[('SET','k','v')], expect_abort=False)
    trial('renamenx dest exists no abort', 'd', [('RENAMENX','s','d')], setup=[('SET','s','v'),('SET','d','v')], expect_abort=False)
    trial('renamenx', 'd', [('RENAMENX','s','d')], setup=[('SET','s','v')])
    trial('renamenx src', 's', [('RENAMENX','s','d')], setup=[('SET','s','v')])
finally:
    s.stop()
