#!/usr/bin/env python3
"""C08 d1: UNWATCH sent between MULTI and EXEC is executed at once instead of being queued.

Redis queues every command but EXEC/DISCARD/MULTI/WATCH (+QUIT/RESET) inside MULTI, so UNWATCH answers +QUEUED,
the watch stays armed until EXEC has checked it, and a change of the watched key made before EXEC still makes
EXEC return nil.  ferrous answers +OK, drops the watch immediately, and EXEC then runs the transaction although
the watched key was changed between WATCH and EXEC.

exit 1 = property violated, 0 = holds.
"""
import socket, subprocess, sys, tempfile, time, shutil

BIN = sys.argv[1] if len(sys.argv) > 1 else '/tmp/hunt-C08/target/debug/ferrous'


def free_port():
    s = socket.socket(); s.bind(('127.0.0.1', 0)); p = s.getsockname()[1]; s.close(); return p


class Client:
    def __init__(self, port):
        self.s = socket.create_connection(('127.0.0.1', port), timeout=5)
        self.buf = b''

    def _line(self):
        while b'\r\n' not in self.buf:
            d = self.s.recv(65536)
            if not d:
                raise EOFError('server closed the connection')
            self.buf += d
        line, self.buf = self.buf.split(b'\r\n', 1)
        return line

    def read(self):
        line = self._line()
        t, rest = line[:1], line[1:]
        if t == b'+':
            return rest.decode()
        if t == b'-':
            return 'ERR:' + rest.decode()
        if t == b':':
            return int(rest)
        if t == b'$':
            n = int(rest)
            if n < 0:
                return None
            while len(self.buf) < n + 2:
                d = self.s.recv(65536)
                if not d:
                    raise EOFError
                self.buf += d
            v, self.buf = self.buf[:n], self.buf[n + 2:]
            return v
        if t == b'*':
            n = int(rest)
            if n < 0:
                return None
            return [self.read() for _ in range(n)]
        raise ValueError(line)

    def cmd(self, *args):
        out = b'*%d\r\n' % len(args)
        for a in args:
            if isinstance(a, str):
                a = a.encode()
            out += b'$%d\r\n%s\r\n' % (len(a), a)
        self.s.sendall(out)
        return self.read()


def main():
    port = free_port()
    d = tempfile.mkdtemp(prefix='huntC08d1-')
    srv = subprocess.Popen([BIN, '--port', str(port), '--dir', d], cwd=d,
                           stdout=subprocess.DEVNULL, stderr=subprocess.DEVNULL)
    violated = False
    try:
        for _ in range(200):
            try:
                socket.create_connection(('127.0.0.1', port), timeout=1).close()
                break
            except OSError:
                time.sleep(0.05)
        a, b = Client(port), Client(port)

        def scenario(name, modify, before_multi=False):
            nonlocal violated
            b.cmd('FLUSHALL')
            b.cmd('SET', 'k', '0')
            print('--- %s' % name)
            print('A: WATCH k        ->', a.cmd('WATCH', 'k'))
            if before_multi:
                for c in modify:
                    print('B: %-14s ->' % ' '.join(c), b.cmd(*c))
            print('A: MULTI          ->', a.cmd('MULTI'))
            r_unwatch = a.cmd('UNWATCH')
            print('A: UNWATCH        ->', r_unwatch, '   (Redis: QUEUED)')
            print('A: INCR counter   ->', a.cmd('INCR', 'counter'))
            if not before_multi:
                for c in modify:
                    print('B: %-14s ->' % ' '.join(c), b.cmd(*c))
            r_exec = a.cmd('EXEC')
            print('A: EXEC           ->', r_exec, '   (Redis: nil - k changed between WATCH and EXEC)')
            counter = b.cmd('GET', 'counter')
            print('   counter afterwards =', counter, '   (Redis: nil, nothing executed)')
            if r_exec is not None or counter is not None:
                print('   VIOLATION: EXEC executed although the watched key was changed after WATCH and before EXEC')
                violated = True
            if r_unwatch != 'QUEUED':
                print('   (UNWATCH inside MULTI was executed immediately instead of being queued)')
            # leave a clean state whatever happened
            a.cmd('UNWATCH')

        scenario('watched key overwritten by another client', [('SET', 'k', '1')])
        scenario('watched key overwritten BEFORE MULTI (already dirty when UNWATCH arrives)', [('SET', 'k', '1')], before_multi=True)
        scenario('watched key deleted by another client', [('DEL', 'k')])
        scenario('watched key flushed', [('FLUSHDB',)])

        # control: without the UNWATCH the same interleaving aborts, so the watch itself works
        b.cmd('FLUSHALL'); b.cmd('SET', 'k', '0')
        a.cmd('WATCH', 'k'); a.cmd('MULTI'); a.cmd('INCR', 'counter'); b.cmd('SET', 'k', '1')
        r = a.cmd('EXEC')
        print('--- control (no UNWATCH): EXEC ->', r)
        if r is not None:
            print('   control failed: watch does not work at all')
            violated = True
        # shape of the EXEC reply: Redis returns one slot per queued command, UNWATCH included
        a.cmd('MULTI'); a.cmd('UNWATCH'); a.cmd('PING')
        r = a.cmd('EXEC')
        print('--- MULTI; UNWATCH; PING; EXEC ->', r, '   (Redis: [OK, PONG])')
    finally:
        srv.kill(); srv.wait()
        shutil.rmtree(d, ignore_errors=True)
    print('RESULT:', 'property VIOLATED' if violated else 'property holds')
    sys.exit(1 if violated else 0)


if __name__ == '__main__':
    main()
