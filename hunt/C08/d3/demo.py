"""C08 d3 (low severity): UNWATCH / EXEC / DISCARD / MULTI ignore surplus arguments.

Redis checks the arity of every command before running it: `UNWATCH junk` is answered with
"ERR wrong number of arguments for 'unwatch' command" and the watches STAY, so a later change of the watched
key still makes EXEC return nil.  ferrous runs the command as if the junk were not there: the watches are
dropped and EXEC then executes although the watched key was changed between WATCH and EXEC and no (valid)
UNWATCH / EXEC / DISCARD was issued in between.  In the same way `EXEC junk` runs the queued transaction
(Redis: arity error, nothing runs, the transaction is flagged and a later EXEC answers EXECABORT) and
`DISCARD junk` discards it.

exit 1 = property violated, 0 = holds.
"""
import socket, subprocess, sys, tempfile, time, shutil

BIN = sys.argv[1] if len(sys.argv) > 1 else '/tmp/hunt-C08/target/debug/ferrous'


def free_port():
    s = socket.socket(); s.bind(('127.0.0.1', 0)); p = s.getsockname()[1]; s.close(); return p


class Client:
    def __init__(self, port):
        self.s = socket.create_connection(('127.0.0.1', port), timeout=5)
        self.buf = b''

    def _line(self):
        while b'\r\n' not in self.buf:
            d = self.s.recv(65536)
            if not d:
                raise EOFError('server closed the connection')
            self.buf += d
        line, self.buf = self.buf.split(b'\r\n', 1)
        return line

    def read(self):
        line = self._line()
        t, rest = line[:1], line[1:]
        if t == b'+':
            return rest.decode()
        if t == b'-':
            return 'ERR:' + rest.decode()
        if t == b':':
            return int(rest)
        if t == b'$':
            n = int(rest)
            if n < 0:
                return None
            while len(self.buf) < n + 2:
                d = self.s.recv(65536)
                if not d:
                    raise EOFError
                self.buf += d
            v, self.buf = self.buf[:n], self.buf[n + 2:]
            return v
        if t == b'*':
            n = int(rest)
            if n < 0:
                return None
            return [self.read() for _ in range(n)]
        raise ValueError(line)

    def cmd(self, *args):
        out = b'*%d\r\n' % len(args)
        for a in args:
            if isinstance(a, str):
                a = a.encode()
            out += b'$%d\r\n%s\r\n' % (len(a), a)
        self.s.sendall(out)
        return self.read()


def main():
    port = free_port()
    d = tempfile.mkdtemp(prefix='huntC08d3-')
    srv = subprocess.Popen([BIN, '--port', str(port), '--dir', d], cwd=d,
                           stdout=subprocess.DEVNULL, stderr=subprocess.DEVNULL)
    violated = False
    try:
        for _ in range(200):
            try:
                socket.create_connection(('127.0.0.1', port), timeout=1).close()
                break
            except OSError:
                time.sleep(0.05)
        a, b = Client(port), Client(port)

        b.cmd('FLUSHALL'); b.cmd('SET', 'k', '0')
        print('--- UNWATCH with a surplus argument')
        print('A: WATCH k        ->', a.cmd('WATCH', 'k'))
        r = a.cmd('UNWATCH', 'junk')
        print('A: UNWATCH junk   ->', r, "   (Redis: ERR wrong number of arguments for 'unwatch' command; k stays watched)")
        print('B: SET k 1        ->', b.cmd('SET', 'k', '1'))
        print('A: MULTI          ->', a.cmd('MULTI'))
        print('A: INCR counter   ->', a.cmd('INCR', 'counter'))
        r_exec = a.cmd('EXEC')
        print('A: EXEC           ->', r_exec, '   (Redis: nil)')
        counter = b.cmd('GET', 'counter')
        print('   counter afterwards =', counter)
        if r_exec is not None or counter is not None:
            print('   VIOLATION: k was changed between WATCH and EXEC, no valid UNWATCH/EXEC/DISCARD in between, EXEC ran')
            violated = True

        b.cmd('FLUSHALL')
        print('--- EXEC with a surplus argument')
        print('A: MULTI          ->', a.cmd('MULTI'))
        print('A: INCR counter   ->', a.cmd('INCR', 'counter'))
        r = a.cmd('EXEC', 'junk')
        print('A: EXEC junk      ->', r, "   (Redis: ERR wrong number of arguments for 'exec' command, nothing runs)")
        counter = b.cmd('GET', 'counter')
        print('   counter afterwards =', counter, '   (Redis: nil)')
        if counter is not None:
            print('   (deviation: a malformed EXEC executed the transaction)')
        r = a.cmd('DISCARD')
        print('A: DISCARD        ->', r, '   (Redis: OK - the client is still inside MULTI)')
    finally:
        srv.kill(); srv.wait()
        shutil.rmtree(d, ignore_errors=True)
    print('RESULT:', 'property VIOLATED' if violated else 'property holds')
    sys.exit(1 if violated else 0)


if __name__ == '__main__':
    main()
