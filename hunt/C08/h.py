import socket, subprocess, tempfile, time, sys, os, shutil

BIN = '/tmp/hunt-C08/target/debug/ferrous'

def free_port():
    s = socket.socket(); s.bind(('127.0.0.1', 0)); p = s.getsockname()[1]; s.close(); return p

class Server:
    def __init__(self, extra=None, binpath=BIN):
        self.port = free_port()
        self.dir = tempfile.mkdtemp(prefix='huntC08-')
        args = [binpath, '--port', str(self.port), '--dir', self.dir] + (extra or [])
        self.p = subprocess.Popen(args, stdout=subprocess.DEVNULL, stderr=subprocess.DEVNULL, cwd=self.dir)
        for _ in range(100):
            try:
                s = socket.create_connection(('127.0.0.1', self.port), timeout=1); s.close(); break
            except OSError:
                time.sleep(0.05)
    def stop(self):
        self.p.kill(); self.p.wait(); shutil.rmtree(self.dir, ignore_errors=True)

class C:
    def __init__(self, port, timeout=5):
        self.s = socket.create_connection(('127.0.0.1', port), timeout=timeout)
        self.buf = b''
    def send(self, *args):
        out = b'*%d\r\n' % len(args)
        for a in args:
            if isinstance(a, str): a = a.encode()
            elif isinstance(a, int): a = str(a).encode()
            out += b'$%d\r\n%s\r\n' % (len(a), a)
        self.s.sendall(out)
    def _line(self):
        while b'\r\n' not in self.buf:
            d = self.s.recv(65536)
            if not d: raise EOFError
            self.buf += d
        l, self.buf = self.buf.split(b'\r\n', 1)
        return l
    def read(self):
        l = self._line()
        t, r = l[:1], l[1:]
        if t == b'+': return r.decode()
        if t == b'-': return Exception(r.decode())
        if t == b':': return int(r)
        if t == b'$':
            n = int(r)
            if n < 0: return None
            while len(self.buf) < n + 2:
                d = self.s.recv(65536)
                if not d: raise EOFError
                self.buf += d
            v, self.buf = self.buf[:n], self.buf[n+2:]
            return v
        if t == b'*':
            n = int(r)
            if n < 0: return None
            return [self.read() for _ in range(n)]
        raise Exception('bad ' + repr(l))
    def cmd(self, *args):
        self.send(*args); return self.read()
