from h import *
import random, sys
seed = int(sys.argv[1]) if len(sys.argv) > 1 else 1
random.seed(seed)
s = Server()
KEYS = ['a','b','c']
def snap(c, db, k):
    c.cmd('SELECT', db)
    t = c.cmd('TYPE', k)
    if t == 'none': v = None
    elif t == 'string': v = c.cmd('GET', k)
    elif t == 'list': v = c.cmd('LRANGE', k, 0, -1)
    elif t == 'set': v = sorted(c.cmd('SMEMBERS', k))
    elif t == 'hash':
        x = c.cmd('HGETALL', k); v = sorted(zip(x[::2], x[1::2]))
    elif t == 'zset': v = c.cmd('ZRANGE', k, 0, -1, 'WITHSCORES')
    elif t == 'stream': v = c.cmd('XRANGE', k, '-', '+')
    else: v = '?'
    ttl = c.cmd('PTTL', k)
    return (t, repr(v), ttl >= 0 if isinstance(ttl,int) else ttl)
def rk(): return random.choice(KEYS)
def rv(): return random.choice(['1','2','x','y','10'])
xid = [10]
def gen():
    k = rk()
    xid[0] += 1
    opts = [
        ('SET',k,rv()), ('SET',k,rv(),'NX'), ('SET',k,rv(),'XX'), ('SET',k,rv(),'EX','100'), ('SETNX',k,rv()), ('SETEX',k,'100',rv()), ('PSETEX',k,'100000',rv()),
        ('GETSET',k,rv()), ('APPEND',k,rv()), ('SETRANGE',k,'1',rv()), ('INCR',k), ('DECR',k), ('INCRBY',k,'3'), ('DECRBY',k,'2'),
        ('DEL',k), ('DEL',rk(),rk()), ('EXPIRE',k,'100'), ('PEXPIRE',k,'100000'), ('EXPIRE',k,'-1'), ('PERSIST',k), ('RENAME',k,rk()), ('RENAMENX',k,rk()),
        ('MSET',k,rv(),rk(),rv()),
        ('LPUSH',k,rv()), ('RPUSH',k,rv(),rv()), ('LPOP',k), ('RPOP',k), ('LSET',k,'0',rv()), ('LTRIM',k,'0','0'), ('LTRIM',k,'0','-1'), ('LREM',k,'0',rv()),
        ('BLPOP',k,rk(),'0.01'), ('BRPOP',k,'0.01'),
        ('SADD',k,rv()), ('SREM',k,rv()), ('SPOP',k), ('SPOP',k,'2'),
        ('HSET',k,rv(),rv()), ('HMSET',k,rv(),rv()), ('HDEL',k,rv()), ('HINCRBY',k,'n','1'),
        ('ZADD',k,'1',rv()), ('ZREM',k,rv()), ('ZINCRBY',k,'1',rv()), ('ZPOPMIN',k), ('ZPOPMAX',k,'2'),
        ('XADD',k,'%d-1'%xid[0],'f','v'), ('XADD',k,'*','f','v'), ('XTRIM',k,'MAXLEN','1'), ('XDEL',k,'%d-1'%(xid[0]-random.randint(0,3))),
        ('XGROUP','CREATE',k,'g','$','MKSTREAM'),
        ('GET',k), ('LRANGE',k,'0','-1'), ('TYPE',k), ('EXISTS',k), ('TTL',k), ('KEYS','*'), ('SCAN','0'), ('DBSIZE',), ('RANDOMKEY',),
        ('FLUSHDB',), ('FLUSHALL',),
    ]
    w = [1]*len(opts); w[-1] = 0.15; w[-2] = 0.15
    return random.choices(opts, w)[0]
def mentions(cmd, k):
    if cmd[0] in ('FLUSHDB','FLUSHALL'): return True
    return k in cmd[1:]
bad = 0
try:
    w = C(s.port); b = C(s.port); o = C(s.port)
    for it in range(int(sys.argv[2]) if len(sys.argv) > 2 else 400):
        # random prelude
        for _ in range(random.randint(0,4)):
            b.cmd('SELECT', random.choice([0,1])); b.cmd(*gen())
        wdb = random.choice([0,1]); wk = rk()
        w.cmd('SELECT', wdb)
        assert w.cmd('WATCH', wk) == 'OK'
        if random.random() < 0.3: w.cmd('SELECT', random.choice([0,1]))
        before = snap(o, wdb, wk)
        must_abort = False; touched_name = False
        log = []
        for _ in range(random.randint(0,3)):
            bdb = random.choice([0,1]); b.cmd('SELECT', bdb)
            cmd = gen()
            mode = random.choice(['direct','direct','exec','script','self'])
            if mode == 'self' and cmd[0] in ('BLPOP','BRPOP'): mode = 'direct'
            s0 = snap(o, wdb, wk)
            if mode == 'direct': r = b.cmd(*cmd)
            elif mode == 'exec':
                b.cmd('MULTI'); b.cmd(*cmd); r = b.cmd('EXEC')
            elif mode == 'script':
                if cmd[0] in ('BLPOP','BRPOP','KEYS','SCAN','RANDOMKEY','DBSIZE'): r = b.cmd(*cmd)
                else:
                    r = b.cmd('EVAL', 'return redis.call(%s)' % ','.join("'%s'"%x for x in cmd), '0')
            else:
                cur = w.cmd('SELECT', bdb); r = w.cmd(*cmd)
            s1 = snap(o, wdb, wk)
            log.append((mode, bdb, cmd, r))
            if s0 != s1: must_abort = True
            if (bdb == wdb or cmd[0]=='FLUSHALL') and mentions(cmd, wk): touched_name = True
        w.cmd('MULTI'); w.cmd('PING'); r = w.cmd('EXEC')
        aborted = r is None
        if must_abort and not aborted:
            bad += 1; print('MISSED ABORT', seed, it, (wdb, wk), log)
        if aborted and not touched_name:
            bad += 1; print('FALSE ABORT', seed, it, (wdb, wk), log)
    print('seed', seed, 'bad', bad)
finally:
    s.stop()
