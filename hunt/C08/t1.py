from h import *
s = Server()
try:
    a = C(s.port); b = C(s.port)
    # UNWATCH inside MULTI
    print('SET', b.cmd('SET','k','0'))
    print(a.cmd('WATCH','k'))
    print(a.cmd('MULTI'))
    print('UNWATCH in MULTI ->', a.cmd('UNWATCH'))
    print(b.cmd('SET','k','1'))
    print(a.cmd('SET','x','1'))
    print('EXEC ->', a.cmd('EXEC'))
    # consumer groups
    print(b.cmd('XADD','s','1-1','f','v'))
    print(a.cmd('WATCH','s'))
    print(b.cmd('XGROUP','CREATE','s','g','0'))
    print(a.cmd('MULTI')); print(a.cmd('PING')); print('EXEC after XGROUP CREATE ->', a.cmd('EXEC'))
    print(a.cmd('WATCH','s'))
    print(b.cmd('XREADGROUP','GROUP','g','c','STREAMS','s','>'))
    print(a.cmd('MULTI')); print(a.cmd('PING')); print('EXEC after XREADGROUP ->', a.cmd('EXEC'))
    print(a.cmd('WATCH','s'))
    print(b.cmd('XACK','s','g','1-1'))
    print(a.cmd('MULTI')); print(a.cmd('PING')); print('EXEC after XACK ->', a.cmd('EXEC'))
    print(a.cmd('WATCH','s2'))
    print(b.cmd('XGROUP','CREATE','s2','g','$','MKSTREAM'))
    print(a.cmd('MULTI')); print(a.cmd('PING')); print('EXEC after XGROUP CREATE MKSTREAM ->', a.cmd('EXEC'))
finally:
    s.stop()
