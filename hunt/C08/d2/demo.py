#!/usr/bin/env python3
"""C08 d2: consumer-group write commands change a watched stream key without aborting the watcher's EXEC.

XGROUP CREATE / SETID / CREATECONSUMER / DELCONSUMER / DESTROY, XREADGROUP (>), XACK and XCLAIM are in the
server's own write-command table (is_write_command: logged to the AOF, propagated to replicas) and change what
XINFO / XPENDING / XREADGROUP report for the key, but none of them marks the key as modified, so a connection
that WATCHed the stream and read its group state gets its EXEC executed on stale information.

For every command the demo shows the observable state of the key before and after (XINFO GROUPS + XPENDING),
so that "the key was modified" is not a matter of opinion, then the watcher's EXEC reply.

exit 1 = property violated, 0 = holds.
"""
import socket, subprocess, sys, tempfile, time, shutil

BIN = sys.argv[1] if len(sys.argv) > 1 else '/tmp/hunt-C08/target/debug/ferrous'


def free_port():
    s = socket.socket(); s.bind(('127.0.0.1', 0)); p = s.getsockname()[1]; s.close(); return p


class Client:
    def __init__(self, port):
        self.s = socket.create_connection(('127.0.0.1', port), timeout=5)
        self.buf = b''

    def _line(self):
        while b'\r\n' not in self.buf:
            d = self.s.recv(65536)
            if not d:
                raise EOFError('server closed the connection')
            self.buf += d
        line, self.buf = self.buf.split(b'\r\n', 1)
        return line

    def read(self):
        line = self._line()
        t, rest = line[:1], line[1:]
        if t == b'+':
            return rest.decode()
        if t == b'-':
            return 'ERR:' + rest.decode()
        if t == b':':
            return int(rest)
        if t == b'$':
            n = int(rest)
            if n < 0:
                return None
            while len(self.buf) < n + 2:
                d = self.s.recv(65536)
                if not d:
                    raise EOFError
                self.buf += d
            v, self.buf = self.buf[:n], self.buf[n + 2:]
            return v.decode('latin-1')
        if t == b'*':
            n = int(rest)
            if n < 0:
                return None
            return [self.read() for _ in range(n)]
        raise ValueError(line)

    def cmd(self, *args):
        out = b'*%d\r\n' % len(args)
        for a in args:
            if isinstance(a, str):
                a = a.encode()
            out += b'$%d\r\n%s\r\n' % (len(a), a)
        self.s.sendall(out)
        return self.read()


BASE = [
    ('XADD', 's', '1-1', 'f', 'v'),
    ('XADD', 's', '2-1', 'f', 'v'),
    ('XGROUP', 'CREATE', 's', 'g', '0'),
    ('XREADGROUP', 'GROUP', 'g', 'c1', 'COUNT', '1', 'STREAMS', 's', '>'),   # 1-1 pending for c1
]

# (label, commands run by the modifier)
DIRECT = [
    ('XGROUP CREATE (existing stream)', [('XGROUP', 'CREATE', 's', 'g2', '$')]),
    ('XGROUP SETID',                    [('XGROUP', 'SETID', 's', 'g', '$')]),
    ('XGROUP CREATECONSUMER',           [('XGROUP', 'CREATECONSUMER', 's', 'g', 'c9')]),
    ('XGROUP DELCONSUMER',              [('XGROUP', 'DELCONSUMER', 's', 'g', 'c1')]),
    ('XGROUP DESTROY',                  [('XGROUP', 'DESTROY', 's', 'g')]),
    ('XREADGROUP >',                    [('XREADGROUP', 'GROUP', 'g', 'c2', 'STREAMS', 's', '>')]),
    ('XACK',                            [('XACK', 's', 'g', '1-1')]),
    ('XCLAIM',                          [('XCLAIM', 's', 'g', 'c2', '0', '1-1')]),
]


def state(c):
    """what a reader of the key can see of its consumer-group state"""
    groups = c.cmd('XINFO', 'GROUPS', 's')
    pend = c.cmd('XPENDING', 's', 'g')
    return repr((groups, pend))


def main():
    port = free_port()
    d = tempfile.mkdtemp(prefix='huntC08d2-')
    srv = subprocess.Popen([BIN, '--port', str(port), '--dir', d], cwd=d,
                           stdout=subprocess.DEVNULL, stderr=subprocess.DEVNULL)
    missed = []
    try:
        for _ in range(200):
            try:
                socket.create_connection(('127.0.0.1', port), timeout=1).close()
                break
            except OSError:
                time.sleep(0.05)
        a, b = Client(port), Client(port)

        def trial(label, how, cmds):
            b.cmd('FLUSHALL')
            for c in BASE:
                r = b.cmd(*c)
                assert not (isinstance(r, str) and r.startswith('ERR:')), (c, r)
            assert a.cmd('WATCH', 's') == 'OK'
            before = state(a)                     # the watcher reads the state it will base its transaction on
            if how == 'other connection':
                replies = [b.cmd(*c) for c in cmds]
            elif how == 'other connection, inside EXEC':
                b.cmd('MULTI')
                for c in cmds:
                    b.cmd(*c)
                replies = b.cmd('EXEC')
            elif how == 'other connection, inside a script':
                replies = []
                for c in cmds:
                    script = 'return redis.call(%s)' % ','.join("'%s'" % x for x in c)
                    replies.append(b.cmd('EVAL', script, '0'))
            elif how == 'same connection':
                replies = [a.cmd(*c) for c in cmds]
            else:
                raise ValueError(how)
            after = state(b)
            a.cmd('MULTI')
            a.cmd('INCR', 'ran')
            r = a.cmd('EXEC')
            changed = before != after
            ok = (r is None) or not changed
            print('%-4s %-32s %-36s key state changed: %-5s EXEC -> %r' %
                  ('ok' if ok else 'MISS', label, '[' + how + ']', changed, r))
            if not ok:
                print('       modifier replies: %r' % (replies,))
                print('       before: %s' % before)
                print('       after : %s' % after)
                missed.append((label, how))

        for label, cmds in DIRECT:
            trial(label, 'other connection', cmds)
        for label, cmds in DIRECT:
            if label in ('XACK', 'XREADGROUP >', 'XGROUP SETID'):
                trial(label, 'other connection, inside EXEC', cmds)
                trial(label, 'other connection, inside a script', cmds)
                trial(label, 'same connection', cmds)

        # controls: entry-level stream writes do abort, and a read-only command does not
        trial('control XADD (must abort)', 'other connection', [('XADD', 's', '3-1', 'f', 'v')])
        trial('control XDEL (must abort)', 'other connection', [('XDEL', 's', '2-1')])
        trial('control XPENDING (read-only)', 'other connection', [('XPENDING', 's', 'g')])
    finally:
        srv.kill(); srv.wait()
        shutil.rmtree(d, ignore_errors=True)
    print()
    print('consumer-group writes that changed the watched key without aborting EXEC: %d' % len(missed))
    print('RESULT:', 'property VIOLATED' if missed else 'property holds')
    sys.exit(1 if missed else 0)


if __name__ == '__main__':
    main()
