#!/usr/bin/env python3
"""The error replies of the refusals the property names (LSET on a missing key / out of range,
HINCRBY on a non-integer field / overflow) are not the Redis replies when the command is issued
directly: the error class is doubled ("-ERR ERR no such key") and HINCRBY reports the wrong message.
The very same commands issued through a script (redis.pcall) answer the correct single-prefixed text,
so the direct path is the odd one. Cosmetic, but every reply of these refusals differs from Redis.
Exit code 1 = property violated, 0 = holds.
"""
import os, shutil, socket, subprocess, sys, tempfile, time

BIN = sys.argv[1] if len(sys.argv) > 1 else '/tmp/hunt-C03/target/debug/ferrous'


def free_port():
    s = socket.socket(); s.bind(('127.0.0.1', 0)); p = s.getsockname()[1]; s.close(); return p


def enc(*args):
    out = b'*%d\r\n' % len(args)
    for a in args:
        if isinstance(a, str):
            a = a.encode()
        out += b'$%d\r\n%s\r\n' % (len(a), a)
    return out


class Client:
    def __init__(self, port):
        self.s = socket.create_connection(('127.0.0.1', port), timeout=5)
        self.buf = b''

    def _line(self):
        while b'\r\n' not in self.buf:
            d = self.s.recv(65536)
            if not d:
                raise RuntimeError('connection closed')
            self.buf += d
        l, self.buf = self.buf.split(b'\r\n', 1)
        return l

    def read(self):
        l = self._line(); t, r = l[:1], l[1:]
        if t == b'+': return r.decode()
        if t == b'-': return '-' + r.decode()
        if t == b':': return int(r)
        if t == b'$':
            n = int(r)
            if n < 0: return None
            while len(self.buf) < n + 2:
                self.buf += self.s.recv(65536)
            v = self.buf[:n]; self.buf = self.buf[n + 2:]; return v
        if t == b'*':
            n = int(r)
            return None if n < 0 else [self.read() for _ in range(n)]
        raise RuntimeError('bad reply %r' % l)

    def cmd(self, *a):
        self.s.sendall(enc(*a)); return self.read()


def main():
    d = tempfile.mkdtemp(prefix='huntC03-d4-')
    port = free_port()
    log = open(os.path.join(d, 'server.log'), 'wb')
    p = subprocess.Popen([BIN, '--port', str(port), '--dir', d], stdout=log, stderr=log, cwd=d)
    violated = False
    try:
        for _ in range(200):
            try:
                socket.create_connection(('127.0.0.1', port), timeout=0.5).close(); break
            except OSError:
                time.sleep(0.05)
        c = Client(port)
        c.cmd('RPUSH', 'l', 'a')
        c.cmd('HSET', 'h', 'f', 'abc', 'm', '9223372036854775807')
        cases = [
            (('LSET', 'nokey', '0', 'x'), '-ERR no such key'),
            (('LSET', 'l', '5', 'x'), '-ERR index out of range'),
            (('LSET', 'l', '-2', 'x'), '-ERR index out of range'),
            (('HINCRBY', 'h', 'f', '1'), '-ERR hash value is not an integer'),
            (('HINCRBY', 'h', 'm', '1'), '-ERR increment or decrement would overflow'),
        ]
        for cmd, expected in cases:
            r = c.cmd(*cmd)
            ok = r == expected
            print('direct  %-26s -> %-55r %s' % (' '.join(cmd), r, 'ok' if ok else 'VIOLATION (Redis: %r)' % expected))
            if not ok:
                violated = True
            # the same command through a script, for comparison
            script = "return redis.pcall(unpack(ARGV))"
            r2 = c.cmd('EVAL', script, '0', *cmd)
            print('script  %-26s -> %r' % (' '.join(cmd), r2))
        # inside a transaction the direct handlers run too
        c.cmd('MULTI'); c.cmd('LSET', 'nokey', '0', 'x'); r = c.cmd('EXEC')
        ok = r == ['-ERR no such key']
        print('MULTI/LSET nokey 0 x/EXEC          -> %r   %s' % (r, 'ok' if ok else 'VIOLATION'))
        if not ok:
            violated = True
        # nothing was changed by the refusals (this part of the property holds)
        print('state after: LRANGE l ->', c.cmd('LRANGE', 'l', '0', '-1'), ' HGET h f ->', c.cmd('HGET', 'h', 'f'), ' HGET h m ->', c.cmd('HGET', 'h', 'm'))
    finally:
        p.kill(); p.wait()
        log.close()
        shutil.rmtree(d, ignore_errors=True)
    print('PROPERTY VIOLATED' if violated else 'property holds')
    sys.exit(1 if violated else 0)


if __name__ == '__main__':
    main()
