#!/usr/bin/env python3
"""SINTER stops at the first missing key and never type-checks the keys after it.

Redis (>= 7.0, Valkey) answers WRONGTYPE whenever ANY named key holds a non-set value
(SUNION and SDIFF here do, and SDIFF was repaired for exactly this in 176422c);
ferrous answers an empty array as soon as a missing key precedes the wrong-typed one.
Exit code 1 = property violated, 0 = holds.
"""
import os, shutil, socket, subprocess, sys, tempfile, time

BIN = sys.argv[1] if len(sys.argv) > 1 else '/tmp/hunt-C03/target/debug/ferrous'


def free_port():
    s = socket.socket(); s.bind(('127.0.0.1', 0)); p = s.getsockname()[1]; s.close(); return p


def enc(*args):
    out = b'*%d\r\n' % len(args)
    for a in args:
        if isinstance(a, str):
            a = a.encode()
        out += b'$%d\r\n%s\r\n' % (len(a), a)
    return out


class Client:
    def __init__(self, port):
        self.s = socket.create_connection(('127.0.0.1', port), timeout=5)
        self.buf = b''

    def _line(self):
        while b'\r\n' not in self.buf:
            d = self.s.recv(65536)
            if not d:
                raise RuntimeError('connection closed')
            self.buf += d
        l, self.buf = self.buf.split(b'\r\n', 1)
        return l

    def read(self):
        l = self._line(); t, r = l[:1], l[1:]
        if t == b'+': return r.decode()
        if t == b'-': return 'ERROR:' + r.decode()
        if t == b':': return int(r)
        if t == b'$':
            n = int(r)
            if n < 0: return None
            while len(self.buf) < n + 2:
                self.buf += self.s.recv(65536)
            v = self.buf[:n]; self.buf = self.buf[n + 2:]; return v
        if t == b'*':
            n = int(r)
            return None if n < 0 else [self.read() for _ in range(n)]
        raise RuntimeError('bad reply %r' % l)

    def cmd(self, *a):
        self.s.sendall(enc(*a)); return self.read()


def main():
    d = tempfile.mkdtemp(prefix='huntC03-d1-')
    port = free_port()
    log = open(os.path.join(d, 'server.log'), 'wb')
    p = subprocess.Popen([BIN, '--port', str(port), '--dir', d], stdout=log, stderr=log, cwd=d)
    violated = False
    try:
        for _ in range(200):
            try:
                socket.create_connection(('127.0.0.1', port), timeout=0.5).close(); break
            except OSError:
                time.sleep(0.05)
        c = Client(port)
        print('SET str x        ->', c.cmd('SET', 'str', 'x'))
        print('RPUSH lst a      ->', c.cmd('RPUSH', 'lst', 'a'))
        print('HSET hsh f v     ->', c.cmd('HSET', 'hsh', 'f', 'v'))
        print('SADD s1 a b      ->', c.cmd('SADD', 's1', 'a', 'b'))
        cases = [
            # (command, must be WRONGTYPE per Redis>=7 / Valkey sinterGenericCommand: every key is type-checked)
            ('SINTER', 'missing', 'str'),
            ('SINTER', 's1', 'missing', 'str'),
            ('SINTER', 's1', 'missing', 'lst'),
            ('SINTER', 'missing', 's1', 'hsh'),
            # controls: the same key combinations in the two sibling commands, and SINTER without a missing key
            ('SUNION', 'missing', 'str'),
            ('SDIFF', 'missing', 'str'),
            ('SDIFF', 's1', 'missing', 'str'),
            ('SINTER', 's1', 'str'),
            ('SINTER', 'str', 'missing'),
        ]
        for case in cases:
            r = c.cmd(*case)
            ok = isinstance(r, str) and r.startswith('ERROR:WRONGTYPE')
            print('%-28s -> %r   %s' % (' '.join(case), r, 'ok' if ok else 'VIOLATION (expected WRONGTYPE)'))
            if not ok:
                violated = True
        # the same through a script (same engine function)
        r = c.cmd('EVAL', "return redis.pcall('SINTER', KEYS[1], KEYS[2])", '2', 'missing', 'str')
        ok = isinstance(r, str) and 'WRONGTYPE' in r
        print('EVAL pcall SINTER missing str -> %r   %s' % (r, 'ok' if ok else 'VIOLATION (expected WRONGTYPE)'))
        if not ok:
            violated = True
    finally:
        p.kill(); p.wait()
        log.close()
        shutil.rmtree(d, ignore_errors=True)
    print('PROPERTY VIOLATED' if violated else 'property holds')
    sys.exit(1 if violated else 0)


if __name__ == '__main__':
    main()
