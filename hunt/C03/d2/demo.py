#!/usr/bin/env python3
"""An element pushed to a list is popped for a blocked client that has already gone, and is lost,
when that client left unread bytes in its socket before closing.

A: BLPOP k 0            (blocks)
A: sends any bytes (a pipelined PING) - the server does not read a blocked connection
A: closes its socket
B: RPUSH k x            -> 1
B: LRANGE k 0 -1        -> []      (Redis: ["x"]; nobody ever received x)

Control: the same without the extra bytes keeps x in the list (the hang-up probe sees EOF).
Exit code 1 = property violated, 0 = holds.
"""
import os, shutil, socket, subprocess, sys, tempfile, time

BIN = sys.argv[1] if len(sys.argv) > 1 else '/tmp/hunt-C03/target/debug/ferrous'


def free_port():
    s = socket.socket(); s.bind(('127.0.0.1', 0)); p = s.getsockname()[1]; s.close(); return p


def enc(*args):
    out = b'*%d\r\n' % len(args)
    for a in args:
        if isinstance(a, str):
            a = a.encode()
        out += b'$%d\r\n%s\r\n' % (len(a), a)
    return out


class Client:
    def __init__(self, port):
        self.s = socket.create_connection(('127.0.0.1', port), timeout=5)
        self.buf = b''

    def _line(self):
        while b'\r\n' not in self.buf:
            d = self.s.recv(65536)
            if not d:
                raise RuntimeError('connection closed')
            self.buf += d
        l, self.buf = self.buf.split(b'\r\n', 1)
        return l

    def read(self):
        l = self._line(); t, r = l[:1], l[1:]
        if t == b'+': return r.decode()
        if t == b'-': return 'ERROR:' + r.decode()
        if t == b':': return int(r)
        if t == b'$':
            n = int(r)
            if n < 0: return None
            while len(self.buf) < n + 2:
                self.buf += self.s.recv(65536)
            v = self.buf[:n]; self.buf = self.buf[n + 2:]; return v
        if t == b'*':
            n = int(r)
            return None if n < 0 else [self.read() for _ in range(n)]
        raise RuntimeError('bad reply %r' % l)

    def send(self, *a):
        self.s.sendall(enc(*a))

    def cmd(self, *a):
        self.send(*a); return self.read()


def scenario(port, key, cmd, leave_unread_bytes):
    """returns (reply of the push, list afterwards)"""
    b = Client(port)
    a = Client(port)
    a.send(cmd, key, '0')              # A blocks on the empty list
    time.sleep(0.25)
    if leave_unread_bytes:
        a.send('PING')                 # arrives while A is blocked: stays unread in A's socket
        time.sleep(0.1)
    a.s.close()                        # A is gone (FIN behind the unread bytes)
    time.sleep(0.4)                    # many loop iterations: the hang-up probe has had its chance
    pushed = b.cmd('RPUSH', key, 'x')
    time.sleep(0.2)
    after = b.cmd('LRANGE', key, '0', '-1')
    b.s.close()
    return pushed, after


def main():
    d = tempfile.mkdtemp(prefix='huntC03-d2-')
    port = free_port()
    log = open(os.path.join(d, 'server.log'), 'wb')
    p = subprocess.Popen([BIN, '--port', str(port), '--dir', d], stdout=log, stderr=log, cwd=d)
    violated = False
    try:
        for _ in range(200):
            try:
                socket.create_connection(('127.0.0.1', port), timeout=0.5).close(); break
            except OSError:
                time.sleep(0.05)
        pushed, after = scenario(port, 'ctl', 'BLPOP', False)
        print('control  (A closes, nothing unread):   RPUSH -> %r, LRANGE -> %r' % (pushed, after))
        if after != [b'x']:
            print('  unexpected: control lost the element too'); violated = True
        for i in range(3):
            for cmd in ('BLPOP', 'BRPOP'):
                key = 'k%d%s' % (i, cmd)
                pushed, after = scenario(port, key, cmd, True)
                ok = after == [b'x']
                print('run %d %s (A: %s, PING, close):       RPUSH -> %r, LRANGE -> %r   %s'
                      % (i, key, cmd, pushed, after, 'ok' if ok else 'VIOLATION: x was pushed, nobody received it, and it is not in the list'))
                if not ok:
                    violated = True
        # the same push made by a transaction
        b = Client(port); a = Client(port)
        a.send('BLPOP', 'kt', '0'); time.sleep(0.25); a.send('PING'); time.sleep(0.1); a.s.close(); time.sleep(0.4)
        print('MULTI/RPUSH kt x y/EXEC ->', b.cmd('MULTI'), b.cmd('RPUSH', 'kt', 'x', 'y'), b.cmd('EXEC'))
        time.sleep(0.2)
        after = b.cmd('LRANGE', 'kt', '0', '-1')
        ok = after == [b'x', b'y']
        print('LRANGE kt -> %r   %s' % (after, 'ok' if ok else 'VIOLATION (expected [x, y])'))
        if not ok:
            violated = True
    finally:
        p.kill(); p.wait()
        log.close()
        shutil.rmtree(d, ignore_errors=True)
    print('PROPERTY VIOLATED' if violated else 'property holds')
    sys.exit(1 if violated else 0)


if __name__ == '__main__':
    main()
