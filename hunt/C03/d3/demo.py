#!/usr/bin/env python3
"""LPOP / RPOP refuse their optional count argument (Redis >= 6.2, Valkey): 'LPOP key count' answers
"ERR wrong number of arguments" and pops nothing, where the reference pops up to count elements and
answers an array (nil for a missing key, an empty array for count 0, an error for a negative count).
Exit code 1 = property violated, 0 = holds.
"""
import os, shutil, socket, subprocess, sys, tempfile, time

BIN = sys.argv[1] if len(sys.argv) > 1 else '/tmp/hunt-C03/target/debug/ferrous'


def free_port():
    s = socket.socket(); s.bind(('127.0.0.1', 0)); p = s.getsockname()[1]; s.close(); return p


def enc(*args):
    out = b'*%d\r\n' % len(args)
    for a in args:
        if isinstance(a, str):
            a = a.encode()
        out += b'$%d\r\n%s\r\n' % (len(a), a)
    return out


class Client:
    def __init__(self, port):
        self.s = socket.create_connection(('127.0.0.1', port), timeout=5)
        self.buf = b''

    def _line(self):
        while b'\r\n' not in self.buf:
            d = self.s.recv(65536)
            if not d:
                raise RuntimeError('connection closed')
            self.buf += d
        l, self.buf = self.buf.split(b'\r\n', 1)
        return l

    def read(self):
        l = self._line(); t, r = l[:1], l[1:]
        if t == b'+': return r.decode()
        if t == b'-': return 'ERROR:' + r.decode()
        if t == b':': return int(r)
        if t == b'$':
            n = int(r)
            if n < 0: return None
            while len(self.buf) < n + 2:
                self.buf += self.s.recv(65536)
            v = self.buf[:n]; self.buf = self.buf[n + 2:]; return v
        if t == b'*':
            n = int(r)
            return None if n < 0 else [self.read() for _ in range(n)]
        raise RuntimeError('bad reply %r' % l)

    def cmd(self, *a):
        self.s.sendall(enc(*a)); return self.read()


def main():
    d = tempfile.mkdtemp(prefix='huntC03-d3-')
    port = free_port()
    log = open(os.path.join(d, 'server.log'), 'wb')
    p = subprocess.Popen([BIN, '--port', str(port), '--dir', d], stdout=log, stderr=log, cwd=d)
    violated = False

    def check(c, cmd, expected, what=''):
        nonlocal violated
        r = c.cmd(*cmd)
        if callable(expected):
            ok = expected(r)
        else:
            ok = r == expected
        print('%-34s -> %-70r %s' % (' '.join(cmd), r, 'ok' if ok else 'VIOLATION (expected %s)' % (what or repr(expected))))
        if not ok:
            violated = True

    try:
        for _ in range(200):
            try:
                socket.create_connection(('127.0.0.1', port), timeout=0.5).close(); break
            except OSError:
                time.sleep(0.05)
        c = Client(port)
        check(c, ('RPUSH', 'l', 'a', 'b', 'c', 'd', 'e'), 5)
        check(c, ('LPOP', 'l', '2'), [b'a', b'b'])
        check(c, ('RPOP', 'l', '2'), [b'e', b'd'])
        check(c, ('LRANGE', 'l', '0', '-1'), [b'c'])
        check(c, ('LPOP', 'l', '0'), [])
        check(c, ('LPOP', 'l', '-1'), lambda r: isinstance(r, str) and 'out of range' in r, 'ERR value is out of range, must be positive')
        check(c, ('RPOP', 'l', '10'), [b'c'])
        check(c, ('EXISTS', 'l'), 0)
        check(c, ('LPOP', 'l', '3'), None, 'nil (missing key)')
        check(c, ('RPUSH', 'l2', 'x', 'y', 'z'), 3)
        check(c, ('EVAL', "return redis.call('LPOP', KEYS[1], 2)", '1', 'l2'), [b'x', b'y'])
        check(c, ('LRANGE', 'l2', '0', '-1'), [b'z'])
        # control: the count-less forms work
        check(c, ('LPOP', 'l2'), b'z')
        check(c, ('RPOP', 'l2'), None)
    finally:
        p.kill(); p.wait()
        log.close()
        shutil.rmtree(d, ignore_errors=True)
    print('PROPERTY VIOLATED' if violated else 'property holds')
    sys.exit(1 if violated else 0)


if __name__ == '__main__':
    main()
