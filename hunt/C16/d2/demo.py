#!/usr/bin/env python3
import socket, subprocess, tempfile, time, sys, shutil

BIN = sys.argv[1] if len(sys.argv) > 1 else '/tmp/hunt-C16/target/debug/ferrous'

def free_port():
    s = socket.socket(); s.bind(('127.0.0.1', 0)); p = s.getsockname()[1]; s.close(); return p

class Server:
    def __init__(self):
        self.port = free_port()
        self.dir = tempfile.mkdtemp(prefix='hunt-C16-demo-')
        self.proc = subprocess.Popen([BIN, '--port', str(self.port), '--dir', self.dir],
                                     stdout=subprocess.DEVNULL, stderr=subprocess.DEVNULL, cwd=self.dir)
        for _ in range(200):
            try:
                socket.create_connection(('127.0.0.1', self.port), timeout=1).close(); return
            except OSError:
                time.sleep(0.05)
        self.stop(); raise SystemExit('server did not start')
    def stop(self):
        self.proc.kill(); self.proc.wait()
        shutil.rmtree(self.dir, ignore_errors=True)

class Conn:
    def __init__(self, port):
        self.s = socket.create_connection(('127.0.0.1', port), timeout=10); self.buf = b''
    def _line(self):
        while b'\r\n' not in self.buf:
            d = self.s.recv(65536)
            if not d: raise EOFError('connection closed')
            self.buf += d
        l, self.buf = self.buf.split(b'\r\n', 1); return l
    def _read(self):
        l = self._line(); t, r = l[:1], l[1:]
        if t == b'+': return r.decode()
        if t == b'-': return 'ERR:' + r.decode()
        if t == b':': return int(r)
        if t == b'$':
            n = int(r)
            if n < 0: return None
            while len(self.buf) < n + 2:
                d = self.s.recv(65536)
                if not d: raise EOFError('connection closed')
                self.buf += d
            v, self.buf = self.buf[:n], self.buf[n + 2:]
            return v.decode('utf-8', 'replace')
        if t == b'*':
            n = int(r)
            return None if n < 0 else [self._read() for _ in range(n)]
        raise ValueError(l)
    def cmd(self, *args):
        out = b'*%d\r\n' % len(args)
        for a in args:
            a = a if isinstance(a, bytes) else str(a).encode()
            out += b'$%d\r\n%s\r\n' % (len(a), a)
        self.s.sendall(out)
        r = self._read()
        print('  %-62s -> %r' % (' '.join(str(a) for a in args), r))
        return r

def main():
    srv = Server(); bad = []
    try:
        c = Conn(srv.port)
        for i in range(1, 6):
            c.cmd('XADD', 's', '%d-0' % i, 'f', i)
        c.cmd('XGROUP', 'CREATE', 's', 'g', '0')
        print('COUNT 0 means "no limit" (Redis: xreadCommand, count 0 = all entries), like COUNT absent')
        r = c.cmd('XREADGROUP', 'GROUP', 'g', 'c1', 'COUNT', 0, 'STREAMS', 's', '>')
        got = [e[0] for e in r[0][1]] if r else []
        want = ['%d-0' % i for i in range(1, 6)]
        p = c.cmd('XPENDING', 's', 'g')
        info = c.cmd('XINFO', 'GROUPS', 's')
        if got != want:
            bad.append('XREADGROUP ... COUNT 0 ... > delivered %r, want all of %r' % (got, want))
        if p[0] != 5:
            bad.append('after the COUNT 0 read %d entries are pending, want 5' % p[0])
        # the same through a history read: COUNT 0 must list the whole history of the consumer
        c.cmd('XREADGROUP', 'GROUP', 'g', 'c1', 'STREAMS', 's', '>')       # now everything is pending for c1
        r = c.cmd('XREADGROUP', 'GROUP', 'g', 'c1', 'COUNT', 0, 'STREAMS', 's', '0')
        got = [e[0] for e in r[0][1]] if r else []
        if got != want:
            bad.append('history read with COUNT 0 returned %r, want %r' % (got, want))
        # control: a negative count (also "no limit" in Redis) and no count do deliver
        c.cmd('XGROUP', 'SETID', 's', 'g', '0-0')
        r = c.cmd('XREADGROUP', 'GROUP', 'g', 'c2', 'COUNT', -1, 'STREAMS', 's', '>')
    finally:
        srv.stop()
    if bad:
        print('PROPERTY VIOLATED:')
        for b in bad: print('  -', b)
        sys.exit(1)
    print('property holds'); sys.exit(0)

main()
