#!/usr/bin/env python3
import socket, subprocess, tempfile, time, sys, shutil

BIN = sys.argv[1] if len(sys.argv) > 1 else '/tmp/hunt-C16/target/debug/ferrous'

def free_port():
    s = socket.socket(); s.bind(('127.0.0.1', 0)); p = s.getsockname()[1]; s.close(); return p

class Server:
    def __init__(self):
        self.port = free_port()
        self.dir = tempfile.mkdtemp(prefix='hunt-C16-demo-')
        self.proc = subprocess.Popen([BIN, '--port', str(self.port), '--dir', self.dir],
                                     stdout=subprocess.DEVNULL, stderr=subprocess.DEVNULL, cwd=self.dir)
        for _ in range(200):
            try:
                socket.create_connection(('127.0.0.1', self.port), timeout=1).close(); return
            except OSError:
                time.sleep(0.05)
        self.stop(); raise SystemExit('server did not start')
    def stop(self):
        self.proc.kill(); self.proc.wait()
        shutil.rmtree(self.dir, ignore_errors=True)

class Conn:
    def __init__(self, port):
        self.s = socket.create_connection(('127.0.0.1', port), timeout=10); self.buf = b''
    def _line(self):
        while b'\r\n' not in self.buf:
            d = self.s.recv(65536)
            if not d: raise EOFError('connection closed')
            self.buf += d
        l, self.buf = self.buf.split(b'\r\n', 1); return l
    def _read(self):
        l = self._line(); t, r = l[:1], l[1:]
        if t == b'+': return r.decode()
        if t == b'-': return 'ERR:' + r.decode()
        if t == b':': return int(r)
        if t == b'$':
            n = int(r)
            if n < 0: return None
            while len(self.buf) < n + 2:
                d = self.s.recv(65536)
                if not d: raise EOFError('connection closed')
                self.buf += d
            v, self.buf = self.buf[:n], self.buf[n + 2:]
            return v.decode('utf-8', 'replace')
        if t == b'*':
            n = int(r)
            return None if n < 0 else [self._read() for _ in range(n)]
        raise ValueError(l)
    def cmd(self, *args):
        out = b'*%d\r\n' % len(args)
        for a in args:
            a = a if isinstance(a, bytes) else str(a).encode()
            out += b'$%d\r\n%s\r\n' % (len(a), a)
        self.s.sendall(out)
        r = self._read()
        print('  %-62s -> %r' % (' '.join(str(a) for a in args), r))
        return r

def ids(rows): return [r[0] for r in rows] if isinstance(rows, list) else rows

def main():
    srv = Server(); bad = []
    try:
        c = Conn(srv.port)
        for i in ('1-0', '2-0', '2-1', '3-0', '4-0'):
            c.cmd('XADD', 's', i, 'f', 'v')
        c.cmd('XGROUP', 'CREATE', 's', 'g', '0')
        c.cmd('XREADGROUP', 'GROUP', 'g', 'c1', 'COUNT', 3, 'STREAMS', 's', '>')
        c.cmd('XREADGROUP', 'GROUP', 'g', 'c2', 'STREAMS', 's', '>')
        print('pending: 1-0 2-0 2-1 (c1), 3-0 4-0 (c2)')
        def check(start, end, want, why, *cons):
            r = c.cmd('XPENDING', 's', 'g', start, end, 10, *cons)
            if isinstance(r, str) and r.startswith('ERR:') and want == 'error':
                return
            if want == 'error' or ids(r) != want:
                bad.append('XPENDING s g %s %s 10 %s listed %r, want %s (%s)' % (start, end, ' '.join(cons), ids(r), want, why))
        check('2-0', '3-0', ['2-0', '2-1', '3-0'], 'control: complete IDs work')
        check('2', '2', ['2-0', '2-1'], 'incomplete IDs: start 2 = 2-0, end 2 = 2-18446744073709551615')
        check('3', '+', ['3-0', '4-0'], 'incomplete start ID 3 = 3-0')
        check('-', '2', ['1-0', '2-0', '2-1'], 'incomplete end ID 2 = 2-max')
        check('(2-0', '+', ['2-1', '3-0', '4-0'], 'exclusive start (Redis >= 6.2)')
        check('-', '(3-0', ['1-0', '2-0', '2-1'], 'exclusive end')
        check('+', '+', [], 'start + is the greatest ID: nothing is pending there')
        check('3', '+', [], 'consumer filter with an incomplete start ID', 'c1')
        check('junk', '+', 'error', 'an invalid ID is an error, not the whole list')
        check('-', '7-', 'error', 'an invalid ID is an error, not the whole list')
    finally:
        srv.stop()
    if bad:
        print('PROPERTY VIOLATED:')
        for b in bad: print('  -', b)
        sys.exit(1)
    print('property holds'); sys.exit(0)

main()
