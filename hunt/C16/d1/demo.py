#!/usr/bin/env python3
import socket, subprocess, tempfile, time, sys, shutil

BIN = sys.argv[1] if len(sys.argv) > 1 else '/tmp/hunt-C16/target/debug/ferrous'

def free_port():
    s = socket.socket(); s.bind(('127.0.0.1', 0)); p = s.getsockname()[1]; s.close(); return p

class Server:
    def __init__(self):
        self.port = free_port()
        self.dir = tempfile.mkdtemp(prefix='hunt-C16-demo-')
        self.proc = subprocess.Popen([BIN, '--port', str(self.port), '--dir', self.dir],
                                     stdout=subprocess.DEVNULL, stderr=subprocess.DEVNULL, cwd=self.dir)
        for _ in range(200):
            try:
                socket.create_connection(('127.0.0.1', self.port), timeout=1).close(); return
            except OSError:
                time.sleep(0.05)
        self.stop(); raise SystemExit('server did not start')
    def stop(self):
        self.proc.kill(); self.proc.wait()
        shutil.rmtree(self.dir, ignore_errors=True)

class Conn:
    def __init__(self, port):
        self.s = socket.create_connection(('127.0.0.1', port), timeout=10); self.buf = b''
    def _line(self):
        while b'\r\n' not in self.buf:
            d = self.s.recv(65536)
            if not d: raise EOFError('connection closed')
            self.buf += d
        l, self.buf = self.buf.split(b'\r\n', 1); return l
    def _read(self):
        l = self._line(); t, r = l[:1], l[1:]
        if t == b'+': return r.decode()
        if t == b'-': return 'ERR:' + r.decode()
        if t == b':': return int(r)
        if t == b'$':
            n = int(r)
            if n < 0: return None
            while len(self.buf) < n + 2:
                d = self.s.recv(65536)
                if not d: raise EOFError('connection closed')
                self.buf += d
            v, self.buf = self.buf[:n], self.buf[n + 2:]
            return v.decode('utf-8', 'replace')
        if t == b'*':
            n = int(r)
            return None if n < 0 else [self._read() for _ in range(n)]
        raise ValueError(l)
    def cmd(self, *args):
        out = b'*%d\r\n' % len(args)
        for a in args:
            a = a if isinstance(a, bytes) else str(a).encode()
            out += b'$%d\r\n%s\r\n' % (len(a), a)
        self.s.sendall(out)
        r = self._read()
        print('  %-62s -> %r' % (' '.join(str(a) for a in args), r))
        return r

def main():
    srv = Server(); bad = []
    try:
        c = Conn(srv.port)
        for i in (1, 2, 3):
            c.cmd('XADD', 's', '%d-0' % i, 'f', i)
        c.cmd('XGROUP', 'CREATE', 's', 'g', '0')
        c.cmd('XREADGROUP', 'GROUP', 'g', 'c1', 'COUNT', 1, 'STREAMS', 's', '>')   # 1-0 -> c1, idle ~0 ms

        print('A. FORCE must not switch off the min-idle-time threshold')
        r = c.cmd('XCLAIM', 's', 'g', 'c2', 3600000, '1-0')             # idle 0 ms < 1 h: not claimed
        if r != []: bad.append('plain XCLAIM with a 1 h threshold claimed a fresh entry: %r' % (r,))
        r = c.cmd('XCLAIM', 's', 'g', 'c2', 3600000, '1-0', 'FORCE')    # Redis: still not claimed ([])
        rows = c.cmd('XPENDING', 's', 'g', '-', '+', 10)
        owner = rows[0][1] if rows else None
        if r != [] or owner != 'c1':
            bad.append('XCLAIM ... 3600000 1-0 FORCE took an entry idle for ~0 ms from c1 (reply %r, owner now %r; '
                       'want reply [] and owner c1)' % (r, owner))

        print('B. FORCE must create the pending entry for an existing, non-pending ID')
        before = c.cmd('XPENDING', 's', 'g')
        r = c.cmd('XCLAIM', 's', 'g', 'c3', 0, '3-0', 'FORCE')          # 3-0 exists in the stream, never delivered
        after = c.cmd('XPENDING', 's', 'g')
        rows = c.cmd('XPENDING', 's', 'g', '3-0', '3-0', 10)
        if r != [['3-0', ['f', '3']]] or not rows or rows[0][1] != 'c3' or after[0] != before[0] + 1:
            bad.append('XCLAIM ... 0 3-0 FORCE did not put 3-0 into c3\'s pending list (reply %r, XPENDING %r; '
                       'want reply [[3-0, [f, 3]]] and total %d)' % (r, after, before[0] + 1))
        r = c.cmd('XCLAIM', 's', 'g', 'c3', 0, '9-9', 'FORCE')          # not in the stream: ignored even with FORCE
        if r != []: bad.append('FORCE claimed an ID that is not in the stream: %r' % (r,))
    finally:
        srv.stop()
    if bad:
        print('PROPERTY VIOLATED:')
        for b in bad: print('  -', b)
        sys.exit(1)
    print('property holds'); sys.exit(0)

main()
