#!/usr/bin/env python3
import socket, subprocess, tempfile, time, sys, shutil

BIN = sys.argv[1] if len(sys.argv) > 1 else '/tmp/hunt-C16/target/debug/ferrous'

def free_port():
    s = socket.socket(); s.bind(('127.0.0.1', 0)); p = s.getsockname()[1]; s.close(); return p

class Server:
    def __init__(self):
        self.port = free_port()
        self.dir = tempfile.mkdtemp(prefix='hunt-C16-demo-')
        self.proc = subprocess.Popen([BIN, '--port', str(self.port), '--dir', self.dir],
                                     stdout=subprocess.DEVNULL, stderr=subprocess.DEVNULL, cwd=self.dir)
        for _ in range(200):
            try:
                socket.create_connection(('127.0.0.1', self.port), timeout=1).close(); return
            except OSError:
                time.sleep(0.05)
        self.stop(); raise SystemExit('server did not start')
    def stop(self):
        self.proc.kill(); self.proc.wait()
        shutil.rmtree(self.dir, ignore_errors=True)

class Conn:
    def __init__(self, port):
        self.s = socket.create_connection(('127.0.0.1', port), timeout=10); self.buf = b''
    def _line(self):
        while b'\r\n' not in self.buf:
            d = self.s.recv(65536)
            if not d: raise EOFError('connection closed')
            self.buf += d
        l, self.buf = self.buf.split(b'\r\n', 1); return l
    def _read(self):
        l = self._line(); t, r = l[:1], l[1:]
        if t == b'+': return r.decode()
        if t == b'-': return 'ERR:' + r.decode()
        if t == b':': return int(r)
        if t == b'$':
            n = int(r)
            if n < 0: return None
            while len(self.buf) < n + 2:
                d = self.s.recv(65536)
                if not d: raise EOFError('connection closed')
                self.buf += d
            v, self.buf = self.buf[:n], self.buf[n + 2:]
            return v.decode('utf-8', 'replace')
        if t == b'*':
            n = int(r)
            return None if n < 0 else [self._read() for _ in range(n)]
        raise ValueError(l)
    def cmd(self, *args):
        out = b'*%d\r\n' % len(args)
        for a in args:
            a = a if isinstance(a, bytes) else str(a).encode()
            out += b'$%d\r\n%s\r\n' % (len(a), a)
        self.s.sendall(out)
        r = self._read()
        print('  %-62s -> %r' % (' '.join(str(a) for a in args), r))
        return r

def main():
    srv = Server(); bad = []
    try:
        c = Conn(srv.port)
        print('A refused XGROUP CREATE ... MKSTREAM must not leave anything behind')
        for key, badid in (('k1', 'notanid'), ('k2', '5-'), ('k3', '18446744073709551616-0'), ('k4', '')):
            r = c.cmd('XGROUP', 'CREATE', key, 'g', badid, 'MKSTREAM')
            if not str(r).startswith('ERR:'):
                bad.append('%s: invalid id %r accepted: %r' % (key, badid, r)); continue
            e = c.cmd('EXISTS', key); t = c.cmd('TYPE', key)
            if e != 0:
                bad.append('XGROUP CREATE %s g %r MKSTREAM answered %r but created the key (EXISTS %d, TYPE %s)'
                           % (key, badid, r, e, t))
        n = c.cmd('DBSIZE')
        if n != 0: bad.append('DBSIZE is %d after four refused commands on an empty server, want 0' % n)
        print('consequences: a later XGROUP CREATE without MKSTREAM succeeds, a WATCHer of the key is aborted')
        r = c.cmd('XGROUP', 'CREATE', 'k1', 'g', '$')
        if r == 'OK': bad.append('XGROUP CREATE k1 g $ (no MKSTREAM) succeeded on a key that was never created successfully')
        w = Conn(srv.port)
        w.cmd('WATCH', 'w1')
        c.cmd('XGROUP', 'CREATE', 'w1', 'g', 'junk', 'MKSTREAM')
        w.cmd('MULTI'); w.cmd('PING'); r = w.cmd('EXEC')
        if r is None: bad.append('a refused XGROUP CREATE ... MKSTREAM aborted the EXEC of a client watching the key')
    finally:
        srv.stop()
    if bad:
        print('PROPERTY VIOLATED:')
        for b in bad: print('  -', b)
        sys.exit(1)
    print('property holds'); sys.exit(0)

main()
