#!/usr/bin/env python3
"""C18 / d2: the `databases N` directive of the configuration file is accepted and ignored.

With `databases 4` the server has (by its own configuration) the databases 0..3; SELECT 4 .. SELECT 15
name databases that do not exist and must be refused ("ERR DB index is out of range", selection kept),
as Redis does.  ferrous always builds 16 databases, so they are selected and written.
(With `databases 32`, conversely, SELECT 16..31 is refused.)

exit 1 = property violated, 0 = holds.
"""
import os, shutil, socket, subprocess, sys, tempfile, time

BIN = sys.argv[1] if len(sys.argv) > 1 else "/tmp/hunt-C18/target/debug/ferrous"

def free_port():
    s = socket.socket(); s.bind(("127.0.0.1", 0)); p = s.getsockname()[1]; s.close(); return p

class Cli:
    def __init__(self, port):
        self.s = socket.create_connection(("127.0.0.1", port), timeout=5); self.buf = b""
    def _line(self):
        while b"\r\n" not in self.buf:
            d = self.s.recv(65536)
            if not d: raise EOFError
            self.buf += d
        l, self.buf = self.buf.split(b"\r\n", 1); return l
    def read(self):
        l = self._line(); t, r = l[:1], l[1:]
        if t == b"+": return r.decode()
        if t == b"-": return "ERR:" + r.decode()
        if t == b":": return int(r)
        if t == b"$":
            n = int(r)
            if n < 0: return None
            while len(self.buf) < n + 2: self.buf += self.s.recv(65536)
            v, self.buf = self.buf[:n], self.buf[n + 2:]; return v
        if t == b"*":
            n = int(r)
            return None if n < 0 else [self.read() for _ in range(n)]
        raise ValueError(l)
    def cmd(self, *args):
        out = b"*%d\r\n" % len(args)
        for a in args:
            a = a if isinstance(a, bytes) else str(a).encode()
            out += b"$%d\r\n%s\r\n" % (len(a), a)
        self.s.sendall(out); return self.read()

def run(databases):
    tmp = tempfile.mkdtemp(prefix="hunt-C18-d2-"); port = free_port()
    conf = os.path.join(tmp, "ferrous.conf")
    with open(conf, "w") as f: f.write("port %d\ndir %s\ndatabases %d\n" % (port, tmp, databases))
    log = open(os.path.join(tmp, "server.log"), "wb")
    srv = subprocess.Popen([BIN, conf], stdout=log, stderr=log, cwd=tmp)
    bad = False
    try:
        for _ in range(200):
            try: socket.create_connection(("127.0.0.1", port), timeout=0.2).close(); break
            except OSError: time.sleep(0.05)
        c = Cli(port)
        print("config file: databases %d" % databases)
        print("  CONFIG GET databases ->", c.cmd("CONFIG", "GET", "databases"))
        for idx in sorted({0, databases - 1, databases, 15, 16, 31}):
            c.cmd("SELECT", 0)
            r = c.cmd("SELECT", idx)
            exists = idx < databases
            ok = (r == "OK") == exists
            if r == "OK":
                c.cmd("SET", "probe", "written-in-%d" % idx)
            print("  SELECT %-2d -> %-40s expected %s  %s" % (idx, r, "OK" if exists else "an error", "" if ok else "<-- WRONG"))
            bad |= not ok
        print("  INFO keyspace ->", c.cmd("INFO", "keyspace").decode().split("\n")[1:-1])
    finally:
        srv.kill(); srv.wait(); log.close(); shutil.rmtree(tmp, ignore_errors=True)
    return bad

bad = run(4)
bad |= run(32)
if bad:
    print("VIOLATED: SELECT of an index that does not exist under the configured number of databases is accepted (or an existing one refused)")
    sys.exit(1)
print("holds")
sys.exit(0)
