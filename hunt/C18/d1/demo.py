#!/usr/bin/env python3
"""C18 / d1: the command stream a master feeds to its replicas carries no database.

A client attached with SYNC (what a replica does) receives the dump and then every write command
verbatim - never a SELECT.  A write made in database 3 and a write made in database 0 on the same
key name are indistinguishable in the stream, so whoever replays it (a Redis replica, ferrous' own
replica code) applies both to database 0.

exit 1 = property violated, 0 = holds.
"""
import os, shutil, socket, subprocess, sys, tempfile, time

BIN = sys.argv[1] if len(sys.argv) > 1 else "/tmp/hunt-C18/target/debug/ferrous"

def free_port():
    s = socket.socket(); s.bind(("127.0.0.1", 0)); p = s.getsockname()[1]; s.close(); return p

class Cli:
    def __init__(self, port, timeout=5):
        self.s = socket.create_connection(("127.0.0.1", port), timeout=timeout); self.buf = b""
    def send(self, *args):
        out = b"*%d\r\n" % len(args)
        for a in args:
            a = a if isinstance(a, bytes) else str(a).encode()
            out += b"$%d\r\n%s\r\n" % (len(a), a)
        self.s.sendall(out)
    def _line(self):
        while b"\r\n" not in self.buf:
            d = self.s.recv(65536)
            if not d: raise EOFError
            self.buf += d
        l, self.buf = self.buf.split(b"\r\n", 1); return l
    def read(self):
        l = self._line(); t, r = l[:1], l[1:]
        if t == b"+": return r.decode()
        if t == b"-": return "ERR:" + r.decode()
        if t == b":": return int(r)
        if t == b"$":
            n = int(r)
            if n < 0: return None
            while len(self.buf) < n + 2: self.buf += self.s.recv(65536)
            v, self.buf = self.buf[:n], self.buf[n + 2:]; return v
        if t == b"*":
            n = int(r)
            return None if n < 0 else [self.read() for _ in range(n)]
        raise ValueError(l)
    def cmd(self, *a): self.send(*a); return self.read()
    def drain(self, quiet=0.6):
        self.s.settimeout(quiet); data = b""
        try:
            while True:
                d = self.s.recv(65536)
                if not d: break
                data += d
        except socket.timeout:
            pass
        return data

def parse_commands(data):
    """RESP arrays of bulk strings found in `data` (the propagated commands)."""
    out = []; i = 0
    while i < len(data):
        if data[i:i + 1] != b"*": raise ValueError("not a command at %d: %r" % (i, data[i:i + 30]))
        j = data.index(b"\r\n", i); n = int(data[i + 1:j]); i = j + 2; parts = []
        for _ in range(n):
            j = data.index(b"\r\n", i); l = int(data[i + 1:j]); i = j + 2
            parts.append(data[i:i + l]); i += l + 2
        out.append(parts)
    return out

tmp = tempfile.mkdtemp(prefix="hunt-C18-d1-"); port = free_port()
log = open(os.path.join(tmp, "server.log"), "wb")
srv = subprocess.Popen([BIN, "--port", str(port), "--dir", tmp], stdout=log, stderr=log, cwd=tmp)
rc = 0
try:
    for _ in range(200):
        try: socket.create_connection(("127.0.0.1", port), timeout=0.2).close(); break
        except OSError: time.sleep(0.05)
    replica = Cli(port); replica.send("SYNC")
    replica.drain()                       # the (empty) dump and the FULLRESYNC line: the stream starts after them
    a = Cli(port); b = Cli(port)
    print("a: SELECT 3 ->", a.cmd("SELECT", 3))
    print("a (db 3): SET k in-db3 ->", a.cmd("SET", "k", "in-db3"))
    print("b (db 0): SET k in-db0 ->", b.cmd("SET", "k", "in-db0"))
    print("a (db 3): RPUSH l x ->", a.cmd("RPUSH", "l", "x"))
    print("a (db 3): MULTI/SELECT 9/SET k in-db9/EXEC ->", a.cmd("MULTI"), a.cmd("SELECT", 9), a.cmd("SET", "k", "in-db9"), a.cmd("EXEC"))
    stream = parse_commands(replica.drain())
    print("stream received by the replica connection:")
    for c in stream: print("   ", c)
    # what a replica that replays this stream holds (it starts in database 0, SELECT switches)
    cur = 0; rep = {}
    for c in stream:
        n = c[0].upper()
        if n == b"SELECT": cur = int(c[1])
        elif n == b"SET": rep.setdefault(cur, {})[c[1]] = c[2]
        elif n == b"RPUSH": rep.setdefault(cur, {}).setdefault(c[1], []).extend(c[2:])
    # what the master holds
    m = Cli(port); mas = {}
    for db in range(16):
        m.cmd("SELECT", db)
        for k in sorted(m.cmd("KEYS", "*")):
            t = m.cmd("TYPE", k)
            mas.setdefault(db, {})[k] = m.cmd("GET", k) if t == "string" else m.cmd("LRANGE", k, 0, -1)
    print("master :", mas)
    print("replica:", rep)
    if rep != mas:
        print("VIOLATED: the writes made in databases 3 and 9 reach the replica's database 0 (no SELECT in the stream)")
        rc = 1
    else:
        print("holds: the stream places every write in its database")
finally:
    srv.kill(); srv.wait(); log.close(); shutil.rmtree(tmp, ignore_errors=True)
sys.exit(rc)
