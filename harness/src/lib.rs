//! Shared parts of the in-process implementation drivers: every `impl_<family>` binary
//! speaks the same line protocol as the Lean `drv_<family>` executable, but answers from
//! the real ferrous code (path dependency on /repo, feature `verif`).

use std::alloc::{GlobalAlloc, Layout, System};
use std::io::{BufRead, Write};
use std::sync::atomic::{AtomicUsize, Ordering};

pub mod util;

/// Allocator wrapper: records the largest single request since the last reset and
/// refuses (after saying so on stderr) requests above `LIMIT`, so that a length
/// field turned into an allocation is observed instead of being left to the OS.
/// Install in a binary with `#[global_allocator] static A: Tracking = Tracking;`.
pub struct Tracking;
pub static MAX_REQ: AtomicUsize = AtomicUsize::new(0);
pub const LIMIT: usize = 1 << 30;

unsafe impl GlobalAlloc for Tracking {
    unsafe fn alloc(&self, l: Layout) -> *mut u8 {
        note(l.size());
        if l.size() > LIMIT { refuse(l.size()); return std::ptr::null_mut(); }
        System.alloc(l)
    }
    unsafe fn dealloc(&self, p: *mut u8, l: Layout) { System.dealloc(p, l) }
    unsafe fn alloc_zeroed(&self, l: Layout) -> *mut u8 {
        note(l.size());
        if l.size() > LIMIT { refuse(l.size()); return std::ptr::null_mut(); }
        System.alloc_zeroed(l)
    }
    unsafe fn realloc(&self, p: *mut u8, l: Layout, n: usize) -> *mut u8 {
        note(n);
        if n > LIMIT { refuse(n); return std::ptr::null_mut(); }
        System.realloc(p, l, n)
    }
}
fn note(n: usize) { MAX_REQ.fetch_max(n, Ordering::Relaxed); }
fn refuse(n: usize) {
    // no allocation here: format into a stack buffer
    let mut buf = [0u8; 64];
    let mut i = buf.len();
    let mut v = n;
    if v == 0 { i -= 1; buf[i] = b'0'; }
    while v > 0 { i -= 1; buf[i] = b'0' + (v % 10) as u8; v /= 10; }
    let pre = b"ALLOC-REFUSED ";
    unsafe {
        libc_write(2, pre.as_ptr(), pre.len());
        libc_write(2, buf[i..].as_ptr(), buf.len() - i);
        libc_write(2, b"\n".as_ptr(), 1);
    }
}
extern "C" { #[link_name = "write"] fn libc_write(fd: i32, p: *const u8, n: usize) -> isize; }

pub fn reset_alloc() { MAX_REQ.store(0, Ordering::Relaxed); }
pub fn max_alloc() -> usize { MAX_REQ.load(Ordering::Relaxed) }

/// One request per line on stdin, one answer per line on stdout (flushed).
/// Panics are silenced (callers use `catch_unwind` and report `panic`).
pub fn line_loop<S>(mut state: S, mut step: impl FnMut(&mut S, &[&str]) -> String) {
    std::panic::set_hook(Box::new(|_| {}));
    let stdin = std::io::stdin();
    let stdout = std::io::stdout();
    let mut out = stdout.lock();
    for line in stdin.lock().lines() {
        let line = match line { Ok(l) => l, Err(_) => break };
        let ws: Vec<&str> = line.split_whitespace().collect();
        let ans = step(&mut state, &ws);
        let _ = writeln!(out, "{}", ans);
        let _ = out.flush();
    }
}
