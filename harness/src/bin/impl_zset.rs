//! Family `zset` (C04): the real `SkipList<Vec<u8>, f64>` and the real `StorageEngine` sorted-set
//! functions, in-process.  Scores travel as IEEE bit patterns (16 hex digits) so that -0.0, NaN
//! payloads and adjacent floats are exact; the check maps them to the model's order key.
//!
//!   parse <text>                    the handlers' score parser -> bits | bad
//!   fmt <bits>                      the handlers' score formatter (f64 Display) -> text
//!   sl new                          fresh skip list
//!   sl ins <member> <bits>          insert -> old=<bits|none> <dump>
//!   sl rem <member>                 remove -> old=<bits|none> <dump>
//!   sl rank <member>                get_rank -> n | none
//!   sl score <member>               get_score -> bits | none
//!   sl byrank <a> <b>               range_by_rank -> items
//!   sl byscore <min> <max>          range_by_score -> items
//!   sl len                          len
//!   sl dump
//!   zs zaddmany|zremmany|popn <key> …  StorageEngine::{zadd_many, zrem_many, zpop}: one storage call per command
//!   zs <op> <key> ...               StorageEngine::{zadd,zrem,zscore,zrank,zrange,zrangebyscore,zcount,
//!                                   zincrby,zcard,exists} on database 0; `zs pop <key> min|max` is the
//!                                   composition used by handle_zpopmin/handle_zpopmax (zrange 0 0 / -1 -1, then zrem);
//!                                   `zs dump <key>` dumps the engine's own skip list through `get`.
//! dump = `L=<lvl0>;<lvl1>;… I=<index> N=<length>`, a level = `member:bits,…` or `.`
use ferrous::storage::engine::{GetResult, StorageEngine};
use ferrous::storage::skiplist::SkipList;
use ferrous::storage::value::Value;
use std::panic::{catch_unwind, AssertUnwindSafe};
use std::sync::Arc;
use verif_harness::line_loop;
use verif_harness::util::*;

type SL = SkipList<Vec<u8>, f64>;

struct St {
    sl: SL,
    eng: Arc<StorageEngine>,
}

fn bits(s: &str) -> Option<f64> {
    if s.len() != 16 { return None; }
    u64::from_str_radix(s, 16).ok().map(f64::from_bits)
}
fn show_score(v: f64) -> String { format!("{:016x}", v.to_bits()) }
fn show_opt(v: Option<f64>) -> String { v.map(show_score).unwrap_or_else(|| "none".into()) }
fn show_items(items: &[(Vec<u8>, f64)]) -> String {
    if items.is_empty() { return ".".into(); }
    items.iter().map(|(k, v)| format!("{}:{}", to_hex(k), show_score(*v))).collect::<Vec<_>>().join(",")
}
fn dump(sl: &SL) -> String {
    let (levels, index, n) = sl.verif_dump_levels();
    let ls: Vec<String> = levels.iter().map(|l| show_items(l)).collect();
    format!("L={} I={} N={}", ls.join(";"), show_items(&index), n)
}

fn main() {
    let st = St { sl: SkipList::new(), eng: StorageEngine::new() };
    line_loop(st, |st, ws| {
        match catch_unwind(AssertUnwindSafe(|| step(st, ws))) {
            Ok(s) => s,
            Err(_) => "panic".into(),
        }
    });
}

fn res<T>(r: ferrous::error::Result<T>, f: impl FnOnce(T) -> String) -> String {
    match r { Ok(v) => f(v), Err(e) => format!("err {}", to_hex(format!("{:?}", e).as_bytes())) }
}

fn step(st: &mut St, ws: &[&str]) -> String {
    let bad = || "bad-op".to_string();
    match ws {
        // `String::from_utf8_lossy(bytes).parse::<f64>()` exactly as the handlers read a score argument
        ["parse", h] => match of_hex(h) {
            Some(b) => match String::from_utf8_lossy(&b).parse::<f64>() { Ok(v) => show_score(v), Err(_) => "bad".into() },
            None => bad(),
        },
        // `score.to_string()` exactly as the handlers render a score
        ["fmt", b] => match bits(b) { Some(v) => to_hex(v.to_string().as_bytes()), None => bad() },
        ["sl", "new"] => { st.sl = SkipList::new(); "ok".into() }
        ["sl", "ins", m, s] => match (of_hex(m), bits(s)) {
            (Some(m), Some(s)) => { let old = st.sl.insert(m, s); format!("old={} {}", show_opt(old), dump(&st.sl)) }
            _ => bad(),
        },
        ["sl", "rem", m] => match of_hex(m) {
            Some(m) => { let old = st.sl.remove(&m); format!("old={} {}", show_opt(old), dump(&st.sl)) }
            None => bad(),
        },
        ["sl", "rank", m] => match of_hex(m) {
            Some(m) => st.sl.get_rank(&m).map(|r| r.to_string()).unwrap_or_else(|| "none".into()),
            None => bad(),
        },
        ["sl", "score", m] => match of_hex(m) { Some(m) => show_opt(st.sl.get_score(&m)), None => bad() },
        ["sl", "byrank", a, b] => match (a.parse::<usize>(), b.parse::<usize>()) {
            (Ok(a), Ok(b)) => show_items(&st.sl.range_by_rank(a, b).items),
            _ => bad(),
        },
        ["sl", "byscore", a, b] => match (bits(a), bits(b)) {
            (Some(a), Some(b)) => show_items(&st.sl.range_by_score(a, b).items),
            _ => bad(),
        },
        ["sl", "len"] => st.sl.len().to_string(),
        ["sl", "dump"] => dump(&st.sl),
        ["zs", op, k, rest @ ..] => {
            let key = match of_hex(k) { Some(k) => k, None => return bad() };
            let e = &st.eng;
            match (*op, rest) {
                ("zadd", [m, s]) => match (of_hex(m), bits(s)) {
                    (Some(m), Some(s)) => res(e.zadd(0, key, m, s), |b| (b as u8).to_string()),
                    _ => bad(),
                },
                ("zrem", [m]) => match of_hex(m) { Some(m) => res(e.zrem(0, &key, &m), |b| (b as u8).to_string()), None => bad() },
                ("zscore", [m]) => match of_hex(m) { Some(m) => res(e.zscore(0, &key, &m), show_opt), None => bad() },
                ("zrank", [m, r]) => match (of_hex(m), *r) {
                    (Some(m), "0") | (Some(m), "1") =>
                        res(e.zrank(0, &key, &m, *r == "1"), |v| v.map(|n| n.to_string()).unwrap_or_else(|| "none".into())),
                    _ => bad(),
                },
                ("zrange", [a, b, r]) => match (a.parse::<isize>(), b.parse::<isize>(), *r) {
                    (Ok(a), Ok(b), "0") | (Ok(a), Ok(b), "1") => res(e.zrange(0, &key, a, b, *r == "1"), |v| show_items(&v)),
                    _ => bad(),
                },
                ("zrbs", [a, b, r]) => match (bits(a), bits(b), *r) {
                    (Some(a), Some(b), "0") | (Some(a), Some(b), "1") =>
                        res(e.zrangebyscore(0, &key, a, b, *r == "1"), |v| show_items(&v)),
                    _ => bad(),
                },
                ("zcount", [a, b]) => match (bits(a), bits(b)) {
                    (Some(a), Some(b)) => res(e.zcount(0, &key, a, b), |n| n.to_string()),
                    _ => bad(),
                },
                ("zincrby", [m, s]) => match (of_hex(m), bits(s)) {
                    (Some(m), Some(s)) => res(e.zincrby(0, key, m, s), show_score),
                    _ => bad(),
                },
                // the storage calls the handlers make since db4c992: one call per command
                ("zaddmany", [ps]) => {
                    let mut v: Vec<(f64, Vec<u8>)> = Vec::new();
                    for p in ps.split(',') {
                        let mut it = p.split(':');
                        match (it.next().and_then(of_hex), it.next().and_then(bits)) {
                            (Some(m), Some(sc)) => v.push((sc, m)),
                            _ => return bad(),
                        }
                    }
                    res(e.zadd_many(0, key, v), |n| n.to_string())
                }
                ("zremmany", [ms]) => match hex_list(ms) {
                    Some(ms) => res(e.zrem_many(0, &key, &ms), |n| n.to_string()),
                    None => bad(),
                },
                ("popn", [which, n]) => match (*which, n.parse::<usize>()) {
                    ("min", Ok(n)) => res(e.zpop(0, &key, n, true), |v| show_items(&v)),
                    ("max", Ok(n)) => res(e.zpop(0, &key, n, false), |v| show_items(&v)),
                    _ => bad(),
                },
                ("zcard", []) => res(e.zcard(0, &key), |n| n.to_string()),
                ("exists", []) => res(e.exists(0, &key), |b| (b as u8).to_string()),
                ("pop", [which]) => {
                    // handle_zpopmin / handle_zpopmax, one iteration of their loop
                    let (a, b) = match *which { "min" => (0, 0), "max" => (-1, -1), _ => return bad() };
                    match e.zrange(0, &key, a, b, false) {
                        Err(er) => format!("err {}", to_hex(format!("{:?}", er).as_bytes())),
                        Ok(v) => match v.into_iter().next() {
                            None => "none".into(),
                            Some((m, s)) => res(e.zrem(0, &key, &m), |ok| {
                                if ok { format!("{}:{}", to_hex(&m), show_score(s)) } else { format!("lost {}:{}", to_hex(&m), show_score(s)) }
                            }),
                        },
                    }
                }
                ("dump", []) => match e.get(0, &key) {
                    Ok(GetResult::Found(Value::SortedSet(sl))) => dump(&sl),
                    Ok(GetResult::Found(_)) => "wrongtype".into(),
                    Ok(_) => "absent".into(),
                    Err(_) => "err".into(),
                },
                _ => bad(),
            }
        }
        _ => bad(),
    }
}
