//! Family `stream` (C15): the real `ferrous::storage::stream::Stream` (in-process, one object per
//! history) and the real `handle_x*` command handlers over a real `StorageEngine`.
//!
//! Same line protocol as `lean/FerrousSpec/Drv/Stream.lean`.  Field maps come out of a `HashMap`:
//! they are printed sorted by field name.  IDs are printed as `ms-seq`, byte strings as hex.
use ferrous::protocol::RespFrame;
use ferrous::storage::commands::streams::*;
use ferrous::storage::stream::{Stream, StreamEntry, StreamId};
use ferrous::storage::StorageEngine;
use std::collections::HashMap;
use std::panic::{catch_unwind, AssertUnwindSafe};
use std::sync::Arc;
use std::time::{SystemTime, UNIX_EPOCH};
use verif_harness::line_loop;
use verif_harness::util::*;

struct St {
    stream: Stream,
    engine: Arc<StorageEngine>,
}

fn main() {
    let st = St { stream: Stream::new(), engine: StorageEngine::new() };
    line_loop(st, |st, ws| match catch_unwind(AssertUnwindSafe(|| step(st, ws))) {
        Ok(s) => s,
        Err(_) => "panic".into(),
    });
}

/// `Stream::add_auto` returns `StreamId` on the pinned tree and `Option<StreamId>` once the
/// sequence-carry repair is in (refusal at the top of the ID space): accept both.
trait AutoId { fn into_opt(self) -> Option<StreamId>; }
impl AutoId for StreamId { fn into_opt(self) -> Option<StreamId> { Some(self) } }
impl AutoId for Option<StreamId> { fn into_opt(self) -> Option<StreamId> { self } }

fn now_ms() -> u128 {
    SystemTime::now().duration_since(UNIX_EPOCH).map(|d| d.as_millis()).unwrap_or(0)
}

fn parse_fields(s: &str) -> Option<HashMap<Vec<u8>, Vec<u8>>> {
    let mut m = HashMap::new();
    if s == "." { return Some(m); }
    for kv in s.split(',') {
        let (k, v) = kv.split_once('=')?;
        m.insert(of_hex(k)?, of_hex(v)?);
    }
    Some(m)
}

fn parse_ids(s: &str) -> Option<Vec<StreamId>> {
    if s == "." { return Some(vec![]); }
    s.split('|').map(|t| {
        let (a, b) = t.split_once('-')?;
        Some(StreamId::new(a.parse().ok()?, b.parse().ok()?))
    }).collect()
}

fn parse_count(s: &str) -> Option<Option<usize>> {
    if s == "none" { Some(None) } else { s.parse::<usize>().ok().map(Some) }
}

fn show_fields(f: &HashMap<Vec<u8>, Vec<u8>>) -> String {
    let mut kv: Vec<(&Vec<u8>, &Vec<u8>)> = f.iter().collect();
    kv.sort();
    kv.iter().map(|(k, v)| format!("{}={}", to_hex(k), to_hex(v))).collect::<Vec<_>>().join(",")
}

fn show_entry(e: &StreamEntry) -> String {
    format!("{}-{}:{}", e.id.millis(), e.id.seq(), show_fields(&e.fields))
}

fn show_entries(es: &[StreamEntry]) -> String {
    if es.is_empty() { return ".".into(); }
    es.iter().map(show_entry).collect::<Vec<_>>().join(";")
}

/// `Stream { len: L, last_id: M-S }` (Debug prints the atomics `length`, `last_id_millis`, `last_id_seq`)
fn atomics(s: &Stream) -> String {
    let d = format!("{:?}", s);
    let len = d.split("len: ").nth(1).and_then(|r| r.split(',').next()).unwrap_or("?").to_string();
    let last = d.split("last_id: ").nth(1).and_then(|r| r.split(' ').next()).unwrap_or("?").to_string();
    format!("len={} atom={}", len, last)
}

fn u(s: &str) -> Option<u64> { s.parse::<u64>().ok() }

fn step(st: &mut St, ws: &[&str]) -> String {
    let bad = || "bad-op".to_string();
    match ws {
        ["new"] => { st.stream = Stream::new(); "ok".into() }
        ["addid", ms, seq, f] => {
            let (Some(ms), Some(seq), Some(f)) = (u(ms), u(seq), parse_fields(f)) else { return bad() };
            match st.stream.add_with_id(StreamId::new(ms, seq), f) {
                Ok(()) => "ok".into(),
                Err(_) => "refused".into(),
            }
        }
        ["auto", f] => {
            let Some(f) = parse_fields(f) else { return bad() };
            let t0 = now_ms();
            let id = st.stream.add_auto(f).into_opt();
            let t1 = now_ms();
            match id {
                Some(id) => format!("id {} {} {} {}", id.millis(), id.seq(), t0, t1),
                None => format!("refused {} {}", t0, t1),
            }
        }
        ["range", sm, ss, em, es, c, rev] => {
            let (Some(sm), Some(ss), Some(em), Some(es), Some(c)) = (u(sm), u(ss), u(em), u(es), parse_count(c)) else { return bad() };
            let rev = match *rev { "0" => false, "1" => true, _ => return bad() };
            let r = st.stream.range(&StreamId::new(sm, ss), &StreamId::new(em, es), c, rev);
            show_entries(&r.entries)
        }
        ["after", m, s, c] => {
            let (Some(m), Some(s), Some(c)) = (u(m), u(s), parse_count(c)) else { return bad() };
            show_entries(&st.stream.range_after(&StreamId::new(m, s), c).entries)
        }
        ["del", ids] => {
            let Some(ids) = parse_ids(ids) else { return bad() };
            format!("{}", st.stream.delete(&ids))
        }
        ["trimc", n] => {
            let Ok(n) = n.parse::<usize>() else { return bad() };
            format!("{}", st.stream.trim_by_count(n))
        }
        ["trimmin", m, s] => {
            let (Some(m), Some(s)) = (u(m), u(s)) else { return bad() };
            format!("{}", st.stream.trim_by_min_id(&StreamId::new(m, s)))
        }
        ["len"] => format!("{}", st.stream.len()),
        ["first"] => st.stream.first_entry().map(|e| show_entry(&e)).unwrap_or_else(|| "none".into()),
        ["last"] => st.stream.last_entry().map(|e| show_entry(&e)).unwrap_or_else(|| "none".into()),
        ["dump"] => {
            // the atomics, then every entry (through range over the whole ID space and through range_after 0-0)
            let all = st.stream.range(&StreamId::min(), &StreamId::max(), None, false);
            let aft = st.stream.range_after(&StreamId::new(0, 0), None);
            let a = show_entries(&all.entries);
            let b = show_entries(&aft.entries);
            if a == b { format!("{} {}", atomics(&st.stream), a) } else { format!("{} {} AFTER-DIFFERS {}", atomics(&st.stream), a, b) }
        }
        ["parseid", h] => {
            let Some(b) = of_hex(h) else { return bad() };
            match StreamId::from_string(&String::from_utf8_lossy(&b)) {
                Some(id) => format!("some {} {}", id.millis(), id.seq()),
                None => "none".into(),
            }
        }
        ["cnew"] => "ok".into(),
        ["cmd", args @ ..] if !args.is_empty() => {
            let mut parts = Vec::new();
            for a in args {
                let Some(b) = of_hex(a) else { return bad() };
                parts.push(RespFrame::BulkString(Some(Arc::new(b))));
            }
            let name = match &parts[0] {
                RespFrame::BulkString(Some(b)) => String::from_utf8_lossy(b).to_uppercase(),
                _ => return bad(),
            };
            let e = &st.engine;
            let t0 = now_ms();
            let r = match name.as_str() {
                "XADD" => handle_xadd(e, 0, &parts),
                "XRANGE" => handle_xrange(e, 0, &parts),
                "XREVRANGE" => handle_xrevrange(e, 0, &parts),
                "XLEN" => handle_xlen(e, 0, &parts),
                "XREAD" => handle_xread(e, 0, &parts),
                "XTRIM" => handle_xtrim(e, 0, &parts),
                "XDEL" => handle_xdel(e, 0, &parts),
                _ => return bad(),
            };
            let t1 = now_ms();
            match r {
                // a handler's `Err(Command(..))` is turned into an error reply by the server (Server::error_reply) and into a
                // Lua error by the script engine: the client sees an error, as for an `Ok(error frame)`
                Err(ferrous::FerrousError::Command(_)) if name == "XADD" => format!("err {} {}", t0, t1),
                Err(ferrous::FerrousError::Command(_)) => "err".into(),
                Err(_) => "errprop".into(),
                Ok(f) => match canon_reply(&name, &f) {
                    Some(s) if name == "XADD" => format!("{} {} {}", s, t0, t1),
                    Some(s) => s,
                    None => format!("unexpected {}", show_frame(&f)),
                },
            }
        }
        _ => bad(),
    }
}

fn bulk(f: &RespFrame) -> Option<&[u8]> {
    match f { RespFrame::BulkString(Some(b)) => Some(b.as_slice()), _ => None }
}

/// `[[id, [f, v, …]], …]` → `ms-seq:k=v,…;…`
fn canon_entries(f: &RespFrame) -> Option<String> {
    let RespFrame::Array(Some(xs)) = f else { return None };
    let mut out = Vec::new();
    for x in xs {
        let RespFrame::Array(Some(p)) = x else { return None };
        if p.len() != 2 { return None; }
        let id = std::str::from_utf8(bulk(&p[0])?).ok()?.to_string();
        let RespFrame::Array(Some(fv)) = &p[1] else { return None };
        if fv.len() % 2 != 0 { return None; }
        let mut kv = Vec::new();
        for c in fv.chunks(2) { kv.push((bulk(&c[0])?.to_vec(), bulk(&c[1])?.to_vec())); }
        kv.sort();
        out.push(format!("{}:{}", id, kv.iter().map(|(k, v)| format!("{}={}", to_hex(k), to_hex(v))).collect::<Vec<_>>().join(",")));
    }
    Some(if out.is_empty() { ".".into() } else { out.join(";") })
}

fn canon_reply(name: &str, f: &RespFrame) -> Option<String> {
    match f {
        RespFrame::Error(_) => Some("err".into()),
        RespFrame::Integer(n) => Some(format!("int {}", n)),
        RespFrame::BulkString(Some(b)) => Some(format!("bulk {}", to_hex(b))),
        RespFrame::Array(Some(xs)) if name == "XREAD" => {
            let mut out = Vec::new();
            for x in xs {
                let RespFrame::Array(Some(p)) = x else { return None };
                if p.len() != 2 { return None; }
                out.push(format!("{}>{}", to_hex(bulk(&p[0])?), canon_entries(&p[1])?));
            }
            Some(format!("streams {}", if out.is_empty() { ".".into() } else { out.join("/") }))
        }
        RespFrame::Array(Some(_)) => Some(format!("ents {}", canon_entries(f)?)),
        _ => None,
    }
}
