//! Family `stream` (C15): the real `ferrous::storage::stream::Stream` (in-process, one object per
//! history) and the real `handle_x*` command handlers over a real `StorageEngine`.
//!
//! Same line protocol as `lean/FerrousSpec/Drv/Stream.lean`.  Field maps come out of a `HashMap`:
//! they are printed sorted by field name.  IDs are printed as `ms-seq`, byte strings as hex.
use ferrous::protocol::RespFrame;
use ferrous::storage::commands::streams::*;
use ferrous::storage::stream::{Stream, StreamEntry, StreamId};
use ferrous::storage::rdb::{RdbConfig, RdbEngine};
use ferrous::storage::StorageEngine;
use std::collections::HashMap;
use std::panic::{catch_unwind, AssertUnwindSafe};
use std::sync::Arc;
use std::time::{SystemTime, UNIX_EPOCH};
use verif_harness::util::*;

struct St {
    stream: Stream,
    engine: Arc<StorageEngine>,
    dir: String,
    n: usize,
}

extern "C" {
    fn dup(fd: i32) -> i32;
    fn dup2(a: i32, b: i32) -> i32;
}

/// `RdbEngine::{save,load}` print progress lines with `println!`: the protocol answers go to a duplicate of
/// the original stdout and fd 1 is pointed at stderr, so they cannot mix.
fn main() {
    use std::io::{BufRead, Write};
    use std::os::unix::io::FromRawFd;
    let mut out = unsafe {
        let fd = dup(1);
        dup2(2, 1);
        std::fs::File::from_raw_fd(fd)
    };
    std::panic::set_hook(Box::new(|_| {}));
    let cache = std::env::var("VERIF_CACHE").unwrap_or_else(|_| "/verif/.cache".into());
    let dir = format!("{}/run/stream-{}", cache, std::process::id());
    let _ = std::fs::create_dir_all(&dir);
    let mut st = St { stream: Stream::new(), engine: StorageEngine::new(), dir: dir.clone(), n: 0 };
    let stdin = std::io::stdin();
    for line in stdin.lock().lines() {
        let line = match line { Ok(l) => l, Err(_) => break };
        let ws: Vec<&str> = line.split_whitespace().collect();
        let ans = match catch_unwind(AssertUnwindSafe(|| step(&mut st, &ws))) {
            Ok(s) => s,
            Err(_) => "panic".into(),
        };
        let _ = writeln!(out, "{}", ans);
        let _ = out.flush();
    }
    let _ = std::fs::remove_dir_all(&dir);
}

/// At the level of the `Stream` object the pairs are handed over as a map on every tree (the pinned parameter type
/// is a `HashMap`; the repaired one takes any iterator of pairs, a map included) and are compared as sorted maps.
/// Order and repeated names are judged at command level, where `handle_xadd` builds the container itself.
fn pairs_arg(p: Vec<(Vec<u8>, Vec<u8>)>) -> HashMap<Vec<u8>, Vec<u8>> { p.into_iter().collect() }

/// `Stream::add_auto` returns `StreamId` on the pinned tree and `Option<StreamId>` once the
/// sequence-carry repair is in (refusal at the top of the ID space): accept both.
trait AutoId { fn into_opt(self) -> Option<StreamId>; }
impl AutoId for StreamId { fn into_opt(self) -> Option<StreamId> { Some(self) } }
impl AutoId for Option<StreamId> { fn into_opt(self) -> Option<StreamId> { self } }

fn now_ms() -> u128 {
    SystemTime::now().duration_since(UNIX_EPOCH).map(|d| d.as_millis()).unwrap_or(0)
}

fn parse_fields(s: &str) -> Option<Vec<(Vec<u8>, Vec<u8>)>> {
    let mut m = Vec::new();
    if s == "." { return Some(m); }
    for kv in s.split(',') {
        let (k, v) = kv.split_once('=')?;
        m.push((of_hex(k)?, of_hex(v)?));
    }
    Some(m)
}

fn parse_ids(s: &str) -> Option<Vec<StreamId>> {
    if s == "." { return Some(vec![]); }
    s.split('|').map(|t| {
        let (a, b) = t.split_once('-')?;
        Some(StreamId::new(a.parse().ok()?, b.parse().ok()?))
    }).collect()
}

fn parse_count(s: &str) -> Option<Option<usize>> {
    if s == "none" { Some(None) } else { s.parse::<usize>().ok().map(Some) }
}

/// `Stream`-object level: the pairs sorted by name (see `pairs_arg`)
fn show_pairs<'a, I, P>(it: I) -> String where I: IntoIterator<Item = P>, P: PairRef<'a> {
    let mut kv: Vec<(&Vec<u8>, &Vec<u8>)> = it.into_iter().map(|p| p.kv()).collect();
    kv.sort();
    kv.iter().map(|(k, v)| format!("{}={}", to_hex(k), to_hex(v))).collect::<Vec<_>>().join(",")
}
/// `&HashMap` yields `(&K, &V)`, a list of pairs yields `&(K, V)`
trait PairRef<'a> { fn kv(self) -> (&'a Vec<u8>, &'a Vec<u8>); }
impl<'a> PairRef<'a> for (&'a Vec<u8>, &'a Vec<u8>) { fn kv(self) -> (&'a Vec<u8>, &'a Vec<u8>) { self } }
impl<'a> PairRef<'a> for &'a (Vec<u8>, Vec<u8>) { fn kv(self) -> (&'a Vec<u8>, &'a Vec<u8>) { (&self.0, &self.1) } }

fn show_entry(e: &StreamEntry) -> String {
    format!("{}-{}:{}", e.id.millis(), e.id.seq(), show_pairs(&e.fields))
}

fn show_entries(es: &[StreamEntry]) -> String {
    if es.is_empty() { return ".".into(); }
    es.iter().map(show_entry).collect::<Vec<_>>().join(";")
}

/// `Stream { len: L, last_id: M-S }` (Debug prints the atomics `length`, `last_id_millis`, `last_id_seq`)
fn atomics(s: &Stream) -> String {
    let d = format!("{:?}", s);
    let len = d.split("len: ").nth(1).and_then(|r| r.split(',').next()).unwrap_or("?").to_string();
    let last = d.split("last_id: ").nth(1).and_then(|r| r.split(' ').next()).unwrap_or("?").to_string();
    format!("len={} atom={}", len, last)
}

fn u(s: &str) -> Option<u64> { s.parse::<u64>().ok() }

fn step(st: &mut St, ws: &[&str]) -> String {
    let bad = || "bad-op".to_string();
    match ws {
        ["new"] => { st.stream = Stream::new(); "ok".into() }
        ["addid", ms, seq, f] => {
            let (Some(ms), Some(seq), Some(f)) = (u(ms), u(seq), parse_fields(f)) else { return bad() };
            match st.stream.add_with_id(StreamId::new(ms, seq), pairs_arg(f)) {
                Ok(()) => "ok".into(),
                Err(_) => "refused".into(),
            }
        }
        ["auto", f] => {
            let Some(f) = parse_fields(f) else { return bad() };
            let t0 = now_ms();
            let id = st.stream.add_auto(pairs_arg(f)).into_opt();
            let t1 = now_ms();
            match id {
                Some(id) => format!("id {} {} {} {}", id.millis(), id.seq(), t0, t1),
                None => format!("refused {} {}", t0, t1),
            }
        }
        ["range", sm, ss, em, es, c, rev] => {
            let (Some(sm), Some(ss), Some(em), Some(es), Some(c)) = (u(sm), u(ss), u(em), u(es), parse_count(c)) else { return bad() };
            let rev = match *rev { "0" => false, "1" => true, _ => return bad() };
            let r = st.stream.range(&StreamId::new(sm, ss), &StreamId::new(em, es), c, rev);
            show_entries(&r.entries)
        }
        ["after", m, s, c] => {
            let (Some(m), Some(s), Some(c)) = (u(m), u(s), parse_count(c)) else { return bad() };
            show_entries(&st.stream.range_after(&StreamId::new(m, s), c).entries)
        }
        ["del", ids] => {
            let Some(ids) = parse_ids(ids) else { return bad() };
            format!("{}", st.stream.delete(&ids))
        }
        ["trimc", n] => {
            let Ok(n) = n.parse::<usize>() else { return bad() };
            format!("{}", st.stream.trim_by_count(n))
        }
        ["trimmin", m, s] => {
            let (Some(m), Some(s)) = (u(m), u(s)) else { return bad() };
            format!("{}", st.stream.trim_by_min_id(&StreamId::new(m, s)))
        }
        ["len"] => format!("{}", st.stream.len()),
        ["first"] => st.stream.first_entry().map(|e| show_entry(&e)).unwrap_or_else(|| "none".into()),
        ["last"] => st.stream.last_entry().map(|e| show_entry(&e)).unwrap_or_else(|| "none".into()),
        ["dump"] => {
            // the atomics, then every entry (through range over the whole ID space and through range_after 0-0)
            let all = st.stream.range(&StreamId::min(), &StreamId::max(), None, false);
            let aft = st.stream.range_after(&StreamId::new(0, 0), None);
            let a = show_entries(&all.entries);
            let b = show_entries(&aft.entries);
            if a == b { format!("{} {}", atomics(&st.stream), a) } else { format!("{} {} AFTER-DIFFERS {}", atomics(&st.stream), a, b) }
        }
        ["parseid", h] => {
            let Some(b) = of_hex(h) else { return bad() };
            match StreamId::from_string(&String::from_utf8_lossy(&b)) {
                Some(id) => format!("some {} {}", id.millis(), id.seq()),
                None => "none".into(),
            }
        }
        ["cnew"] => {
            // a history starts with an empty key space (keeps SAVE + restart small over long runs)
            match st.engine.flush_db(0) { Ok(()) => "ok".into(), Err(_) => "err flush".into() }
        }
        ["crestart"] => {
            // SAVE + restart: RdbEngine::save of the engine, then RdbEngine::load into a fresh engine
            st.n += 1;
            let name = format!("d{}.rdb", st.n);
            let cfg = RdbConfig { auto_save: false, filename: name.clone(), dir: st.dir.clone(), ..Default::default() };
            let r = RdbEngine::new(cfg);
            let path = format!("{}/{}", st.dir, name);
            let out = match r.save(&st.engine) {
                Err(_) => "err save".to_string(),
                Ok(()) => {
                    let eng = StorageEngine::new();
                    match r.load(&eng) {
                        Ok(_) => { st.engine = eng; "ok".to_string() }
                        Err(_) => "err load".to_string(),
                    }
                }
            };
            let _ = std::fs::remove_file(&path);
            let _ = std::fs::remove_file(path.replace(".rdb", ".tmp"));
            out
        }
        ["cmd", args @ ..] if !args.is_empty() => {
            let mut parts = Vec::new();
            for a in args {
                let Some(b) = of_hex(a) else { return bad() };
                parts.push(RespFrame::BulkString(Some(Arc::new(b))));
            }
            let name = match &parts[0] {
                RespFrame::BulkString(Some(b)) => String::from_utf8_lossy(b).to_uppercase(),
                _ => return bad(),
            };
            let e = &st.engine;
            let t0 = now_ms();
            let r = match name.as_str() {
                "XADD" => handle_xadd(e, 0, &parts),
                "XRANGE" => handle_xrange(e, 0, &parts),
                "XREVRANGE" => handle_xrevrange(e, 0, &parts),
                "XLEN" => handle_xlen(e, 0, &parts),
                "XREAD" => handle_xread(e, 0, &parts),
                "XTRIM" => handle_xtrim(e, 0, &parts),
                "XDEL" => handle_xdel(e, 0, &parts),
                _ => return bad(),
            };
            let t1 = now_ms();
            match r {
                // a handler's `Err(Command(..))` is turned into an error reply by the server (Server::error_reply) and into a
                // Lua error by the script engine: the client sees an error, as for an `Ok(error frame)`
                Err(ferrous::FerrousError::Command(_)) if name == "XADD" => format!("err {} {}", t0, t1),
                Err(ferrous::FerrousError::Command(_)) => "err".into(),
                Err(_) => "errprop".into(),
                Ok(f) => match canon_reply(&name, &f) {
                    Some(s) if name == "XADD" => format!("{} {} {}", s, t0, t1),
                    Some(s) => s,
                    None => format!("unexpected {}", show_frame(&f)),
                },
            }
        }
        _ => bad(),
    }
}

fn bulk(f: &RespFrame) -> Option<&[u8]> {
    match f { RespFrame::BulkString(Some(b)) => Some(b.as_slice()), _ => None }
}

/// `[[id, [f, v, …]], …]` → `ms-seq:k=v,…;…`
fn canon_entries(f: &RespFrame) -> Option<String> {
    let RespFrame::Array(Some(xs)) = f else { return None };
    let mut out = Vec::new();
    for x in xs {
        let RespFrame::Array(Some(p)) = x else { return None };
        if p.len() != 2 { return None; }
        let id = std::str::from_utf8(bulk(&p[0])?).ok()?.to_string();
        let RespFrame::Array(Some(fv)) = &p[1] else { return None };
        if fv.len() % 2 != 0 { return None; }
        let mut kv = Vec::new();
        for c in fv.chunks(2) { kv.push((bulk(&c[0])?.to_vec(), bulk(&c[1])?.to_vec())); }
        out.push(format!("{}:{}", id, kv.iter().map(|(k, v)| format!("{}={}", to_hex(k), to_hex(v))).collect::<Vec<_>>().join(",")));
    }
    Some(if out.is_empty() { ".".into() } else { out.join(";") })
}

fn canon_reply(name: &str, f: &RespFrame) -> Option<String> {
    match f {
        RespFrame::Error(_) => Some("err".into()),
        RespFrame::Integer(n) => Some(format!("int {}", n)),
        RespFrame::BulkString(Some(b)) => Some(format!("bulk {}", to_hex(b))),
        RespFrame::Array(Some(xs)) if name == "XREAD" => {
            let mut out = Vec::new();
            for x in xs {
                let RespFrame::Array(Some(p)) = x else { return None };
                if p.len() != 2 { return None; }
                out.push(format!("{}>{}", to_hex(bulk(&p[0])?), canon_entries(&p[1])?));
            }
            Some(format!("streams {}", if out.is_empty() { ".".into() } else { out.join("/") }))
        }
        RespFrame::Array(Some(_)) => Some(format!("ents {}", canon_entries(f)?)),
        _ => None,
    }
}
