//! Family `resp` (C20): the real serializer, `parse_resp_frame` and `RespParser`.
use verif_harness::util::*;
use verif_harness::{line_loop, max_alloc, reset_alloc, Tracking};
use ferrous::protocol::parser::parse_resp_frame;
use ferrous::protocol::serializer::serialize_to_vec;
use ferrous::protocol::{RespFrame, RespParser};
use std::panic::{catch_unwind, AssertUnwindSafe};

#[global_allocator]
static A: Tracking = Tracking;

fn main() {
    line_loop((), |_, ws| step(ws));
}

fn step(ws: &[&str]) -> String {
    match ws {
        ["sizeof"] => format!("{}", std::mem::size_of::<RespFrame>()),
        ["fmt", bits] => match u64::from_str_radix(bits, 16) {
            Ok(b) => to_hex(f64::from_bits(b).to_string().as_bytes()),
            Err(_) => "bad-op".into(),
        },
        ["ser", toks @ ..] => match read_frame(toks) {
            Some((f, r)) if r.is_empty() => match catch_unwind(|| serialize_to_vec(&f)) {
                Ok(Ok(v)) => to_hex(&v),
                Ok(Err(_)) => "unserializable".into(),
                Err(_) => "panic".into(),
            },
            _ => "bad-op".into(),
        },
        ["parse", h] => match of_hex(h) {
            None => "bad-op".into(),
            Some(d) => {
                reset_alloc();
                let r = catch_unwind(|| parse_resp_frame(&d));
                let m = max_alloc();
                match r {
                    Ok(Ok(Some((f, n)))) => format!("ok {} {} {}", show_frame(&f), n, m),
                    Ok(Ok(None)) => format!("need {}", m),
                    Ok(Err(_)) => format!("err {}", m),
                    Err(_) => format!("panic {}", m),
                }
            }
        },
        ["run", hs] => match hex_list(hs) {
            None => "bad-op".into(),
            Some(chunks) => {
                let r = catch_unwind(AssertUnwindSafe(|| {
                    let mut p = RespParser::new();
                    let mut evs: Vec<String> = Vec::new();
                    'outer: for c in &chunks {
                        p.feed(c);
                        loop {
                            match p.parse() {
                                Ok(Some(f)) => evs.push(format!("F {}", show_frame(&f))),
                                Ok(None) => break,
                                Err(_) => { evs.push("E".into()); break 'outer; }
                            }
                        }
                    }
                    evs
                }));
                match r {
                    Ok(evs) if evs.is_empty() => ".".into(),
                    Ok(evs) => evs.join(" ; "),
                    Err(_) => "panic".into(),
                }
            }
        },
        _ => "bad-op".into(),
    }
}
