//! Family `grp` (C16): the real `Stream` + `ConsumerGroup` driven in-process.
//!
//! One stream per process state (`reset` makes a fresh one).  Every answer is
//!   `<reply> ;; S <stream ids> ;; G <group> <last> <byid> <byc> <cons> <total> <min> <max> ;; G ...`
//! i.e. the reply of the operation followed by the stream contents and `ConsumerGroup::verif_dump()`
//! of every existing group (sorted by group number) — all representations of the pending state.
//! Names are transported as decimal numbers `n`; the real names are `g<n>` / `c<n>`.
//! Idle times / timestamps are never printed.
use ferrous::storage::consumer_groups::ConsumerGroup;
use ferrous::storage::stream::{Stream, StreamId};
use std::collections::HashMap;
use std::panic::{catch_unwind, AssertUnwindSafe};
use std::sync::Arc;
use verif_harness::line_loop;
use verif_harness::util::show_frame;

const HUGE: u64 = u64::MAX;
const BAD_KINDS: [&str; 23] = ["create-badid", "create-arity", "create-wrongtype", "setid-badid", "setid-arity", "setid-wrongtype",
    "destroy-arity", "destroy-wrongtype", "delc-arity", "delc-wrongtype", "createc-arity", "unknown-sub", "ack-badid", "ack-arity",
    "ack-wrongtype", "claim-badidle", "claim-badid", "claim-arity", "read-badid", "read-unbalanced", "read-syntax",
    "pending-badcount", "pending-syntax"];

fn main() {
    // `impl_grp handlers`: the same protocol answered through the RESP command handlers
    // (commands/consumer_groups.rs, commands/streams.rs) on a real StorageEngine.
    if std::env::args().any(|a| a == "handlers") {
        return handlers::run();
    }
    // the typed API has no keyspace: the key "exists" from the first successful XADD / group creation on
    // (what XADD and XGROUP CREATE … MKSTREAM do at command level); a missing key is dumped as `S ~`
    line_loop((Stream::new(), false), |st, ws| {
        if ws == ["reset"] {
            *st = (Stream::new(), false);
            return absent(with_dump(&st.0, "ok".into()), st.1);
        }
        let r = catch_unwind(AssertUnwindSafe(|| step(&mut st.0, ws)));
        match r {
            Ok(Some(reply)) => {
                if reply == "ok" && (ws[0] == "add" || ws[0] == "create") { st.1 = true; }
                absent(with_dump(&st.0, reply), st.1)
            }
            Ok(None) => "bad-op".into(),
            Err(_) => absent(with_dump(&st.0, "panic".into()), st.1),
        }
    });
}

/// Names are transported as numbers.  100 / 101 stand for the two distinct NON-UTF-8 names `g\xff` / `g\xfe`
/// (`c\xff` / `c\xfe` for consumers); inside this driver they are carried as the private-use characters
/// U+E0FF / U+E0FE and turned into the single bytes 0xFF / 0xFE when a command frame is built (`encode`).
fn binary_suffix(n: u64) -> Option<char> { match n { 100 => Some('\u{E0FF}'), 101 => Some('\u{E0FE}'), _ => None } }
fn gname(n: u64) -> String { match binary_suffix(n) { Some(ch) => format!("g{}", ch), None => format!("g{}", n) } }
fn cname(n: u64) -> String { match binary_suffix(n) { Some(ch) => format!("c{}", ch), None => format!("c{}", n) } }
fn encode(s: &str) -> Vec<u8> {
    let mut out = Vec::new();
    for ch in s.chars() {
        match ch {
            '\u{E0FF}' => out.push(0xFF),
            '\u{E0FE}' => out.push(0xFE),
            c => { let mut b = [0u8; 4]; out.extend_from_slice(c.encode_utf8(&mut b).as_bytes()); }
        }
    }
    out
}
fn num(s: &str) -> Option<u64> {
    if s.is_empty() || !s.bytes().all(|b| b.is_ascii_digit()) || s.len() > 20 { return None; }
    s.parse().ok()
}
/// name as it appears in a dump -> its number; 199 = the name the lossy UTF-8 conversion makes of BOTH binary names
fn unname(s: &str) -> u64 {
    match &s[1..] {
        "\u{FFFD}" => 199,
        "\u{E0FF}" => 100,
        "\u{E0FE}" => 101,
        t => t.parse().unwrap_or(u64::MAX),
    }
}

fn parse_id(s: &str) -> Option<StreamId> {
    let (a, b) = s.split_once('-')?;
    Some(StreamId::new(num(a)?, num(b)?))
}
fn parse_ids(s: &str) -> Option<Vec<StreamId>> {
    if s == "." { return Some(vec![]); }
    s.split('|').map(parse_id).collect()
}
fn show_id(i: &StreamId) -> String { format!("{}-{}", i.millis(), i.seq()) }
fn show_ids(v: &[StreamId]) -> String {
    if v.is_empty() { return ".".into(); }
    v.iter().map(show_id).collect::<Vec<_>>().join("|")
}
fn join_or_dot(v: Vec<String>) -> String { if v.is_empty() { ".".into() } else { v.join("|") } }
fn opt_id(o: &Option<StreamId>) -> String { o.as_ref().map(show_id).unwrap_or_else(|| "-".into()) }

/// `$` is resolved exactly as the XGROUP CREATE / SETID handlers do: the id of the last entry
/// present in the stream, or 0-0 when the stream is empty.
fn id_or_dollar(s: &Stream, w: &str) -> Option<StreamId> {
    if w == "$" {
        Some(s.last_entry().map(|e| e.id).unwrap_or(StreamId::new(0, 0)))
    } else {
        parse_id(w)
    }
}

fn all_ids(s: &Stream) -> Vec<StreamId> {
    // no entry can have id 0-0 (add_with_id requires id > last_id >= 0-0)
    s.range_after(&StreamId::new(0, 0), None).entries.iter().map(|e| e.id).collect()
}

fn dump_group(g: &ConsumerGroup) -> String {
    let (last, by_id, by_c, cons, total, min, max) = g.verif_dump();
    let by_id: Vec<String> = by_id.iter().map(|(i, c, n)| format!("{}:{}:{}", show_id(i), unname(c), n)).collect();
    let mut by_c: Vec<(u64, String)> = by_c.iter()
        .map(|(c, ids)| (unname(c), ids.iter().map(show_id).collect::<Vec<_>>().join("+"))).collect();
    by_c.sort();
    let by_c: Vec<String> = by_c.into_iter().map(|(c, l)| format!("{}={}", c, l)).collect();
    let mut cons: Vec<(u64, usize)> = cons.iter().map(|(c, n)| (unname(c), *n)).collect();
    cons.sort();
    let cons: Vec<String> = cons.into_iter().map(|(c, n)| format!("{}={}", c, n)).collect();
    format!("G {} {} {} {} {} {} {} {}", unname(&g.name), show_id(&last), join_or_dot(by_id), join_or_dot(by_c),
            join_or_dot(cons), total, opt_id(&min), opt_id(&max))
}

/// a key that does not exist is dumped as `S ~` (an existing empty stream as `S .`)
fn absent(dump: String, exists: bool) -> String {
    if exists { dump } else { dump.replacen(" ;; S .", " ;; S ~", 1) }
}

fn with_dump(s: &Stream, reply: String) -> String {
    let mut out = format!("{} ;; S {}", reply, show_ids(&all_ids(s)));
    let mut gs: Vec<Arc<ConsumerGroup>> = s.list_consumer_groups();
    gs.sort_by_key(|g| unname(&g.name));
    for g in gs {
        out.push_str(" ;; ");
        out.push_str(&dump_group(&g));
    }
    out
}

fn step(s: &mut Stream, ws: &[&str]) -> Option<String> {
    Some(match ws {
        // malformed commands exist only at handler level (the typed API cannot express them)
        ["bad", kind, g] => { num(g)?; if BAD_KINDS.contains(kind) { "refused".into() } else { return None } }
        ["add", id] => {
            let id = parse_id(id)?;
            match s.add_with_id(id, HashMap::new()) { Ok(()) => "ok".into(), Err(_) => "err".into() }
        }
        ["del", ids] => format!("{}", s.delete(&parse_ids(ids)?)),
        ["create", g, id] => {
            let g = num(g)?;
            let id = id_or_dollar(s, id)?;
            match s.create_consumer_group(gname(g), id) { Ok(()) => "ok".into(), Err(_) => "busy".into() }
        }
        ["destroy", g] => if s.destroy_consumer_group(&gname(num(g)?)) { "1".into() } else { "0".into() },
        ["setid", g, id] => {
            let g = num(g)?;
            let id = id_or_dollar(s, id)?;
            match s.get_consumer_group(&gname(g)) { Some(grp) => { grp.set_id(id); "ok".into() } None => "nogroup".into() }
        }
        ["createc", g, c] => {
            let (g, c) = (num(g)?, num(c)?);
            match s.get_consumer_group(&gname(g)) {
                Some(grp) => if grp.create_consumer(cname(c)) { "1".into() } else { "0".into() },
                None => "nogroup".into(),
            }
        }
        ["delc", g, c] => {
            let (g, c) = (num(g)?, num(c)?);
            match s.get_consumer_group(&gname(g)) {
                Some(grp) => format!("{}", grp.delete_consumer(&cname(c))),
                None => "nogroup".into(),
            }
        }
        ["read", g, c, from, count, noack] => {
            let (g, c) = (num(g)?, num(c)?);
            // the XREADGROUP handler passes StreamId::max() for `>`
            let after = if *from == ">" { StreamId::max() } else { parse_id(from)? };
            let count = if *count == "-" { None } else { Some(num(count)? as usize) };
            let noack = match *noack { "0" => false, "1" => true, _ => return None };
            match s.read_group(&gname(g), &cname(c), after, count, noack) {
                Ok(es) => show_ids(&es.iter().map(|e| e.id).collect::<Vec<_>>()),
                Err(_) => "nogroup".into(),
            }
        }
        ["ack", g, ids] => {
            let g = num(g)?;
            match s.acknowledge_messages(&gname(g), &parse_ids(ids)?) { Ok(n) => format!("{}", n), Err(_) => "nogroup".into() }
        }
        ["claim", g, c, idle, force, ids] => {
            let (g, c) = (num(g)?, num(c)?);
            let idle = match *idle { "huge" => HUGE, n => num(n)? };
            let force = match *force { "0" => false, "1" => true, _ => return None };
            match s.claim_messages(&gname(g), &cname(c), idle, &parse_ids(ids)?, force) {
                Ok(es) => show_ids(&es.iter().map(|e| e.id).collect::<Vec<_>>()),
                Err(_) => "nogroup".into(),
            }
        }
        ["autoclaim", g, c, idle, start, count] => {
            let (g, c) = (num(g)?, num(c)?);
            let idle = match *idle { "0" => 0, "huge" => HUGE, _ => return None };
            let start = parse_id(start)?;
            let count = num(count)? as usize;
            match s.auto_claim_messages(&gname(g), &cname(c), idle, start, count) {
                Ok((es, next)) => format!("{} {}", show_id(&next), show_ids(&es.iter().map(|e| e.id).collect::<Vec<_>>())),
                Err(_) => "nogroup".into(),
            }
        }
        ["pidle", g, id] => {
            // the idle time XPENDING reports for one pending id (milliseconds; compared through windows only)
            let (g, id) = (num(g)?, parse_id(id)?);
            match s.get_consumer_group(&gname(g)) {
                Some(grp) => match grp.get_pending_range(Some(id), Some(id), 1, None).first() {
                    Some(e) => format!("{}", e.idle_time),
                    None => "-".into(),
                },
                None => "nogroup".into(),
            }
        }
        ["pending", g] => {
            let g = num(g)?;
            match s.get_consumer_group(&gname(g)) {
                Some(grp) => {
                    let info = grp.get_pending_info();
                    let mut cons: Vec<(u64, usize)> = info.consumers.iter().map(|(c, n)| (unname(c), *n)).collect();
                    cons.sort();
                    let cons: Vec<String> = cons.into_iter().map(|(c, n)| format!("{}={}", c, n)).collect();
                    format!("{} {} {} {}", info.count, opt_id(&info.min_id), opt_id(&info.max_id), join_or_dot(cons))
                }
                None => "nogroup".into(),
            }
        }
        ["prange", g, start, end, count, c] => {
            let g = num(g)?;
            let start = if *start == "-" { None } else { Some(parse_id(start)?) };
            let end = if *end == "+" { None } else { Some(parse_id(end)?) };
            let count = num(count)? as usize;
            let c = if *c == "-" { None } else { Some(cname(num(c)?)) };
            match s.get_consumer_group(&gname(g)) {
                Some(grp) => {
                    let v = grp.get_pending_range(start, end, count, c.as_deref());
                    join_or_dot(v.iter().map(|e| format!("{}:{}:{}", show_id(&e.id), unname(&e.consumer), e.delivery_count)).collect())
                }
                None => "nogroup".into(),
            }
        }
        _ => return None,
    })
}

/// Handler-level mode: every operation is a RESP command given to the real `handle_*` functions.
mod handlers {
    use super::*;
    use ferrous::protocol::RespFrame;
    use ferrous::storage::commands::consumer_groups::*;
    use ferrous::storage::commands::streams::{handle_xadd, handle_xdel};
    use ferrous::storage::{GetResult, StorageEngine, Value};

    struct H { storage: Arc<StorageEngine>, key: String, n: usize, creates: usize }

    pub fn run() {
        let h = H { storage: StorageEngine::new(), key: "s0".into(), n: 0, creates: 0 };
        let _ = h.storage.set_string(0, b"str".to_vec(), b"x".to_vec());   // a key of the wrong type
        line_loop(h, |h, ws| {
            if ws == ["reset"] {
                h.n += 1;
                h.key = format!("s{}", h.n);       // a fresh key = a fresh stream
                return dump(h, "ok".into());
            }
            let r = catch_unwind(AssertUnwindSafe(|| step(h, ws)));
            match r {
                Ok(Some(reply)) => dump(h, reply),
                Ok(None) => "bad-op".into(),
                Err(_) => dump(h, "panic".into()),
            }
        });
    }

    fn stream(h: &H) -> Option<Stream> {
        match h.storage.get(0, h.key.as_bytes()) {
            Ok(GetResult::Found(Value::Stream(s))) => Some(s),
            _ => None,
        }
    }
    fn dump(h: &H, reply: String) -> String {
        match stream(h) { Some(s) => with_dump(&s, reply), None => format!("{} ;; S ~", reply) }
    }
    fn bulk(s: &str) -> RespFrame { RespFrame::BulkString(Some(Arc::new(encode(s)))) }
    fn frames(parts: &[&str]) -> Vec<RespFrame> { parts.iter().map(|p| bulk(p)).collect() }
    fn text(f: &RespFrame) -> Option<String> {
        match f {
            RespFrame::BulkString(Some(b)) | RespFrame::SimpleString(b) | RespFrame::Error(b) => Some(String::from_utf8_lossy(b).to_string()),
            _ => None,
        }
    }
    fn id_list(f: &RespFrame) -> Option<String> {
        match f {
            RespFrame::Array(Some(xs)) => {
                let v: Option<Vec<String>> = xs.iter().map(|x| match x {
                    // either a bare id (JUSTID) or [id, fields]
                    RespFrame::Array(Some(e)) if !e.is_empty() => text(&e[0]),
                    other => text(other),
                }).collect();
                let v = v?;
                Some(if v.is_empty() { ".".into() } else { v.join("|") })
            }
            RespFrame::Array(None) => Some(".".into()),
            _ => None,
        }
    }
    /// A command for a group (or key) that does not exist still goes through its handler; every form of
    /// "there is no such group" (NOGROUP / no-such-key error, 0, null or empty array) is reported as `nogroup`.
    fn on_missing(missing: bool, res: ferrous::error::Result<RespFrame>) -> Result<RespFrame, String> {
        if !missing { return res.map_err(|_| "err".to_string()); }
        Err(match res {
            Ok(RespFrame::Error(_)) | Ok(RespFrame::Integer(0)) | Ok(RespFrame::Array(None)) | Err(_) => "nogroup".into(),
            Ok(RespFrame::Array(Some(ref v))) if v.is_empty() => "nogroup".into(),
            Ok(RespFrame::Array(Some(ref v))) if v.len() == 2 && matches!(&v[1], RespFrame::Array(Some(e)) if e.is_empty()) => "nogroup".into(),
            Ok(other) => format!("unexpected-on-missing-group:{}", show_frame(&other).replace(' ', "_")),
        })
    }
    fn is_err(f: &RespFrame, what: &str) -> bool { matches!(f, RespFrame::Error(b) if String::from_utf8_lossy(b).contains(what)) }
    fn strip(s: &str) -> String { format!("{}", unname(s)) }

    fn step(h: &mut H, ws: &[&str]) -> Option<String> {
        let key = h.key.clone();
        let k = key.as_str();
        let st = &h.storage;
        // validate the request exactly as the API mode does (bad-op on malformed input)
        let group_of = |w: &str| -> Option<String> { Some(gname(num(w)?)) };
        // the name under which the handlers store a group: what String::from_utf8_lossy makes of the bytes sent
        let need_group = |g: &str| -> bool {
            let stored = String::from_utf8_lossy(&encode(g)).to_string();
            stream(h).map(|s| s.get_consumer_group(&stored).is_some()).unwrap_or(false)
        };
        Some(match ws {
            ["mread", g, c, count, noack, kind] => {
                // XREADGROUP over TWO streams (`STREAMS <key> <second> > <id2>`) whose SECOND stream fails
                // (NOGROUP / wrong type / bad id): the command ends in an error, so nothing may have been delivered
                let (g, c) = (group_of(g)?, cname(num(c)?));
                let k2 = format!("{}b", k);
                if !matches!(st.get(0, k2.as_bytes()), Ok(GetResult::Found(_))) {
                    let _ = handle_xadd(st, 0, &frames(&["XADD", &k2, "1-0", "f", "v"]));
                }
                let mut p: Vec<String> = vec!["XREADGROUP".into(), "GROUP".into(), g, c];
                if *count != "-" { num(count)?; p.push("COUNT".into()); p.push(count.to_string()); }
                match *noack { "0" => {}, "1" => p.push("NOACK".into()), _ => return None }
                let (second, id2) = match *kind { "nogroup" => (k2.as_str(), ">"), "wrongtype" => ("str", ">"), "badid" => (k2.as_str(), "nope"), _ => return None };
                p.extend(["STREAMS".to_string(), k.to_string(), second.to_string(), ">".to_string(), id2.to_string()]);
                match handle_xreadgroup(st, 0, &frames(&p.iter().map(|x| x.as_str()).collect::<Vec<_>>())) {
                    Ok(RespFrame::Error(_)) | Err(_) => "refused".into(),
                    Ok(other) => format!("answered:{}", show_frame(&other).replace(' ', "_")),
                }
            }
            ["bad", kind, g] => {
                // malformed / refused administration commands: whatever the reply, nothing may change
                let g = group_of(g)?;
                let res = match *kind {
                    "create-badid" => handle_xgroup(st, 0, &frames(&["XGROUP", "CREATE", k, &g, "notanid", "MKSTREAM"])),
                    "create-arity" => handle_xgroup(st, 0, &frames(&["XGROUP", "CREATE", k, &g])),
                    "create-wrongtype" => handle_xgroup(st, 0, &frames(&["XGROUP", "CREATE", "str", &g, "0", "MKSTREAM"])),
                    "setid-badid" => handle_xgroup(st, 0, &frames(&["XGROUP", "SETID", k, &g, "x-y"])),
                    "setid-arity" => handle_xgroup(st, 0, &frames(&["XGROUP", "SETID", k, &g])),
                    "setid-wrongtype" => handle_xgroup(st, 0, &frames(&["XGROUP", "SETID", "str", &g, "0-0"])),
                    "destroy-arity" => handle_xgroup(st, 0, &frames(&["XGROUP", "DESTROY", k])),
                    "destroy-wrongtype" => handle_xgroup(st, 0, &frames(&["XGROUP", "DESTROY", "str", &g])),
                    "delc-arity" => handle_xgroup(st, 0, &frames(&["XGROUP", "DELCONSUMER", k, &g])),
                    "delc-wrongtype" => handle_xgroup(st, 0, &frames(&["XGROUP", "DELCONSUMER", "str", &g, "c1"])),
                    "createc-arity" => handle_xgroup(st, 0, &frames(&["XGROUP", "CREATECONSUMER", k, &g])),
                    "unknown-sub" => handle_xgroup(st, 0, &frames(&["XGROUP", "FROBNICATE", k, &g])),
                    "ack-badid" => handle_xack(st, 0, &frames(&["XACK", k, &g, "1-0", "nope"])),
                    "ack-arity" => handle_xack(st, 0, &frames(&["XACK", k, &g])),
                    "ack-wrongtype" => handle_xack(st, 0, &frames(&["XACK", "str", &g, "1-0"])),
                    "claim-badidle" => handle_xclaim(st, 0, &frames(&["XCLAIM", k, &g, "c1", "soon", "1-0"])),
                    "claim-badid" => handle_xclaim(st, 0, &frames(&["XCLAIM", k, &g, "c1", "0", "1-0", "nope"])),
                    "claim-arity" => handle_xclaim(st, 0, &frames(&["XCLAIM", k, &g, "c1", "0"])),
                    "read-badid" => handle_xreadgroup(st, 0, &frames(&["XREADGROUP", "GROUP", &g, "c1", "STREAMS", k, "nope"])),
                    "read-unbalanced" => handle_xreadgroup(st, 0, &frames(&["XREADGROUP", "GROUP", &g, "c1", "STREAMS", k, k, ">"])),
                    "read-syntax" => handle_xreadgroup(st, 0, &frames(&["XREADGROUP", "GROUP", &g, "c1", "FROB", "STREAMS", k, ">"])),
                    "pending-badcount" => handle_xpending(st, 0, &frames(&["XPENDING", k, &g, "-", "+", "many"])),
                    "pending-syntax" => handle_xpending(st, 0, &frames(&["XPENDING", k, &g, "-", "+"])),
                    _ => return None,
                };
                match res {
                    Ok(RespFrame::Error(_)) | Err(_) => "refused".into(),
                    // DESTROY / DELCONSUMER / XACK on a wrong-typed or missing key may answer 0 or an empty reply: also a refusal
                    Ok(RespFrame::Integer(0)) | Ok(RespFrame::Array(None)) => "refused".into(),
                    Ok(RespFrame::Array(Some(ref v))) if v.is_empty() => "refused".into(),
                    Ok(other) => format!("accepted:{}", show_frame(&other).replace(' ', "_")),
                }
            }
            ["add", id] => {
                parse_id(id)?;
                match handle_xadd(st, 0, &frames(&["XADD", k, id, "f", "v"])) {
                    Ok(RespFrame::BulkString(Some(_))) => "ok".into(),
                    _ => "err".into(),
                }
            }
            ["del", ids] => {
                let v = parse_ids(ids)?;
                if v.is_empty() { return Some("0".into()); }
                let mut p = vec!["XDEL".to_string(), k.to_string()];
                p.extend(v.iter().map(show_id));
                match handle_xdel(st, 0, &frames(&p.iter().map(|x| x.as_str()).collect::<Vec<_>>())) {
                    Ok(RespFrame::Integer(n)) => format!("{}", n),
                    _ => "err".into(),
                }
            }
            ["create", g, id] => {
                let g = group_of(g)?;
                if *id != "$" { parse_id(id)?; }
                // MKSTREAM is needed only when the key is missing; on an existing stream alternate with / without it
                h.creates += 1;
                let mk = stream(h).is_none() || h.creates % 2 == 0;
                let mut parts = vec!["XGROUP", "CREATE", k, &g, id];
                if mk { parts.push("MKSTREAM"); }
                match handle_xgroup(st, 0, &frames(&parts)) {
                    Ok(RespFrame::SimpleString(_)) => "ok".into(),
                    Ok(ref f) if is_err(f, "BUSYGROUP") => "busy".into(),
                    _ => "err".into(),
                }
            }
            ["destroy", g] => {
                let g = group_of(g)?;
                match handle_xgroup(st, 0, &frames(&["XGROUP", "DESTROY", k, &g])) {
                    Ok(RespFrame::Integer(n)) => format!("{}", n),
                    _ => "err".into(),
                }
            }
            ["setid", g, id] => {
                let g = group_of(g)?;
                if *id != "$" { parse_id(id)?; }
                let missing = !need_group(&g);
                match on_missing(missing, handle_xgroup(st, 0, &frames(&["XGROUP", "SETID", k, &g, id]))) {
                    Err(s) => s,
                    Ok(RespFrame::SimpleString(_)) => "ok".into(),
                    _ => "err".into(),
                }
            }
            ["createc", g, c] | ["delc", g, c] => {
                let (g, c) = (group_of(g)?, cname(num(c)?));
                let missing = !need_group(&g);
                let sub = if ws[0] == "createc" { "CREATECONSUMER" } else { "DELCONSUMER" };
                match on_missing(missing, handle_xgroup(st, 0, &frames(&["XGROUP", sub, k, &g, &c]))) {
                    Err(s) => s,
                    Ok(RespFrame::Integer(n)) => format!("{}", n),
                    _ => "err".into(),
                }
            }
            ["read", g, c, from, count, noack] => {
                let (g, c) = (group_of(g)?, cname(num(c)?));
                if *from != ">" { parse_id(from)?; }
                let mut p: Vec<String> = vec!["XREADGROUP".into(), "GROUP".into(), g.clone(), c];
                if *count != "-" { num(count)?; p.push("COUNT".into()); p.push(count.to_string()); }
                match *noack { "0" => {}, "1" => p.push("NOACK".into()), _ => return None }
                let missing = !need_group(&g);
                p.extend(["STREAMS".to_string(), k.to_string(), from.to_string()]);
                match on_missing(missing, handle_xreadgroup(st, 0, &frames(&p.iter().map(|x| x.as_str()).collect::<Vec<_>>()))) {
                    Err(s) => s,
                    Ok(RespFrame::Array(Some(res))) => match res.first() {
                        None => ".".into(),
                        Some(RespFrame::Array(Some(kv))) if kv.len() == 2 => id_list(&kv[1])?,
                        _ => "err".into(),
                    },
                    _ => "err".into(),
                }
            }
            ["ack", g, ids] => {
                let g = group_of(g)?;
                let v = parse_ids(ids)?;
                let missing = !need_group(&g);
                if v.is_empty() { return Some("0".into()); }
                let mut p = vec!["XACK".to_string(), k.to_string(), g];
                p.extend(v.iter().map(show_id));
                match on_missing(missing, handle_xack(st, 0, &frames(&p.iter().map(|x| x.as_str()).collect::<Vec<_>>()))) {
                    Err(s) => s,
                    Ok(RespFrame::Integer(n)) => format!("{}", n),
                    _ => "err".into(),
                }
            }
            ["claim", g, c, idle, force, ids] => {
                let (g, c) = (group_of(g)?, cname(num(c)?));
                let idle = match *idle { "huge" => "18446744073709551615".to_string(), n => format!("{}", num(n)?) };
                let v = parse_ids(ids)?;
                let missing = !need_group(&g);
                if v.is_empty() { return None; }
                let mut p = vec!["XCLAIM".to_string(), k.to_string(), g, c, idle.to_string()];
                p.extend(v.iter().map(show_id));
                match *force { "0" => {}, "1" => p.push("FORCE".into()), _ => return None }
                p.push("JUSTID".into());
                match on_missing(missing, handle_xclaim(st, 0, &frames(&p.iter().map(|x| x.as_str()).collect::<Vec<_>>()))) {
                    Err(s) => s,
                    Ok(f) => id_list(&f).unwrap_or_else(|| "err".into()),
                    _ => "err".into(),
                }
            }
            ["autoclaim", g, c, idle, start, count] => {
                let (g, c) = (group_of(g)?, cname(num(c)?));
                let idle = match *idle { "0" => "0", "huge" => "18446744073709551615", _ => return None };
                parse_id(start)?; num(count)?;
                let missing = !need_group(&g);
                match on_missing(missing, handle_xautoclaim(st, 0, &frames(&["XAUTOCLAIM", k, &g, &c, idle, start, "COUNT", count, "JUSTID"]))) {
                    Err(s) => s,
                    Ok(RespFrame::Array(Some(r))) if r.len() == 2 => format!("{} {}", text(&r[0])?, id_list(&r[1])?),
                    _ => "err".into(),
                }
            }
            ["pidle", g, id] => {
                let g = group_of(g)?;
                parse_id(id)?;
                let missing = !need_group(&g);
                match on_missing(missing, handle_xpending(st, 0, &frames(&["XPENDING", k, &g, id, id, "1"]))) {
                    Err(s) => s,
                    Ok(RespFrame::Array(Some(rows))) => match rows.first() {
                        Some(RespFrame::Array(Some(r))) if r.len() == 4 => match r[2] { RespFrame::Integer(n) => format!("{}", n), _ => "err".into() },
                        _ => "-".into(),
                    },
                    _ => "err".into(),
                }
            }
            ["pending", g] => {
                let g = group_of(g)?;
                let missing = !need_group(&g);
                match on_missing(missing, handle_xpending(st, 0, &frames(&["XPENDING", k, &g]))) {
                    Err(s) => s,
                    Ok(RespFrame::Array(Some(r))) if r.len() == 4 => {
                        let n = match r[0] { RespFrame::Integer(n) => n, _ => return Some("err".into()) };
                        let mn = text(&r[1]).unwrap_or_else(|| "-".into());
                        let mx = text(&r[2]).unwrap_or_else(|| "-".into());
                        let mut cons: Vec<(u64, i64)> = Vec::new();
                        if let RespFrame::Array(Some(rows)) = &r[3] {
                            for row in rows {
                                if let RespFrame::Array(Some(cn)) = row {
                                    if let (Some(name), RespFrame::Integer(c)) = (text(&cn[0]), &cn[1]) { cons.push((unname(&name), *c)); }
                                }
                            }
                        }
                        cons.sort();
                        format!("{} {} {} {}", n, mn, mx, join_or_dot(cons.into_iter().map(|(c, n)| format!("{}={}", c, n)).collect()))
                    }
                    _ => "err".into(),
                }
            }
            ["prange", g, start, end, count, c] => {
                let g = group_of(g)?;
                // bounds go to the handler as written: - + ms-seq ms, "(" prefix, or junk
                let okb = |t: &str| !t.is_empty() && t.len() <= 48 && t.bytes().all(|b| b.is_ascii_alphanumeric() || b == b'-' || b == b'+' || b == b'(');
                if !okb(start) || !okb(end) { return None; }
                num(count)?;
                let mut p = vec!["XPENDING".to_string(), k.to_string(), g.clone(), start.to_string(), end.to_string(), count.to_string()];
                if *c != "-" { p.push(cname(num(c)?)); }
                let missing = !need_group(&g);
                match on_missing(missing, handle_xpending(st, 0, &frames(&p.iter().map(|x| x.as_str()).collect::<Vec<_>>()))) {
                    Err(s) => s,
                    Ok(RespFrame::Error(_)) => "refused".into(),
                    Ok(RespFrame::Array(Some(rows))) => {
                        let mut out = Vec::new();
                        for row in rows {
                            if let RespFrame::Array(Some(r)) = row {
                                if let (Some(id), Some(cn), RespFrame::Integer(dc)) = (text(&r[0]), text(&r[1]), &r[3]) {
                                    out.push(format!("{}:{}:{}", id, strip(&cn), dc));
                                }
                            }
                        }
                        join_or_dot(out)
                    }
                    _ => "err".into(),
                }
            }
            _ => return None,
        })
    }
}
