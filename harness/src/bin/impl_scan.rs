//! Family `scan` (C19): the real `StorageEngine::{scan,hscan,sscan,zscan}` and the
//! `handle_*scan` command handlers (option parsing), in-process.
//!
//! State: one engine.  Database 0 holds the key space that SCAN iterates, database 1 holds the three
//! collections `H`, `S`, `Z` that HSCAN/SSCAN/ZSCAN iterate, database 15 is a scratch space used to
//! observe the (private) glob matcher through SCAN on a single key.  No key ever gets a TTL, so the
//! background expiry thread has nothing to do.  One engine for the whole run: every
//! `StorageEngine::new()` spawns a sweeper thread that lives for ever.
use ferrous::protocol::RespFrame;
use ferrous::storage::commands::scan::{handle_hscan, handle_scan, handle_sscan, handle_zscan};
use ferrous::storage::engine::StorageEngine;
use std::collections::HashMap;
use std::panic::{catch_unwind, AssertUnwindSafe};
use std::sync::Arc;
use verif_harness::line_loop;
use verif_harness::util::*;

const KEYS_DB: usize = 0;
const COLL_DB: usize = 1;
const SCRATCH_DB: usize = 15;

fn main() {
    let eng = StorageEngine::new();
    line_loop(eng, |eng, ws| match catch_unwind(AssertUnwindSafe(|| step(eng, ws))) {
        Ok(s) => s,
        Err(_) => "panic".into(),
    });
}

fn opt_hex(s: &str) -> Option<Option<Vec<u8>>> {
    if s == "~" { Some(None) } else { of_hex(s).map(Some) }
}

fn coll_key(kind: &str) -> Option<Vec<u8>> {
    match kind { "h" => Some(b"H".to_vec()), "s" => Some(b"S".to_vec()), "z" => Some(b"Z".to_vec()), _ => None }
}

fn create(eng: &Arc<StorageEngine>, db: usize, ty: &str, key: Vec<u8>) -> Option<bool> {
    let _ = eng.delete(db, &key);
    Some(match ty {
        "string" => eng.set_string(db, key, b"v".to_vec()).is_ok(),
        "list" => eng.rpush(db, key, vec![b"e".to_vec()]).is_ok(),
        "set" => eng.sadd(db, key, vec![b"m".to_vec()]).is_ok(),
        "hash" => eng.hset(db, key, vec![(b"f".to_vec(), b"v".to_vec())]).is_ok(),
        "zset" => eng.zadd(db, key, b"m".to_vec(), 1.0).is_ok(),
        "stream" => { let mut f = HashMap::new(); f.insert(b"f".to_vec(), b"v".to_vec()); eng.xadd(db, key, f).is_ok() }
        _ => return None,
    })
}

/// Reply of a `handle_*scan` call, canonical: `err` (any error frame or `Err`) or `<cursor> <hexlist>`.
fn show_reply(r: ferrous::error::Result<RespFrame>) -> String {
    match r {
        Err(_) => "err".into(),
        Ok(RespFrame::Error(_)) => "err".into(),
        Ok(RespFrame::Array(Some(v))) if v.len() == 2 => {
            let cur = match &v[0] {
                RespFrame::BulkString(Some(b)) | RespFrame::SimpleString(b) => String::from_utf8_lossy(b).to_string(),
                _ => return "odd-reply".into(),
            };
            match &v[1] {
                RespFrame::Array(Some(items)) => {
                    let mut out = Vec::new();
                    for it in items {
                        match it { RespFrame::BulkString(Some(b)) => out.push(b.to_vec()), _ => return "odd-reply".into() }
                    }
                    format!("{} {}", cur, show_hex_list(&out))
                }
                _ => "odd-reply".into(),
            }
        }
        Ok(_) => "odd-reply".into(),
    }
}

fn step(eng: &mut Arc<StorageEngine>, ws: &[&str]) -> String {
    match ws {
        ["reset"] => {
            let ok = eng.flush_db(KEYS_DB).is_ok() && eng.flush_db(COLL_DB).is_ok() && eng.flush_db(SCRATCH_DB).is_ok();
            if ok { "ok".into() } else { "fail".into() }
        }
        ["add", ty, k] => match of_hex(k) {
            None => "bad-op".into(),
            Some(key) => match create(eng, KEYS_DB, ty, key) { Some(true) => "ok".into(), Some(false) => "fail".into(), None => "bad-op".into() },
        },
        // a key with a TTL that outlives the run: SCAN must treat it like any other live key
        ["addttl", ty, k, ms] => match (of_hex(k), ms.parse::<u64>()) {
            (Some(key), Ok(ms)) => match create(eng, KEYS_DB, ty, key.clone()) {
                Some(true) => match eng.pexpire(KEYS_DB, &key, ms) { Ok(true) => "ok".into(), _ => "fail".into() },
                Some(false) => "fail".into(),
                None => "bad-op".into(),
            },
            _ => "bad-op".into(),
        },
        // a key whose TTL has run out (whether or not the sweeper has removed it yet): it does not exist any more
        ["addexp", ty, k] => match of_hex(k) {
            None => "bad-op".into(),
            Some(key) => match create(eng, KEYS_DB, ty, key.clone()) {
                Some(true) => match eng.pexpire(KEYS_DB, &key, 1) {
                    Ok(true) => { std::thread::sleep(std::time::Duration::from_millis(2)); "ok".into() }
                    _ => "fail".into(),
                },
                Some(false) => "fail".into(),
                None => "bad-op".into(),
            },
        },
        ["del", k] => match of_hex(k) {
            None => "bad-op".into(),
            Some(key) => match eng.delete(KEYS_DB, &key) { Ok(true) => "1".into(), Ok(false) => "0".into(), Err(_) => "fail".into() },
        },
        ["scan", cur, cnt, pat, ty] => {
            let (Ok(cur), Ok(cnt), Some(pat), Some(ty)) = (cur.parse::<u64>(), cnt.parse::<usize>(), opt_hex(pat), opt_hex(ty)) else { return "bad-op".into() };
            let ty_s = ty.map(|b| String::from_utf8_lossy(&b).to_string());
            match eng.scan(KEYS_DB, cur, pat.as_deref(), ty_s.as_deref(), cnt) {
                Ok((next, keys)) => format!("{} {}", next, show_hex_list(&keys)),
                Err(_) => "fail".into(),
            }
        }
        ["eadd", kind, m, v] => {
            let (Some(ck), Some(m)) = (coll_key(kind), of_hex(m)) else { return "bad-op".into() };
            let r = match *kind {
                "h" => match of_hex(v) { Some(v) => eng.hset(COLL_DB, ck, vec![(m, v)]).is_ok(), None => return "bad-op".into() },
                "s" => { if *v != "-" { return "bad-op".into(); } eng.sadd(COLL_DB, ck, vec![m]).is_ok() }
                // the score travels as the decimal value of its IEEE-754 bit pattern (so that +-inf, -0, denormals pass unchanged)
                "z" => match v.parse::<u64>() { Ok(bits) => eng.zadd(COLL_DB, ck, m, f64::from_bits(bits)).is_ok(), Err(_) => return "bad-op".into() },
                _ => return "bad-op".into(),
            };
            if r { "ok".into() } else { "fail".into() }
        }
        ["edel", kind, m] => {
            let (Some(ck), Some(m)) = (coll_key(kind), of_hex(m)) else { return "bad-op".into() };
            let r = match *kind {
                "h" => eng.hdel(COLL_DB, ck, &[m]).map(|n| n > 0),
                "s" => eng.srem(COLL_DB, &ck, &[m]).map(|n| n > 0),
                "z" => eng.zrem(COLL_DB, &ck, &m),
                _ => return "bad-op".into(),
            };
            match r { Ok(true) => "1".into(), Ok(false) => "0".into(), Err(_) => "fail".into() }
        }
        ["escan", kind, cur, cnt, pat, nov] => {
            let (Some(ck), Ok(cur), Ok(cnt), Some(pat)) = (coll_key(kind), cur.parse::<u64>(), cnt.parse::<usize>(), opt_hex(pat)) else { return "bad-op".into() };
            let nov = match *nov { "0" => false, "1" => true, _ => return "bad-op".into() };
            match *kind {
                "h" => match eng.hscan(COLL_DB, &ck, cur, pat.as_deref(), cnt, nov) {
                    Ok((next, xs)) => format!("{} {}", next, show_hex_list(&xs)),
                    Err(_) => "fail".into(),
                },
                "s" if !nov => match eng.sscan(COLL_DB, &ck, cur, pat.as_deref(), cnt) {
                    Ok((next, xs)) => format!("{} {}", next, show_hex_list(&xs)),
                    Err(_) => "fail".into(),
                },
                "z" if !nov => match eng.zscan(COLL_DB, &ck, cur, pat.as_deref(), cnt) {
                    Ok((next, xs)) => {
                        let items: Vec<String> = xs.iter().map(|(m, s)| format!("{}={}", to_hex(m), s.to_bits())).collect();
                        format!("{} {}", next, if items.is_empty() { ".".to_string() } else { items.join("|") })
                    }
                    Err(_) => "fail".into(),
                },
                _ => "bad-op".into(),
            }
        }
        // the private matcher `pattern_matches`, observed through SCAN MATCH over a single key
        ["glob", p, t] => {
            let (Some(p), Some(t)) = (of_hex(p), of_hex(t)) else { return "bad-op".into() };
            if eng.set_string(SCRATCH_DB, t.clone(), b"v".to_vec()).is_err() { return "fail".into(); }
            let r = eng.scan(SCRATCH_DB, 0, Some(&p), None, 10);
            let _ = eng.delete(SCRATCH_DB, &t);
            match r {
                Ok((0, keys)) if keys.is_empty() => "0".into(),
                Ok((0, keys)) if keys.len() == 1 && keys[0] == t => "1".into(),
                Ok(_) => "odd-reply".into(),
                Err(_) => "fail".into(),
            }
        }
        // command level: `cmd <hexlist of arguments, command name first>`; SCAN runs on db 0, the others on db 1
        ["cmd", args] => {
            let Some(args) = hex_list(args) else { return "bad-op".into() };
            if args.is_empty() { return "bad-op".into(); }
            let parts: Vec<RespFrame> = args.iter().map(|a| RespFrame::BulkString(Some(Arc::new(a.clone())))).collect();
            match args[0].to_ascii_uppercase().as_slice() {
                b"SCAN" => show_reply(handle_scan(eng, KEYS_DB, &parts)),
                b"HSCAN" => show_reply(handle_hscan(eng, COLL_DB, &parts)),
                b"SSCAN" => show_reply(handle_sscan(eng, COLL_DB, &parts)),
                b"ZSCAN" => show_reply(handle_zscan(eng, COLL_DB, &parts)),
                _ => "bad-op".into(),
            }
        }
        _ => "bad-op".into(),
    }
}
