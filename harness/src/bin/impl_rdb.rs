//! Family `rdb` (C09, reusable for C10): the real `StorageEngine` + `RdbEngine::{save,load}` in-process.
//!
//! Stateful line protocol (one engine slot):
//!   clock                      -> `ok <wall-ms>`
//!   populate <dataset tokens>  -> fresh engine filled through the engine API; `<ttl>` of a key = relative TTL in ms
//!   dump                       -> `ok <wall-ms> <dataset tokens>` canonical (dbs ascending, keys sorted, sets/hashes/fields sorted,
//!                                 zsets in rank order, `<ttl>` = ABSOLUTE wall-clock deadline in ms)
//!   save                       -> `ok <wall-ms-before> <wall-ms-after> <file hex>`  (RdbEngine::save of the current engine)
//!   load <file hex>            -> fresh engine, RdbEngine::load of these bytes: `ok|err <wall-ms-before> <wall-ms-after> <max-alloc>`
//!   sleep <ms>                 -> `ok`
//! Dataset tokens:  `D <db>`  then per key  `K <key> <ttl|-> S <val>` | `L <hexlist>` | `T <hexlist>` | `H <flat hexlist>` |
//!   `Z <flat hexlist: member|8 LE score bytes …>` | `X <n> (<ms>-<seq> <flat hexlist>)*n`.
//! Files live under /verif/.cache/run/rdb-<pid>/ and are removed after each operation.
use ferrous::storage::engine::{GetResult, StorageEngine};
use ferrous::storage::rdb::{RdbConfig, RdbEngine};
use ferrous::storage::stream::StreamId;
use ferrous::storage::value::Value;
use std::collections::HashMap;
use std::panic::{catch_unwind, AssertUnwindSafe};
use std::sync::Arc;
use std::time::{Duration, SystemTime, UNIX_EPOCH};
use verif_harness::util::*;
use verif_harness::{max_alloc, reset_alloc, Tracking};

#[global_allocator]
static A: Tracking = Tracking;

struct St {
    eng: Arc<StorageEngine>,
    dir: String,
    n: u64,
}

fn wall_us() -> u128 {
    SystemTime::now().duration_since(UNIX_EPOCH).unwrap().as_micros()
}
fn wall_ms() -> u128 {
    wall_us() / 1000
}

extern "C" {
    fn dup(fd: i32) -> i32;
    fn dup2(a: i32, b: i32) -> i32;
}

/// `RdbEngine::{save,load}` print progress lines with `println!`: the protocol answers go to a
/// duplicate of the original stdout and fd 1 is pointed at stderr, so they cannot mix.
fn main() {
    use std::io::{BufRead, Write};
    use std::os::unix::io::FromRawFd;
    let mut out = unsafe {
        let fd = dup(1);
        dup2(2, 1);
        std::fs::File::from_raw_fd(fd)
    };
    std::panic::set_hook(Box::new(|_| {}));
    let dir = format!("/verif/.cache/run/rdb-{}", std::process::id());
    let _ = std::fs::create_dir_all(&dir);
    let mut st = St { eng: StorageEngine::new(), dir: dir.clone(), n: 0 };
    let stdin = std::io::stdin();
    for line in stdin.lock().lines() {
        let line = match line { Ok(l) => l, Err(_) => break };
        let ws: Vec<&str> = line.split_whitespace().collect();
        let ans = step(&mut st, &ws);
        let _ = writeln!(out, "{}", ans);
        let _ = out.flush();
    }
    let _ = std::fs::remove_dir_all(&dir);
}

fn rdb(st: &mut St) -> (RdbEngine, String) {
    st.n += 1;
    let name = format!("d{}.rdb", st.n);
    let cfg = RdbConfig { auto_save: false, filename: name.clone(), dir: st.dir.clone(), ..Default::default() };
    (RdbEngine::new(cfg), format!("{}/{}", st.dir, name))
}

fn step(st: &mut St, ws: &[&str]) -> String {
    match ws {
        ["clock"] => format!("ok {}", wall_ms()),
        ["sleep", ms] => match ms.parse::<u64>() {
            Ok(ms) => {
                std::thread::sleep(Duration::from_millis(ms));
                "ok".into()
            }
            Err(_) => "bad-op".into(),
        },
        ["populate", toks @ ..] => {
            let eng = StorageEngine::new();
            match catch_unwind(AssertUnwindSafe(|| populate(&eng, toks))) {
                Ok(Some(())) => {
                    st.eng = eng;
                    "ok".into()
                }
                Ok(None) => "bad-op".into(),
                Err(_) => "panic".into(),
            }
        }
        ["dump"] => match catch_unwind(AssertUnwindSafe(|| dump(&st.eng))) {
            Ok(s) => s,
            Err(_) => "panic".into(),
        },
        ["save"] => {
            let (r, path) = rdb(st);
            let eng = st.eng.clone();
            let t0 = wall_ms();
            let res = catch_unwind(AssertUnwindSafe(|| r.save(&eng)));
            let t1 = wall_ms();
            let out = match res {
                Ok(Ok(())) => match std::fs::read(&path) {
                    Ok(b) => format!("ok {} {} {}", t0, t1, to_hex(&b)),
                    Err(_) => "err no-file".into(),
                },
                Ok(Err(_)) => "err save".into(),
                Err(_) => "panic".into(),
            };
            let _ = std::fs::remove_file(&path);
            let _ = std::fs::remove_file(path.replace(".rdb", ".tmp"));
            out
        }
        ["load", h] => match of_hex(h) {
            None => "bad-op".into(),
            Some(bytes) => {
                let (r, path) = rdb(st);
                if std::fs::write(&path, &bytes).is_err() {
                    return "err write".into();
                }
                drop(bytes);
                let eng = StorageEngine::new();
                reset_alloc();
                let t0 = wall_ms();
                let res = catch_unwind(AssertUnwindSafe(|| r.load(&eng)));
                let t1 = wall_ms();
                let m = max_alloc();
                let _ = std::fs::remove_file(&path);
                st.eng = eng;
                match res {
                    Ok(Ok(())) => format!("ok {} {} {}", t0, t1, m),
                    Ok(Err(_)) => format!("err {} {} {}", t0, t1, m),
                    Err(_) => "panic".into(),
                }
            }
        },
        _ => "bad-op".into(),
    }
}

fn flat_pairs(v: Vec<Vec<u8>>) -> Option<Vec<(Vec<u8>, Vec<u8>)>> {
    if v.len() % 2 != 0 {
        return None;
    }
    let mut out = Vec::with_capacity(v.len() / 2);
    let mut it = v.into_iter();
    while let (Some(a), Some(b)) = (it.next(), it.next()) {
        out.push((a, b));
    }
    Some(out)
}

fn parse_id(s: &str) -> Option<StreamId> {
    let (a, b) = s.split_once('-')?;
    Some(StreamId::new(a.parse().ok()?, b.parse().ok()?))
}

/// Fill a fresh engine through the public engine API (the calls the command handlers make).
fn populate(eng: &Arc<StorageEngine>, toks: &[&str]) -> Option<()> {
    let mut i = 0;
    let mut db = 0usize;
    while i < toks.len() {
        match toks[i] {
            "D" => {
                db = toks.get(i + 1)?.parse().ok()?;
                i += 2;
            }
            "K" => {
                let key = of_hex(toks.get(i + 1)?)?;
                let ttl: Option<u64> = match *toks.get(i + 2)? {
                    "-" => None,
                    s => Some(s.parse().ok()?),
                };
                let ty = *toks.get(i + 3)?;
                i += 4;
                match ty {
                    "S" => {
                        let v = of_hex(toks.get(i)?)?;
                        i += 1;
                        eng.set_string(db, key.clone(), v).ok()?;
                    }
                    "L" => {
                        let xs = hex_list(toks.get(i)?)?;
                        i += 1;
                        eng.rpush(db, key.clone(), xs).ok()?;
                    }
                    "T" => {
                        let xs = hex_list(toks.get(i)?)?;
                        i += 1;
                        eng.sadd(db, key.clone(), xs).ok()?;
                    }
                    "H" => {
                        let fs = flat_pairs(hex_list(toks.get(i)?)?)?;
                        i += 1;
                        eng.hset(db, key.clone(), fs).ok()?;
                    }
                    "Z" => {
                        let zs = flat_pairs(hex_list(toks.get(i)?)?)?;
                        i += 1;
                        for (m, sc) in zs {
                            let b: [u8; 8] = sc.as_slice().try_into().ok()?;
                            eng.zadd(db, key.clone(), m, f64::from_le_bytes(b)).ok()?;
                        }
                    }
                    "X" => {
                        let n: usize = toks.get(i)?.parse().ok()?;
                        i += 1;
                        if n == 0 {
                            // an empty stream as commands produce it: XADD k 1-0 a b ; XDEL k 1-0
                            let mut f = HashMap::new();
                            f.insert(b"a".to_vec(), b"b".to_vec());
                            eng.xadd_with_id(db, key.clone(), StreamId::new(1, 0), f).ok()?;
                            eng.xdel(db, &key, vec![StreamId::new(1, 0)]).ok()?;
                        }
                        for _ in 0..n {
                            let id = parse_id(toks.get(i)?)?;
                            let fs = flat_pairs(hex_list(toks.get(i + 1)?)?)?;
                            i += 2;
                            let mut f = HashMap::new();
                            for (a, b) in fs {
                                f.insert(a, b);
                            }
                            eng.xadd_with_id(db, key.clone(), id, f).ok()?;
                        }
                    }
                    _ => return None,
                }
                if let Some(ms) = ttl {
                    eng.expire(db, &key, Duration::from_millis(ms)).ok()?;
                }
            }
            _ => return None,
        }
    }
    Some(())
}

/// Canonical dump read back through the engine's getters (`get_all_keys`, `get`, `ttl`).
fn dump(eng: &Arc<StorageEngine>) -> String {
    let now_us = wall_us();
    let mut out = format!("ok {}", now_us / 1000);
    for db in 0..eng.database_count() {
        let mut keys = match eng.get_all_keys(db) {
            Ok(k) => k,
            Err(_) => return "err keys".into(),
        };
        keys.sort();
        let mut first = true;
        for key in keys {
            // read the deadline first: `get` removes a key that expired meanwhile
            let ttl = eng.ttl(db, &key).ok().flatten();
            let t_us = wall_us();
            let val = match eng.get(db, &key) {
                Ok(GetResult::Found(v)) => v,
                _ => continue,
            };
            if first {
                out.push_str(&format!(" D {}", db));
                first = false;
            }
            let dl = match ttl {
                Some(d) => format!("{}", (t_us + d.as_micros()) / 1000),
                None => "-".into(),
            };
            out.push_str(&format!(" K {} {} ", to_hex(&key), dl));
            match val {
                Value::String(b) => out.push_str(&format!("S {}", to_hex(&b))),
                Value::List(l) => {
                    let v: Vec<Vec<u8>> = l.into_iter().collect();
                    out.push_str(&format!("L {}", show_hex_list(&v)));
                }
                Value::Set(s) => {
                    let mut v: Vec<Vec<u8>> = s.into_iter().collect();
                    v.sort();
                    out.push_str(&format!("T {}", show_hex_list(&v)));
                }
                Value::Hash(h) => {
                    let mut v: Vec<(Vec<u8>, Vec<u8>)> = h.into_iter().collect();
                    v.sort();
                    let flat: Vec<Vec<u8>> = v.into_iter().flat_map(|(a, b)| [a, b]).collect();
                    out.push_str(&format!("H {}", show_hex_list(&flat)));
                }
                Value::SortedSet(z) => {
                    let n = z.len();
                    let items = if n == 0 { vec![] } else { z.range_by_rank(0, n - 1).items };
                    let flat: Vec<Vec<u8>> = items.into_iter().flat_map(|(m, s)| [m, s.to_le_bytes().to_vec()]).collect();
                    out.push_str(&format!("Z {}", show_hex_list(&flat)));
                }
                Value::Stream(s) => {
                    let es = s.range(&StreamId::min(), &StreamId::max(), None, false).entries;
                    out.push_str(&format!("X {}", es.len()));
                    for e in es {
                        let mut v: Vec<(Vec<u8>, Vec<u8>)> = e.fields.into_iter().collect();
                        v.sort();
                        let flat: Vec<Vec<u8>> = v.into_iter().flat_map(|(a, b)| [a, b]).collect();
                        out.push_str(&format!(" {}-{} {}", e.id.millis(), e.id.seq(), show_hex_list(&flat)));
                    }
                }
            }
        }
    }
    out
}
