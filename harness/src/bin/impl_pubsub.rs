//! Family `pubsub` (C14): the real `ferrous::pubsub::PubSubManager` and `pattern_matches`,
//! same line protocol as lean/FerrousSpec/Drv/PubSub.lean (answers carry no `C`/`S` split:
//! there is only the implementation).  Sets that come out of a `HashSet` are printed sorted;
//! acknowledgement and receiver lists are printed in the order the code returned them.
use ferrous::pubsub::{pattern_matches, PubSubManager, SubResult, Subscription};
use std::panic::{catch_unwind, AssertUnwindSafe};
use std::sync::Arc;
use verif_harness::line_loop;
use verif_harness::util::*;

fn main() {
    line_loop(PubSubManager::new(), |m, ws| {
        if ws == ["reset"] {
            *m = PubSubManager::new();
            return "ok".into();
        }
        let mm = m.clone();
        match catch_unwind(AssertUnwindSafe(|| step(&mm, ws))) {
            Ok(s) => s,
            Err(_) => {
                // a panic may have poisoned a mutex: the session cannot continue on this object
                *m = PubSubManager::new();
                "panic".into()
            }
        }
    });
}

fn show_acks(rs: &[SubResult], want_pattern: bool) -> String {
    if rs.is_empty() {
        return ".".into();
    }
    rs.iter()
        .map(|r| {
            let (is_pat, name) = match &r.subscription {
                Subscription::Channel(c) => (false, c),
                Subscription::Pattern(p) => (true, p),
            };
            // the server handlers `unreachable!()` on the wrong variant: report it instead
            let tag = if is_pat == want_pattern { "" } else { "!wrong-variant" };
            format!("{},{},{}{}", to_hex(name), r.num_subscriptions, if r.is_new { 1 } else { 0 }, tag)
        })
        .collect::<Vec<_>>()
        .join("|")
}

fn sorted_hex(set: &std::collections::HashSet<Vec<u8>>) -> String {
    let mut v: Vec<Vec<u8>> = set.iter().cloned().collect();
    v.sort();
    show_hex_list(&v)
}

fn step(m: &Arc<PubSubManager>, ws: &[&str]) -> String {
    match ws {
        ["sub", c, k, hs] => {
            let (c, xs) = match (c.parse::<u64>(), hex_list(hs)) {
                (Ok(c), Some(xs)) => (c, xs),
                _ => return "bad-op".into(),
            };
            let r = match *k {
                "c" => m.subscribe(c, xs),
                "p" => m.psubscribe(c, xs),
                _ => return "bad-op".into(),
            };
            match r {
                Ok(rs) => show_acks(&rs, *k == "p"),
                Err(_) => "err".into(),
            }
        }
        ["unsub", c, k, hs] => {
            let c = match c.parse::<u64>() {
                Ok(c) => c,
                _ => return "bad-op".into(),
            };
            let xs = if *hs == "*" {
                None
            } else {
                match hex_list(hs) {
                    Some(xs) => Some(xs),
                    None => return "bad-op".into(),
                }
            };
            let r = match *k {
                "c" => m.unsubscribe(c, xs),
                "p" => m.punsubscribe(c, xs),
                _ => return "bad-op".into(),
            };
            match r {
                Ok(rs) => show_acks(&rs, *k == "p"),
                Err(_) => "err".into(),
            }
        }
        ["disc", c] => match c.parse::<u64>() {
            Ok(c) => match m.unsubscribe_all(c) {
                Ok(()) => "ok".into(),
                Err(_) => "err".into(),
            },
            _ => "bad-op".into(),
        },
        // the de-duplication flag and the publisher id only matter to the model
        ["pub", _d, _c, ch, msg] => match (of_hex(ch), of_hex(msg)) {
            (Some(ch), Some(msg)) => match m.publish(&ch, &msg) {
                Ok(rs) if rs.is_empty() => ".".into(),
                Ok(rs) => rs
                    .iter()
                    .map(|(c, p)| match p {
                        None => format!("{},_", c),
                        Some(p) => format!("{},{}", c, to_hex(p)),
                    })
                    .collect::<Vec<_>>()
                    .join("|"),
                Err(_) => "err".into(),
            },
            _ => "bad-op".into(),
        },
        ["info", c] => match c.parse::<u64>() {
            Ok(c) => {
                let present = m.is_subscribed(c);
                match m.get_subscription_info(c) {
                    Some(i) => format!(
                        "{} {} {}{}",
                        if present { 1 } else { 0 },
                        sorted_hex(&i.channels),
                        sorted_hex(&i.patterns),
                        if i.connection_id == c { "" } else { " !wrong-id" }
                    ),
                    None => format!("{} . .", if present { 1 } else { 0 }),
                }
            }
            _ => "bad-op".into(),
        },
        ["chcount", ch] => match of_hex(ch) {
            Some(ch) => format!("{}", m.channel_subscriber_count(&ch)),
            None => "bad-op".into(),
        },
        ["glob", p, t] => match (of_hex(p), of_hex(t)) {
            (Some(p), Some(t)) => (if pattern_matches(&p, &t) { "1" } else { "0" }).into(),
            _ => "bad-op".into(),
        },
        ["globs", p, ts] => match (of_hex(p), hex_list(ts)) {
            (Some(p), Some(ts)) => ts.iter().map(|t| if pattern_matches(&p, t) { '1' } else { '0' }).collect(),
            _ => "bad-op".into(),
        },
        _ => "bad-op".into(),
    }
}
