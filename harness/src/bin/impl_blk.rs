//! Family `blk` (C13), registry / wake-queue part: the real `ferrous::network::blocking::BlockingManager`
//! in-process, same `r…` lines as lean/FerrousSpec/Drv/Blocking.lean.
//!
//!   rnew                               -> ok
//!   rreg <c> <L|R> <keys> <inf|past|future>  -> ok      register_blocked(db 0, c, keys, op, deadline)
//!   rnotify <k>                        -> ok            notify_key_ready(0, k)
//!   rhas <k>                           -> 0|1           has_blocked_clients(0, k)
//!   rwake                              -> c@k@op,…|.    one call of process_wakeups (drains at most 32)
//!   runreg <c>                         -> ok            unregister_client(0, c)
//!   rexpire                            -> c,c,…|.       process_timeouts: expired connection ids, sorted, de-duplicated
//!   rdump                              -> reg=k:c+c;… wq=<n>   registry of db 0 sorted by key, wake-queue length
//!
//! Deadlines: `past` = one second ago (expired at the next scan), `future` = in one hour, `inf` = none.
use ferrous::network::blocking::BlockingManager;
use ferrous::network::connection::BlockingOp;
use std::panic::{catch_unwind, AssertUnwindSafe};
use std::time::{Duration, Instant};
use verif_harness::line_loop;
use verif_harness::util::*;

fn main() {
    line_loop(BlockingManager::new(16), |m, ws| {
        if ws == ["rnew"] {
            *m = BlockingManager::new(16);
            return "ok".into();
        }
        match catch_unwind(AssertUnwindSafe(|| step(m, ws))) {
            Ok(s) => s,
            Err(_) => {
                *m = BlockingManager::new(16);
                "panic".into()
            }
        }
    });
}

fn show_op(op: &BlockingOp) -> &'static str {
    match op {
        BlockingOp::BLPop => "L",
        BlockingOp::BRPop => "R",
        _ => "X",
    }
}

fn step(m: &BlockingManager, ws: &[&str]) -> String {
    match ws {
        ["rreg", c, op, ks, dl] => {
            let (c, keys) = match (c.parse::<u64>(), hex_list(ks)) {
                (Ok(c), Some(k)) => (c, k),
                _ => return "bad-op".into(),
            };
            let op = match *op {
                "L" => BlockingOp::BLPop,
                "R" => BlockingOp::BRPop,
                _ => return "bad-op".into(),
            };
            let now = Instant::now();
            let deadline = match *dl {
                "inf" => None,
                "past" => Some(now.checked_sub(Duration::from_secs(1)).unwrap_or(now)),
                "future" => Some(now + Duration::from_secs(3600)),
                _ => return "bad-op".into(),
            };
            match m.register_blocked(0, c, keys, op, deadline) {
                Ok(()) => "ok".into(),
                Err(_) => "err".into(),
            }
        }
        ["rnotify", k] => match of_hex(k) {
            Some(k) => {
                m.notify_key_ready(0, &k);
                "ok".into()
            }
            None => "bad-op".into(),
        },
        ["rhas", k] => match of_hex(k) {
            Some(k) => (if m.has_blocked_clients(0, &k) { "1" } else { "0" }).into(),
            None => "bad-op".into(),
        },
        ["rwake"] => {
            let ws = m.process_wakeups();
            if ws.is_empty() {
                return ".".into();
            }
            ws.iter().map(|w| format!("{}@{}@{}", w.conn_id, to_hex(&w.key), show_op(&w.op_type))).collect::<Vec<_>>().join(",")
        }
        ["runreg", c] => match c.parse::<u64>() {
            Ok(c) => match m.unregister_client(0, c) {
                Ok(()) => "ok".into(),
                Err(_) => "err".into(),
            },
            Err(_) => "bad-op".into(),
        },
        ["rexpire"] => {
            let mut ids = m.process_timeouts();
            ids.sort();
            ids.dedup();
            if ids.is_empty() {
                return ".".into();
            }
            ids.iter().map(|c| c.to_string()).collect::<Vec<_>>().join(",")
        }
        ["rdump"] => {
            let reg = m.verif_registry_dump(0);
            let r = if reg.is_empty() {
                ".".to_string()
            } else {
                reg.iter()
                    .map(|(k, cs)| format!("{}:{}", to_hex(k), cs.iter().map(|c| c.to_string()).collect::<Vec<_>>().join("+")))
                    .collect::<Vec<_>>()
                    .join(";")
            };
            format!("reg={} wq={}", r, m.verif_wake_queue_len())
        }
        _ => "bad-op".into(),
    }
}
