//! Hex transport and frame s-expressions (mirror of lean/FerrousSpec/Drv/Util.lean).
use ferrous::protocol::RespFrame;
use std::sync::Arc;

pub fn to_hex(b: &[u8]) -> String {
    if b.is_empty() { return "-".into(); }
    let mut s = String::with_capacity(b.len() * 2);
    for x in b { s.push_str(&format!("{:02x}", x)); }
    s
}
pub fn of_hex(s: &str) -> Option<Vec<u8>> {
    if s == "-" { return Some(vec![]); }
    if s.len() % 2 != 0 { return None; }
    let b = s.as_bytes();
    let mut out = Vec::with_capacity(b.len() / 2);
    for i in (0..b.len()).step_by(2) {
        let h = (b[i] as char).to_digit(16)?;
        let l = (b[i + 1] as char).to_digit(16)?;
        out.push((h * 16 + l) as u8);
    }
    Some(out)
}
pub fn hex_list(s: &str) -> Option<Vec<Vec<u8>>> {
    if s == "." { return Some(vec![]); }
    s.split('|').map(of_hex).collect()
}
pub fn show_hex_list(v: &[Vec<u8>]) -> String {
    if v.is_empty() { return ".".into(); }
    v.iter().map(|b| to_hex(b)).collect::<Vec<_>>().join("|")
}

/// Doubles are printed as their IEEE bit pattern: `( D 3ff0000000000000 )`.
pub fn show_frame(f: &RespFrame) -> String {
    match f {
        RespFrame::SimpleString(b) => format!("( s {} )", to_hex(b)),
        RespFrame::Error(b) => format!("( e {} )", to_hex(b)),
        RespFrame::Integer(n) => format!("( i {} )", n),
        RespFrame::BulkString(Some(b)) => format!("( b {} )", to_hex(b)),
        RespFrame::BulkString(None) => "( nb )".into(),
        RespFrame::Array(Some(xs)) => format!("( a{} )", show_frames(xs)),
        RespFrame::Array(None) => "( na )".into(),
        RespFrame::NoResponse => "( noresponse )".into(),
        RespFrame::Null => "( n )".into(),
        RespFrame::Boolean(true) => "( t )".into(),
        RespFrame::Boolean(false) => "( f )".into(),
        RespFrame::Double(d) => format!("( D {:016x} )", d.to_bits()),
        RespFrame::Map(ps) => {
            let mut s = String::from("( m");
            for (k, v) in ps { s.push(' '); s.push_str(&show_frame(k)); s.push(' '); s.push_str(&show_frame(v)); }
            s.push_str(" )");
            s
        }
        RespFrame::Set(xs) => format!("( S{} )", show_frames(xs)),
    }
}
fn show_frames(xs: &[RespFrame]) -> String {
    let mut s = String::new();
    for x in xs { s.push(' '); s.push_str(&show_frame(x)); }
    s
}

pub fn read_frame<'a>(t: &'a [&'a str]) -> Option<(RespFrame, &'a [&'a str])> {
    if t.len() < 3 || t[0] != "(" { return None; }
    let bytes = |h: &str| of_hex(h).map(Arc::new);
    match t[1] {
        "s" if t.len() >= 4 && t[3] == ")" => Some((RespFrame::SimpleString(bytes(t[2])?), &t[4..])),
        "e" if t.len() >= 4 && t[3] == ")" => Some((RespFrame::Error(bytes(t[2])?), &t[4..])),
        "i" if t.len() >= 4 && t[3] == ")" => Some((RespFrame::Integer(t[2].parse().ok()?), &t[4..])),
        "b" if t.len() >= 4 && t[3] == ")" => Some((RespFrame::BulkString(Some(bytes(t[2])?)), &t[4..])),
        "D" if t.len() >= 4 && t[3] == ")" => Some((RespFrame::Double(f64::from_bits(u64::from_str_radix(t[2], 16).ok()?)), &t[4..])),
        "nb" if t[2] == ")" => Some((RespFrame::BulkString(None), &t[3..])),
        "na" if t[2] == ")" => Some((RespFrame::Array(None), &t[3..])),
        "n" if t[2] == ")" => Some((RespFrame::Null, &t[3..])),
        "t" if t[2] == ")" => Some((RespFrame::Boolean(true), &t[3..])),
        "f" if t[2] == ")" => Some((RespFrame::Boolean(false), &t[3..])),
        "noresponse" if t[2] == ")" => Some((RespFrame::NoResponse, &t[3..])),
        "a" => { let (xs, r) = read_frames(&t[2..])?; Some((RespFrame::Array(Some(xs)), r)) }
        "S" => { let (xs, r) = read_frames(&t[2..])?; Some((RespFrame::Set(xs), r)) }
        "m" => {
            let (xs, r) = read_frames(&t[2..])?;
            if xs.len() % 2 != 0 { return None; }
            let mut ps = Vec::new();
            let mut it = xs.into_iter();
            while let (Some(k), Some(v)) = (it.next(), it.next()) { ps.push((k, v)); }
            Some((RespFrame::Map(ps), r))
        }
        _ => None,
    }
}
fn read_frames<'a>(mut t: &'a [&'a str]) -> Option<(Vec<RespFrame>, &'a [&'a str])> {
    let mut out = Vec::new();
    loop {
        if t.is_empty() { return None; }
        if t[0] == ")" { return Some((out, &t[1..])); }
        let (f, r) = read_frame(t)?;
        out.push(f);
        t = r;
    }
}
