//! In-process implementation driver: speaks the same line protocol as the Lean
//! `driver`, but every answer comes from the real ferrous code (path dependency
//! on /repo, feature `verif`).  One request per line, one answer per line.

use std::alloc::{GlobalAlloc, Layout, System};
use std::io::{BufRead, Write};
use std::sync::atomic::{AtomicUsize, Ordering};

mod util;
mod resp;

/// Allocator wrapper: records the largest single request since the last reset and
/// refuses (after saying so on stderr) requests above `LIMIT`, so that a length
/// field turned into an allocation is observed instead of being left to the OS.
pub struct Tracking;
pub static MAX_REQ: AtomicUsize = AtomicUsize::new(0);
pub const LIMIT: usize = 1 << 30;

unsafe impl GlobalAlloc for Tracking {
    unsafe fn alloc(&self, l: Layout) -> *mut u8 {
        note(l.size());
        if l.size() > LIMIT { refuse(l.size()); return std::ptr::null_mut(); }
        System.alloc(l)
    }
    unsafe fn dealloc(&self, p: *mut u8, l: Layout) { System.dealloc(p, l) }
    unsafe fn alloc_zeroed(&self, l: Layout) -> *mut u8 {
        note(l.size());
        if l.size() > LIMIT { refuse(l.size()); return std::ptr::null_mut(); }
        System.alloc_zeroed(l)
    }
    unsafe fn realloc(&self, p: *mut u8, l: Layout, n: usize) -> *mut u8 {
        note(n);
        if n > LIMIT { refuse(n); return std::ptr::null_mut(); }
        System.realloc(p, l, n)
    }
}
fn note(n: usize) { MAX_REQ.fetch_max(n, Ordering::Relaxed); }
fn refuse(n: usize) {
    // no allocation here: format into a stack buffer
    let mut buf = [0u8; 64];
    let mut i = buf.len();
    let mut v = n;
    if v == 0 { i -= 1; buf[i] = b'0'; }
    while v > 0 { i -= 1; buf[i] = b'0' + (v % 10) as u8; v /= 10; }
    let pre = b"ALLOC-REFUSED ";
    unsafe {
        libc_write(2, pre.as_ptr(), pre.len());
        libc_write(2, buf[i..].as_ptr(), buf.len() - i);
        libc_write(2, b"\n".as_ptr(), 1);
    }
}
extern "C" { #[link_name = "write"] fn libc_write(fd: i32, p: *const u8, n: usize) -> isize; }

#[global_allocator]
static A: Tracking = Tracking;

pub fn reset_alloc() { MAX_REQ.store(0, Ordering::Relaxed); }
pub fn max_alloc() -> usize { MAX_REQ.load(Ordering::Relaxed) }

fn main() {
    std::panic::set_hook(Box::new(|_| {}));
    let args: Vec<String> = std::env::args().collect();
    if args.len() < 2 { eprintln!("usage: impl_driver <family>"); std::process::exit(2); }
    let fam = args[1].clone();
    let stdin = std::io::stdin();
    let stdout = std::io::stdout();
    let mut out = stdout.lock();
    let mut st = State::new(&fam);
    for line in stdin.lock().lines() {
        let line = match line { Ok(l) => l, Err(_) => break };
        let ws: Vec<&str> = line.split_whitespace().collect();
        let ans = st.step(&ws);
        let _ = writeln!(out, "{}", ans);
        let _ = out.flush();
    }
}

enum State { Resp }
impl State {
    fn new(f: &str) -> State {
        match f {
            "resp" => State::Resp,
            _ => { eprintln!("unknown family {}", f); std::process::exit(2) }
        }
    }
    fn step(&mut self, ws: &[&str]) -> String {
        match self {
            State::Resp => resp::step(ws),
        }
    }
}
