#!/bin/sh
# usage: tools/run_all.sh [tier] [ids…]   — runs the checks 4 at a time, prints one summary line each
cd "$(dirname "$0")/.."
TIER=${1:-quick}; shift 2>/dev/null
IDS=${*:-$(python3 -c "import json;print(' '.join(c['property_id'] for c in json.load(open('MANIFEST.json'))['checks']))")}
mkdir -p .cache/runall
# the whole library must build as one (setup.sh does `lake build`): catches name clashes between generated/per-property modules
python3 translator/extract.py >/dev/null && (cd lean && ../tools/lake-locked build 2>&1 | grep -E "^error|error:" | head -5)
echo $IDS | tr ' ' '\n' | xargs -P 4 -I{} sh -c "timeout 7200 ./check {} --tier $TIER > .cache/runall/{}.log 2>&1; echo \"{} rc=\$? \$(grep -E '^(OK|VIOLATION|INTERNAL)' .cache/runall/{}.log | tail -1 | cut -c1-150)\""
