import json,sys
props={json.loads(l)['id']:json.loads(l) for l in open('/verif/properties.jsonl')}
pid=sys.argv[1]; n=sys.argv[2] if len(sys.argv)>2 else "2"
p=props[pid]
print(f"""You are a code-mutation engineer. You work ONLY inside the scratch git worktree /tmp/mut-{pid} (a checkout of a Rust project: "ferrous", a Redis-compatible in-memory key-value server; `cargo` works offline: always pass --offline). Do NOT read, list or touch anything under /verif or /repo, and do not look at other /tmp directories; everything you need is in your worktree. 

The project is supposed to satisfy this property:

TITLE: {p['title']}
STATEMENT: {p['statement']}
QUANTIFIER: {p['quantifier']['text']}
RELEVANT FILES: {', '.join(p['anchors']['files'])}

Your job: produce {n} DIFFERENT, INDEPENDENT, realistic changes to the source code (each a small patch, like a plausible refactoring slip, off-by-one, wrong comparison, missing case, reordered statements, dropped update, wrong variable, changed constant) such that EACH ONE ALONE makes the project VIOLATE the property above, while the project still compiles and its existing test suite still passes (`cargo test --offline` in the worktree; it takes ~1-2 min; all tests must pass with your change). Prefer changes that need something SPECIFIC to manifest — a particular multi-step sequence of operations, an unusual or boundary input, a particular interleaving or chunking, a fault at a particular point, or two cooperating sites that each look fine alone — NOT ones that ordinary use would expose at once (do not break the basic happy path: e.g. plain SET/GET, a simple PING, a simple pipeline must keep working). Do not add code that is obviously malicious or gated on magic values (no `if key == "xyz"`); the change must look like an honest mistake. Do not touch tests, Cargo.toml features, or anything under `#[cfg(feature = "verif")]` / src/verif.rs (instrumentation) — leave those as they are.

For each change i = 1..{n}, write into the directory /tmp/mut-{pid}-out/m<i>/ (create it):
 - patch.diff : `git diff` of the change against the worktree HEAD (one change only; reset the worktree with `git checkout -- .` between changes),
 - demo.py (preferred; python3 with only the standard library: start the server binary `target/debug/ferrous --port <free port> --dir <tmpdir>` that you built with `cargo build --offline`, talk RESP over a socket, exit 0 if the property holds on your scenario and exit 1 with a message if it is violated; the demo takes the PATH OF THE SERVER BINARY as its optional first argument, default the worktree's target/debug/ferrous) OR demo.rs / a shell script if a Python client cannot reach the behaviour (e.g. a library-level function: then a small Rust test file to drop into tests/ with instructions),
 - notes.md : what the change is, which part of the property it breaks, what exactly is needed for it to manifest, and the commands you ran with their outcome: the demo FAILS (exit 1) with the change and PASSES (exit 0) without it, and `cargo test --offline` passes with the change.
You MUST actually run these verifications yourself (build without the patch, run demo → pass; apply patch, build, run demo → fail; run cargo test with the patch → all pass) and report the truth; if a candidate does not satisfy all three conditions, discard it and find another. Use timeouts on every command (`timeout 600 ...`); the server must be killed at the end of each demo. When done, leave the worktree clean (`git checkout -- .`) and reply with a short summary listing the {n} changes.""")
