#!/usr/bin/env python3
"""Verify a seeded change and run checks against it, WITHOUT touching /repo's working tree.

usage: tools/run_seeded.py <dir with patch.diff + demo.py [+ notes.md]> <name> <property id> <check id> [<check id> …] [--skip-verify]

1. fresh scratch worktree of /repo HEAD at /tmp/seedrun (shared cargo target /tmp/seedrun-target);
2. verification of the seeded change itself: demo exits 0 without the patch, 1 with it; `cargo test --offline` passes with it;
3. each check is run against the patched worktree in an isolated copy of the Lean workspace and cache
   (FERROUS_REPO, VERIF_CACHE, VERIF_LEAN, VERIF_EVIDENCE, VERIF_REPLAYS), so that the shared /verif
   state and /repo are not disturbed;  (the official way — `git -C /repo apply`, check, `git -C /repo checkout -- .` — is equivalent)
4. the result is stored under /verif/seeded/<name>/ (patch.diff, demo, notes.md, meta.json).
The scratch worktree is removed at the end.
"""
import json
import os
import shutil
import subprocess
import sys
import time

VERIF = os.path.dirname(os.path.dirname(os.path.abspath(__file__)))
TAG = os.environ.get("SEEDRUN_TAG", "")      # concurrent runs use different tags (own worktree, cargo target and cache copy)
WT = "/tmp/seedrun" + TAG
TGT = "/tmp/seedrun-target" + TAG
MUT = os.path.join(VERIF, ".cache-mut" + TAG)


def sh(cmd, cwd=None, env=None, timeout=1800):
    p = subprocess.run(cmd, cwd=cwd, env=env, shell=isinstance(cmd, str), stdout=subprocess.PIPE, stderr=subprocess.STDOUT, text=True, timeout=timeout)
    return p.returncode, p.stdout


def run_demo(demo, binp, env):
    """Demos take the binary path, the worktree path, or nothing as their argument; try in that order."""
    for arg in ([binp], [WT], []):
        rc, out = sh([sys.executable, demo] + arg, cwd=WT, env=env, timeout=600)
        if rc in (0, 1) and "NotADirectoryError" not in out and "FileNotFoundError" not in out and "Traceback" not in out:
            return rc, out
    return rc, out


def main():
    args = [a for a in sys.argv[1:] if not a.startswith("--")]
    skip = "--skip-verify" in sys.argv
    src, name, prop = args[0], args[1], args[2]
    checks = args[3:]
    patch = os.path.join(src, "patch.diff")
    demo = os.path.join(src, "demo.py")
    meta = {"name": name, "property": prop, "source_dir": src, "ran": [], "checks": {}}
    sh("git -C /repo worktree remove --force %s 2>/dev/null; rm -rf %s" % (WT, WT))
    rc, out = sh("git -C /repo worktree add -q %s HEAD" % WT)
    assert rc == 0, out
    os.makedirs(TGT, exist_ok=True)
    os.symlink(TGT, os.path.join(WT, "target"))
    env = dict(os.environ, CARGO_NET_OFFLINE="true", CARGO_TARGET_DIR=TGT, FERROUS_BIN=os.path.join(TGT, "debug", "ferrous"))
    # demos written against the seeding agent's own worktree path (/tmp/mut-<id>) find the scratch worktree there
    alias = None
    m = __import__("re").search(r"/tmp/mut-[A-Za-z0-9]+", src)
    if m:
        alias = m.group(0).split("-out")[0]
        if not os.path.exists(alias):
            os.symlink(WT, alias)
        else:
            alias = None
    head = sh("git -C /repo rev-parse --short HEAD")[1].strip()
    meta["repo_head"] = head
    try:
        binp = os.path.join(TGT, "debug", "ferrous")
        if not skip:
            rc, out = sh("cargo build --offline --quiet 2>&1 | tail -3", cwd=WT, env=env)
            rc0, out0 = run_demo(demo, binp, env)
            meta["ran"].append({"cmd": "demo without patch", "rc": rc0, "tail": out0[-300:]})
        rc, out = sh("git apply %s" % patch, cwd=WT)
        if rc != 0:
            rc, out = sh("git apply -3 %s" % patch, cwd=WT)
        meta["ran"].append({"cmd": "git apply patch.diff (on HEAD %s)" % head, "rc": rc, "tail": out[-300:]})
        if rc != 0:
            print("PATCH DOES NOT APPLY:", out[-500:])
            return 2
        if not skip:
            rc, out = sh("cargo build --offline --quiet 2>&1 | tail -5", cwd=WT, env=env)
            rc1, out1 = run_demo(demo, binp, env)
            meta["ran"].append({"cmd": "demo with patch", "rc": rc1, "tail": out1[-400:]})
            rct, outt = sh("cargo test --offline 2>&1 | grep -E 'test result|FAILED|panicked' | head -20", cwd=WT, env=env, timeout=2400)
            failed = "FAILED" in outt or " failed;" in outt and not all(" 0 failed" in l for l in outt.splitlines() if "test result" in l)
            meta["ran"].append({"cmd": "cargo test --offline with patch", "tests_pass": not failed, "tail": outt[-600:]})
            meta["verified"] = (rc0 == 0 and rc1 == 1 and not failed)
            print("verification: demo clean rc=%d, demo patched rc=%d, tests pass=%s => %s" % (rc0, rc1, not failed, "OK" if meta["verified"] else "NOT A VALID SEEDED CHANGE"))
        # ---- isolated check runs
        os.makedirs(MUT, exist_ok=True)
        sh("rsync -a --delete %s/lean/ %s/lean/" % (VERIF, MUT))
        cenv = dict(os.environ, FERROUS_REPO=WT, VERIF_CACHE=MUT, VERIF_LEAN=os.path.join(MUT, "lean"),
                    VERIF_EVIDENCE=os.path.join(MUT, "evidence"), VERIF_REPLAYS=os.path.join(MUT, "replays"), CARGO_NET_OFFLINE="true")
        cenv.pop("CARGO_TARGET_DIR", None)
        for c in checks:
            t0 = time.time()
            rc, out = sh([os.path.join(VERIF, "check"), c], cwd=VERIF, env=cenv, timeout=3000)
            open(os.path.join(MUT, "last_%s.log" % c), "w").write(out)
            vio = [l for l in out.splitlines() if l.startswith(("VIOLATION", "INTERNAL-ERROR", "OK "))]
            det = [l.strip() for l in out.splitlines() if "violation detail" in l][:3]
            meta["checks"][c] = {"rc": rc, "line": vio[-1] if vio else out[-300:], "detail": det, "wall_s": round(time.time() - t0, 1)}
            print("check %s: rc=%d %s" % (c, rc, (vio[-1] if vio else "")[:200]))
            for d in det:
                print("   ", d[:300])
            # keep the replay next to the seeded change
            if vio and "replay=" in vio[-1]:
                rp = vio[-1].split("replay=")[1].split()[0]
                if os.path.exists(rp):
                    os.makedirs(os.path.join(VERIF, "seeded", name), exist_ok=True)
                    shutil.copy(rp, os.path.join(VERIF, "seeded", name, "replay_%s.json" % c))
        dst = os.path.join(VERIF, "seeded", name)
        os.makedirs(dst, exist_ok=True)
        if os.path.realpath(src) != os.path.realpath(dst):
            shutil.copy(patch, os.path.join(dst, "patch.diff"))
            if os.path.exists(demo):
                shutil.copy(demo, os.path.join(dst, "demo.py"))
            if os.path.exists(os.path.join(src, "notes.md")):
                shutil.copy(os.path.join(src, "notes.md"), os.path.join(dst, "notes.md"))
        old = {}
        mp = os.path.join(dst, "meta.json")
        if os.path.exists(mp):
            old = json.load(open(mp))
            if skip:
                for k in ("verified", "ran"):
                    if k in old:
                        meta[k] = old[k]
            oc = old.get("checks", {})
            oc.update(meta["checks"])
            meta["checks"] = oc
        json.dump(meta, open(mp, "w"), indent=1)
    finally:
        if alias and os.path.islink(alias):
            os.unlink(alias)
        sh("git -C /repo worktree remove --force %s" % WT)
    return 0


if __name__ == "__main__":
    sys.exit(main())
