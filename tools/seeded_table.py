#!/usr/bin/env python3
"""Prints the DESIGN.md section-8 table from seeded/*/meta.json (and the first line of each notes.md)."""
import glob
import json
import os
import re

VERIF = os.path.dirname(os.path.dirname(os.path.abspath(__file__)))
rows = []
for m in sorted(glob.glob(os.path.join(VERIF, "seeded", "*", "meta.json"))):
    d = json.load(open(m))
    notes = os.path.join(os.path.dirname(m), "notes.md")
    title = ""
    if os.path.exists(notes):
        for l in open(notes):
            if l.strip().startswith("#"):
                title = re.sub(r"^#+\s*(C\d\d\s*/\s*)?m\d\s*[-—–:]*\s*", "", l.strip())
                break
    conc, alarm, miss, other = [], [], [], []
    for c, v in sorted(d.get("checks", {}).items()):
        if v["rc"] == 1 and "no-failing-input-found" not in v["line"]:
            conc.append(c)
        elif v["rc"] == 1:
            alarm.append(c)
        elif v["rc"] == 0:
            miss.append(c)
        else:
            other.append("%s(rc=%s)" % (c, v["rc"]))
    how = ""
    for c in conc[:1]:
        det = d["checks"][c].get("detail") or []
        if det:
            how = re.sub(r"\s*->\s*/\S+.*$", "", det[0].replace("violation detail:", "").strip())[:160]
    rows.append("| `%s` | %s | %s | %s | %s | %s | %s |" % (d["name"], d["property"], title[:110].replace("|", "/"), ", ".join(conc) or "—",
                                                       ", ".join(alarm) or "—", ", ".join(miss + other) or "—", how.replace("|", "/")))
print("| Seeded change | Breaks | What it is | Caught with a concrete input by | Alarm without input | Not caught by | How (first catching check) |")
print("|---|---|---|---|---|---|---|")
print("\n".join(rows))
