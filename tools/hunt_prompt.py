import json,sys
props={json.loads(l)['id']:json.loads(l) for l in open('/verif/properties.jsonl')}
pid=sys.argv[1]
p=props[pid]
print(f"""You are a bug hunter. You work ONLY inside the scratch git worktree /tmp/hunt-{pid} (a checkout of a Rust project: "ferrous", a Redis-compatible in-memory key-value server; `cargo` works offline: always pass --offline). Do NOT read, list or touch anything under /verif or /repo, and do not look at other /tmp directories; everything you need is in your worktree.

The project is SUPPOSED to satisfy this property:

TITLE: {p['title']}
STATEMENT: {p['statement']}
QUANTIFIER: {p['quantifier']['text']}
RELEVANT FILES: {', '.join(p['anchors']['files'])}

The code has already been repaired many times for this property (see `git log --oneline | head -150`: the `fix:` commits), so the easy defects are gone. Your job: find inputs, command sequences, interleavings of several connections, TCP segmentations, restarts or timings on which the code AS IT IS NOW (unchanged worktree HEAD) still VIOLATES the property — genuine defects, not deliberate changes. Read the relevant code paths closely (and the code they call), think about boundary values, rarely used options, error paths that leave state behind, interactions between features (transactions, scripts, blocking pops, pub/sub, expiry, persistence, several databases, binary/empty/huge arguments), then CONFIRM each suspicion against the real server: build it once (`timeout 1800 cargo build --offline`), start `target/debug/ferrous --port <free port> --dir <tmpdir>` (options: `--requirepass P`, `--appendonly yes`, a config file path as first argument; the server has a slow test command `SLEEP <ms>` that stalls the event loop, useful for forcing two events into one loop iteration), talk RESP over a socket from python3 (standard library only). Judge by what real Redis does / what the property text says, not by what is convenient. Deviations in numeric argument SYNTAX (accepting `+5`, `007`, `-0` where Redis refuses) are known and out of scope; so are the four Lua conversion rows pinned by the repo's tests (nil bulk -> Lua nil, status reply -> string, false -> :0, fractional number -> bulk string), commands that exist only inside scripts, and random draws inside scripts being logged verbatim in the AOF.

For each CONFIRMED defect i (at most 4; quality over quantity; none is an acceptable answer), write into /tmp/hunt-{pid}-out/d<i>/ (create it):
 - demo.py : python3, standard library only; takes the PATH OF THE SERVER BINARY as optional first argument (default /tmp/hunt-{pid}/target/debug/ferrous); starts the server on a free port with a temp dir, runs the scenario, prints what it saw, exits 1 if the property is violated and 0 if it holds; kills the server at the end; deterministic or repeated enough times to be reliable.
 - notes.md : the defect (which clause of the property, which code path: file, function, lines), the minimal scenario, actual vs expected behaviour, the output of your demo run, and — if you see one — the smallest repair you would propose (do NOT apply it).
Use timeouts on every command. Do not modify the worktree sources. When done reply with a short summary: the confirmed defects (one paragraph each), and the suspicions you examined and ruled out (one line each) so that others need not repeat them.""")
