#!/usr/bin/env python3
"""Exploration aid (not a check): run key-space histories and print the distinct classes of
implementation-vs-reference disagreements with one example each."""
import sys, os
sys.path.insert(0, os.path.join(os.path.dirname(os.path.abspath(__file__)), "..", "lib"))
from common import *
from ks import KsSession
import ksgen

def main():
    build_server()
    vocab = ksgen.STRING_VOCAB if sys.argv[1] == "str" else ksgen.COLL_VOCAB
    n = int(sys.argv[2]) if len(sys.argv) > 2 else 200
    rep = Report("X", "quick", 1)
    sess = KsSession(rep, "explore", ksgen.code_quirks())
    r = Rng(int(sys.argv[3]) if len(sys.argv) > 3 else 7)
    seen = {}
    for h in range(n):
        sess.fresh()
        g = ksgen.Gen(r.fork("h%d" % h), vocab)
        for a in g.setup():
            sess.do(a)
        for i in range(r.range(20, 50)):
            args = g.command()
            impl, code = sess.do(args)
            name = args[0].decode("latin-1").upper()
            if impl != sess.last_spec or impl != code or not sess.last_same:
                key = (name, impl[:14], sess.last_spec[:14], code[:14], sess.last_same)
                if key not in seen:
                    seen[key] = (1, [a.decode("latin-1") for a in args], impl, sess.last_spec, code, [[x.decode("latin-1") for x in hh[0]] for hh in sess.history[-4:-1]])
                else:
                    seen[key] = (seen[key][0] + 1,) + seen[key][1:]
            if impl != code:
                break
            if os.environ.get("DUMP_EACH"):
                di, dm = sess.dump_impl(), sess.dump_model()
                if di != dm:
                    key = ("STATE", name)
                    if key not in seen:
                        seen[key] = (1, [a.decode("latin-1") for a in args], impl, di, dm)
                    break
        else:
            di, dm = sess.dump_impl(), sess.dump_model()
            if di != dm:
                key = ("DUMP",)
                if key not in seen:
                    seen[key] = (1, di, dm, [[x.decode("latin-1") for x in hh[0]] for hh in sess.history])
    sess.close()
    for k, v in sorted(seen.items()):
        print(k, v)
        print()

main()
