"""C14 — pub/sub delivers exactly once per matching subscription; acknowledgement counts;
nothing after unsubscribe/disconnect; publish order; the glob matcher.

Deciding artefact: lean/FerrousSpec/Props/C14.lean (invariant of the three maps for every
history, acknowledgement counts, delivery = one per matching subscription, glob matcher =
declarative meaning of `* ? \\x`).  This module ties `Ferrous.PubSub.*` to the real
`ferrous::pubsub::PubSubManager` / `pattern_matches` (in-process) and to the real server over
TCP (per-connection streams), and evaluates the property's own oracle — an independent
set-of-subscriptions model and a regex rendering of the glob grammar, both written here — on
the implementation.
"""
import itertools
import socket
import time

from common import *

PENDING_FINDINGS = os.path.join(VERIF, "pending_repo_patches", "C14_findings.json")

# ------------------------------------------------------------------ the independent oracle
_glob_cache = {}


def glob_regex(p: bytes):
    """Declarative meaning of a pattern (Redis's glob, `stringmatchlen`), rendered as a regular expression
    (independent of the Lean definitions): `*` any run, `?` one byte, `\\x` the byte x, `[...]` / `[^...]` one byte
    that is / is not a member — `\\x` inside a class is the member x, `]` closes it, `a-b` is the range between the two
    bytes in either order (also `a-]`), a class without `]` runs to the end of the pattern — a final `\\` and
    anything else itself."""
    r = _glob_cache.get(p)
    if r is None:
        out, i = [], 0
        while i < len(p):
            c = p[i:i + 1]
            if c == b"*":
                out.append(b".*")
            elif c == b"?":
                out.append(b".")
            elif c == b"[":
                i += 1
                neg = i < len(p) and p[i] == 0x5E
                if neg:
                    i += 1
                members = set()
                while i < len(p):
                    if p[i] == 0x5C and i + 1 < len(p):
                        members.add(p[i + 1])
                        i += 2
                    elif p[i] == 0x5D:
                        i += 1
                        break
                    elif i + 2 < len(p) and p[i + 1] == 0x2D:
                        lo, hi = sorted((p[i], p[i + 2]))
                        members.update(range(lo, hi + 1))
                        i += 3
                    else:
                        members.add(p[i])
                        i += 1
                if neg:
                    members = set(range(256)) - members
                out.append(b"(?!)" if not members else b"[" + b"".join(b"\\x%02x" % m for m in sorted(members)) + b"]")
                continue
            elif c == b"\\" and i + 1 < len(p):
                out.append(re.escape(p[i + 1:i + 2]))
                i += 1
            else:
                out.append(re.escape(c))
            i += 1
        r = _glob_cache[p] = re.compile(b"".join(out), re.S)
    return r


def spec_glob(p: bytes, s: bytes) -> bool:
    return glob_regex(p).fullmatch(s) is not None


class Oracle:
    """The property as given: a set of subscriptions per connection, nothing else."""

    def __init__(self):
        self.held = {}   # conn -> {"c": [names...], "p": [names...]} (insertion order, no duplicates)

    def h(self, c):
        return self.held.setdefault(c, {"c": [], "p": []})

    def count(self, c):
        h = self.h(c)
        return len(h["c"]) + len(h["p"])

    def sub(self, c, k, names):
        acks = []
        for n in names:
            l = self.h(c)[k]
            new = n not in l
            if new:
                l.append(n)
            acks.append((n, self.count(c), new))
        return acks

    def unsub(self, c, k, names):
        """names None = all.  One acknowledgement per name (Redis: also when nothing is held)."""
        l = self.h(c)[k]
        todo = list(l) if names is None else names
        acks = []
        for n in todo:
            if n in l:
                l.remove(n)
            acks.append((n, self.count(c), False))
        return acks

    def disc(self, c):
        self.held.pop(c, None)

    def deliveries(self, ch):
        out = []
        for c, h in self.held.items():
            if ch in h["c"]:
                out.append((c, None))
            for p in h["p"]:
                if spec_glob(p, ch):
                    out.append((c, p))
        return out


# ------------------------------------------------------------------ transport helpers
def parse_acks(s):
    if s == ".":
        return []
    out = []
    for it in s.split("|"):
        n, cnt, new = it.split(",")
        out.append((unhx(n), int(cnt), new == "1"))
    return out


def parse_dels(s):
    if s == ".":
        return []
    out = []
    for it in s.split("|"):
        c, p = it.split(",")
        out.append((int(c), None if p == "_" else unhx(p)))
    return out


def hexlist(xs):
    return "|".join(hx(x) for x in xs) if xs else "."


def split_cs(ans, keys):
    """'C a b S c Q d' -> {'C': 'a b', 'S': 'c', 'Q': 'd'}"""
    out, cur = {}, None
    for w in ans.split(" "):
        if w in keys and w not in out:
            cur = w
            out[cur] = []
        elif cur is not None:
            out[cur].append(w)
    return {k: " ".join(v) for k, v in out.items()}


def dkey(d):
    return (d[0], d[1] is not None, d[1] or b"")


def canon_all_acks(acks):
    """acknowledgements of an argument-less (P)UNSUBSCRIBE come in hash-set order: the names are
    compared as a set, the counts (n-1, n-2, …) positionally"""
    return (sorted(a[0] for a in acks), [a[1] for a in acks], [a[2] for a in acks])


# ------------------------------------------------------------------ generators
CHANNELS = [b"news", b"nws", b"n", b"", b"ne*s", b"n?ws", b"news.sports", b"\x00\xff\r\n", b"*", b"nEws", b"n\\ws", b"s", b"ns", b"\\", b"n*"]
PATTERNS = [b"news", b"n*", b"*", b"n?ws", b"ne\\*s", b"n*s", b"*s", b"\\n*", b"??*", b"n\\", b"", b"*\x00*", b"\\", b"n[e]ws", b"**",
            b"*?", b"?", b"n\\?ws", b"\xff*", b"*.*", b"n*w*", b"*e*s", b"\\\\", b"n\\*", b"*\r\n", b"????",
            b"n[e]ws", b"n[ae]ws", b"[a-n]*", b"[^x]?ws", b"n[z-a]ws", b"n[\\]e]ws", b"n[e", b"[^", b"[", b"[]", b"n[^]ws", b"[a-]x]ews",
            b"n[a\\-e]ws", b"*[sx]", b"n[e-e]w[^a-r]", b"[\x00-\xff]*", b"[^\x00-m]*"]
UNIVERSES = [
    ([b"news", b"naws", b"nxws"], [b"n[ae]ws", b"n[^x]ws", b"[a-n]*"]),
    ([b"news", b"n]ws", b"n-ws"], [b"n[\\]e]ws", b"n[z-a]ws", b"n[e"]),
    ([b"news", b"nws", b"ne*s"], [b"n*", b"*", b"n?ws"]),
    ([b"news", b"n?ws", b"\x00\xff\r\n"], [b"ne\\*s", b"n?ws", b"*\x00*"]),
    ([b"news", b"ne*s", b""], [b"news", b"ne\\*s", b"*"]),
]


def gen_payload(r):
    k = r.below(8)
    if k == 0:
        return b""
    if k == 1:
        return b"\r\n"
    if k == 2:
        return bytes([r.below(256)])
    if k == 3:
        return r.bytes(r.range(60, 80))
    if k == 4:
        return r.choice([b"*3\r\n$7\r\nmessage\r\n", b"\x00", b"\xff\xfe", b"+OK\r\n", b":1\r\n", b"$-1\r\n"])
    return bytes(r.choice(b"abc019 \r\n\x00\xff*?\\") for _ in range(r.range(1, 8)))


def gen_history(r, n_ops, server_like=False, universe=None):
    """Operation lines (protocol of the drivers, without the de-duplication flag).
    `server_like`: only what a client can make the server do (no empty SUBSCRIBE).
    `universe`: a dict that receives the channels and patterns the history draws from."""
    if r.chance(1, 2):
        chans, pats = r.choice(UNIVERSES)
        chans, pats = list(chans), list(pats)
    else:
        chans = [r.choice(CHANNELS) for _ in range(3)]
        pats = [r.choice(PATTERNS) for _ in range(3)]
    conns = [1, 2, 3, 4]
    ops = []
    if universe is not None:
        universe["chans"], universe["pats"] = chans, pats

    def names(pool, other):
        n = r.choice([1, 1, 1, 2, 2, 3])
        out = []
        for _ in range(n):
            k = r.below(12)
            out.append(r.choice(other) if k == 0 else r.choice(CHANNELS + PATTERNS) if k == 1 else r.choice(pool))
        return out

    for _ in range(n_ops):
        c = r.choice(conns)
        k = r.below(100)
        if k < 22:
            ops.append(("sub", c, "c", names(chans, pats)))
        elif k < 42:
            ops.append(("sub", c, "p", names(pats, chans)))
        elif k < 52:
            ops.append(("unsub", c, "c", names(chans, pats)))
        elif k < 56:
            ops.append(("unsub", c, "c", None))
        elif k < 64:
            ops.append(("unsub", c, "p", names(pats, chans)))
        elif k < 68:
            ops.append(("unsub", c, "p", None))
        elif k < 74:
            ops.append(("disc", c))
        elif k < 75 and not server_like:
            ops.append(("sub", c, r.choice(["c", "p"]), []))
        else:
            ch = r.choice(chans) if r.chance(5, 6) else r.choice(CHANNELS)
            ops.append(("pub", c, ch, gen_payload(r)))
    return ops


def op_line(op, dedup):
    if op[0] == "sub":
        return "sub %d %s %s" % (op[1], op[2], hexlist(op[3]))
    if op[0] == "unsub":
        return "unsub %d %s %s" % (op[1], op[2], "*" if op[3] is None else hexlist(op[3]))
    if op[0] == "disc":
        return "disc %d" % op[1]
    if op[0] == "pub":
        return "pub %d %d %s %s" % (dedup, op[1], hx(op[2]), hx(op[3]))
    if op[0] == "bpub":
        return "bpub %d" % op[1]
    if op[0] == "pipe":
        return pipe_text(op)
    if op[0] == "burst":
        return burst_text(op)
    raise ValueError(op)


def op_json(op):
    def enc(x):
        if isinstance(x, bytes):
            return {"b": x.hex()}
        if isinstance(x, (list, tuple)):
            return [enc(y) for y in x]
        return x
    return enc(op)


def op_unjson(j):
    def dec(x, top=False):
        if isinstance(x, dict):
            return bytes.fromhex(x["b"])
        if isinstance(x, list):
            y = [dec(z) for z in x]
            return y
        return x
    if j and j[0] in ("sub", "unsub", "pub", "disc") and not any(isinstance(x, dict) or (isinstance(x, list) and any(isinstance(y, dict) for y in x)) for x in j):
        # files written before bytes were tagged
        op = list(j)
        if op[0] in ("sub", "unsub"):
            op[3] = None if op[3] is None else [bytes.fromhex(x) for x in op[3]]
        elif op[0] == "pub":
            op[2], op[3] = bytes.fromhex(op[2]), bytes.fromhex(op[3])
        return tuple(op)
    op = dec(j)
    if op[0] == "pipe":
        op[2] = [tuple(x) for x in op[2]]
    if op[0] == "burst":
        op[2] = [tuple(x) for x in op[2]]
    return tuple(op)


# ------------------------------------------------------------------ source facts
def source_facts():
    """The switches of the model, read off the current sources with the translator's own
    patterns (translator/pubsub_consts.py, which also writes lean/FerrousSpec/Gen/PubSub.lean):
    dedup: does `PubSubManager::publish` still de-duplicate receivers per connection?
    keeps_dead: does `Server::cleanup_connections` still skip closing connections that hold subscriptions?
    (None = the function was not recognised)"""
    tdir = os.path.join(VERIF, "translator")
    if tdir not in sys.path:
        sys.path.insert(0, tdir)
    import extract
    import pubsub_consts

    def src(rel):
        try:
            with open(os.path.join(REPO, "src", rel), encoding="utf-8", errors="replace") as f:
                return f.read()
        except OSError as e:
            raise InternalError("cannot read %s: %s" % (rel, e))
    return pubsub_consts.facts(src, extract.strip_comments, extract.fn_body)


def load_findings():
    fs = [f for f in load_known_findings().get("open", []) if isinstance(f, dict) and f.get("property") == "C14"]
    if os.path.exists(PENDING_FINDINGS):
        try:
            for f in json.load(open(PENDING_FINDINGS)):
                if f.get("property") == "C14" and f["id"] not in [g["id"] for g in fs]:
                    fs.append(f)
        except (ValueError, KeyError) as e:
            raise InternalError("unreadable %s: %s" % (PENDING_FINDINGS, e))
    return fs


# ------------------------------------------------------------------ the check
class C14:
    def __init__(self, rep, dedup, idle=True, gate=False):
        self.rep = rep
        self.rel = False                 # are subscriptions released at the moment a connection is marked as closing?
        self.dedup = 1 if dedup else 0
        self.idle = 1 if idle else 0     # do the (P)UNSUBSCRIBE handlers confirm when the manager returned nothing?
        self.gate = bool(gate)           # subscriber context: a subscribed connection may only send the subscribe family, PING, QUIT
        self.impl = impl_driver("pubsub")
        self.model = lean_driver("pubsub")
        self.oracle_failures = []     # (kind, detail): the property itself fails on the implementation
        self.disagreements = []       # impl vs Code model (or Lean Spec vs the oracle written here)
        self.tcp = None

    def close(self):
        self.impl.close()
        self.model.close()
        if self.tcp is not None:
            self.tcp.close()
            self.tcp = None

    def rerun(self, ops, layer):
        if layer == "tcp":
            if self.tcp is None:
                self.tcp = Tcp(self)
            return tcp_history(self, self.tcp, ops, record=False)
        return self.run_history(ops, record=False, info_every=1)

    def tcp_run(self, ops, tag):
        if self.tcp is None:
            self.tcp = Tcp(self)
        fails, dis = tcp_history(self, self.tcp, ops)
        for f in fails:
            f["tag"] = tag
            f["history"] = ops
            self.oracle_failures.append((f["kind"], f))
        for d in dis:
            d["tag"] = tag
            d["history"] = ops
            self.disagreements.append(d)

    def ask_model(self, line):
        b = self.model.ask(line)
        if b is None or b == "bad-op":
            raise InternalError("Lean driver failed on: %s (%r) %s" % (line, b, self.model.stderr_tail[-300:]))
        return b

    # -- one history on impl, Code, Lean Spec and the oracle -----------------
    def run_history(self, ops, record=True, info_every=5):
        """Returns (oracle_failures, disagreements) of this history; both lists hold dicts with the
        index of the operation.  Pure in `ops` (fresh sessions on both drivers)."""
        rep = self.rep
        fails, dis = [], []
        if self.impl.ask("reset") != "ok":
            raise InternalError("impl driver does not answer reset")
        self.ask_model("reset")
        orc = Oracle()
        chans_seen = set()
        for i, op in enumerate(ops):
            line = op_line(op, self.dedup)
            a = self.impl.ask(line)
            b = self.ask_model(line)
            if record:
                rep.evaluations += 1
                rep.count("op." + op[0] + ("." + op[2] if op[0] in ("sub", "unsub") else ""))
            if a is None or a in ("panic", "err", "bad-op"):
                fails.append({"i": i, "kind": "total", "op": line, "impl": a if a is not None else "process died: " + self.impl.stderr_tail[-300:],
                              "why": "pub/sub call failed (%s)" % a})
                break
            if op[0] == "sub":
                m = split_cs(b, ("C", "S"))
                ia, ca, sa = parse_acks(a), parse_acks(m["C"]), parse_acks(m["S"])
                want = orc.sub(op[1], op[2], op[3])
                chans_seen.update(op[3] if op[2] == "c" else [])
                if ia != want:
                    fails.append({"i": i, "kind": "ack", "op": line, "impl": a, "want": hexacks(want),
                                  "why": "acknowledgement does not carry the number of subscriptions the client then holds"})
                if ia != ca:
                    dis.append({"i": i, "op": line, "impl": a, "code": m["C"]})
                if sa != want:
                    dis.append({"i": i, "op": line, "lean_spec": m["S"], "oracle": hexacks(want), "what": "Lean Spec vs Python oracle"})
                if record:
                    rep.nontrivial(("sub", op[2], len(op[3]), sum(1 for x in want if x[2]), min(want[-1][1], 4) if want else -1))
            elif op[0] == "unsub":
                m = split_cs(b, ("C", "S", "Q"))
                ia, ca, sa = parse_acks(a), parse_acks(m["C"]), parse_acks(m["S"])
                silent = m["Q"] == "1"
                before = orc.count(op[1])
                want = orc.unsub(op[1], op[2], op[3])
                canon = canon_all_acks if op[3] is None else (lambda x: x)
                if silent and not ia:
                    # library API: the manager returns no SubResult for a connection without an entry; the
                    # confirmations are then written by the server handlers (judged on the TCP layer)
                    if record:
                        rep.count("unsub.silent-no-subscriptions")
                else:
                    if canon(ia) != canon(want):
                        fails.append({"i": i, "kind": "ack", "op": line, "impl": a, "want": hexacks(want),
                                      "why": "acknowledgement does not carry the client's remaining subscription count"})
                    if canon(sa) != canon(want):
                        dis.append({"i": i, "op": line, "lean_spec": m["S"], "oracle": hexacks(want), "what": "Lean Spec vs Python oracle"})
                if canon(ia) != canon(ca):
                    dis.append({"i": i, "op": line, "impl": a, "code": m["C"]})
                if record:
                    rep.nontrivial(("unsub", op[2], "all" if op[3] is None else len(op[3]), silent, min(before, 4), min(before - orc.count(op[1]), 3)))
            elif op[0] == "disc":
                orc.disc(op[1])
                if a != "ok":
                    fails.append({"i": i, "kind": "total", "op": line, "impl": a, "why": "unsubscribe_all failed"})
                if record:
                    rep.nontrivial(("disc",))
            elif op[0] == "pub":
                m = split_cs(b, ("C", "S"))
                idl, cdl, sdl = parse_dels(a), parse_dels(m["C"]), parse_dels(m["S"])
                want = orc.deliveries(op[2])
                chans_seen.add(op[2])
                if sorted(map(dkey, sdl)) != sorted(map(dkey, want)):
                    dis.append({"i": i, "op": line, "lean_spec": m["S"], "oracle": hexdels(want), "what": "Lean Spec vs Python oracle"})
                ok_spec = sorted(map(dkey, idl)) == sorted(map(dkey, want))
                if not ok_spec:
                    fails.append({"i": i, "kind": "publish", "op": line, "impl": a, "want": hexdels(want),
                                  "impl_count": len(idl), "want_count": len(want),
                                  "shape": publish_shape(idl, want),
                                  "why": "receivers/count are not one per matching subscription"})
                # impl vs Code: same connections, same kind of frame per connection; under de-duplication the
                # pattern named in a pmessage is whichever matching pattern the hash map yields first
                if not same_up_to_iteration_order(idl, cdl, want, self.dedup):
                    dis.append({"i": i, "op": line, "impl": a, "code": m["C"]})
                if record:
                    per = {}
                    for d in want:
                        per[d[0]] = per.get(d[0], 0) + 1
                    rep.count("pub.deliveries", len(idl))
                    rep.nontrivial(("pub", min(len(want), 5), min(len(idl), 5), max(per.values()) if per else 0,
                                    sum(1 for d in want if d[1] is None) > 0, sum(1 for d in want if d[1] is not None) > 0, ok_spec))
            if (i + 1) % info_every == 0 or i == len(ops) - 1:
                for c in (1, 2, 3, 4):
                    ai = self.impl.ask("info %d" % c)
                    bi = split_cs(self.ask_model("info %d" % c), ("C", "S"))
                    cw = bi["C"].split(" ")
                    code_c = "%s %s %s" % (cw[0], sort_hexlist(cw[1]), sort_hexlist(cw[2]))
                    if record:
                        rep.evaluations += 1
                    if ai != code_c:
                        dis.append({"i": i, "op": "info %d" % c, "impl": ai, "code": code_c})
                    h = orc.held.get(c, {"c": [], "p": []})
                    want = "%s %s" % (hexlist(sorted(h["c"])), hexlist(sorted(h["p"])))
                    if ai is None or ai.split(" ", 1)[1] != want:
                        fails.append({"i": i, "kind": "held", "op": "info %d" % c, "impl": ai, "want": want,
                                      "why": "subscriptions recorded for the connection differ from those it made"})
                    sw = bi["S"].split(" ")
                    if "%s %s" % (sort_hexlist(sw[0]), sort_hexlist(sw[1])) != want:
                        dis.append({"i": i, "op": "info %d" % c, "lean_spec": bi["S"], "oracle": want, "what": "Lean Spec vs Python oracle"})
                for ch in sorted(chans_seen):
                    ai = self.impl.ask("chcount " + hx(ch))
                    bi = self.ask_model("chcount " + hx(ch))
                    if ai != bi:
                        dis.append({"i": i, "op": "chcount " + hx(ch), "impl": ai, "code": bi})
                    n = sum(1 for h in orc.held.values() if ch in h["c"])
                    if ai != str(n):
                        fails.append({"i": i, "kind": "held", "op": "chcount " + hx(ch), "impl": ai, "want": str(n),
                                      "why": "channel subscriber count differs from the number of subscribed clients"})
        return fails, dis

    def history(self, ops, tag):
        fails, dis = self.run_history(ops)
        for f in fails:
            f["tag"] = tag
            f["history"] = ops
            f["layer"] = "inproc"
            self.oracle_failures.append((f["kind"], f))
        for d in dis:
            d["tag"] = tag
            d["history"] = ops
            d["layer"] = "inproc"
            self.disagreements.append(d)

    def shrink(self, ops, pred, layer="inproc"):
        """smallest sub-history on which `pred(fails, dis)` still holds"""
        def fails(cand):
            f, d = self.rerun(cand, layer)
            return pred(f, d)
        return shrink_list(list(ops), fails, max_steps=300 if layer == "inproc" else 120)

    # -- glob matcher ----------------------------------------------------------
    def glob_batch(self, p, texts, tag):
        rep = self.rep
        line = "globs %s %s" % (hx(p), hexlist(texts))
        a = self.impl.ask(line)
        b = split_cs(self.ask_model(line), ("C", "S"))
        rep.evaluations += len(texts)
        rep.count("glob." + tag, len(texts))
        if a is None or a in ("panic", "bad-op") or len(a) != len(texts):
            self.oracle_failures.append(("glob", {"kind": "glob", "op": line, "impl": a if a is not None else "process died: " + self.impl.stderr_tail[-300:],
                                                  "why": "pattern_matches panicked or died"}))
            return
        rx = glob_regex(p)
        feats = ("*" if b"*" in p else "") + ("?" if b"?" in p else "") + ("\\" if b"\\" in p else "") + ("[" if b"[" in p else "") + \
                ("^" if b"[^" in p else "") + ("-" if b"-" in p else "")
        for j, t in enumerate(texts):
            want = "1" if rx.fullmatch(t) is not None else "0"
            if a[j] != want:
                self.oracle_failures.append(("glob", {"kind": "glob", "op": "glob %s %s" % (hx(p), hx(t)), "impl": a[j], "want": want,
                                                      "pattern": repr(p), "text": repr(t),
                                                      "why": "pattern_matches differs from the meaning of * ? \\x"}))
            if a[j] != b["C"][j]:
                self.disagreements.append({"op": "glob %s %s" % (hx(p), hx(t)), "impl": a[j], "code": b["C"][j]})
            if b["S"][j] != want:
                self.disagreements.append({"op": "glob %s %s" % (hx(p), hx(t)), "lean_spec": b["S"][j], "oracle": want, "what": "Lean Spec.glob vs regex oracle"})
            rep.nontrivial(("glob", feats, a[j], min(p.count(b"*"), 3), min(len(t), 6) // 2))

    def glob_exhaustive(self, np, ns):
        """all (pattern, text) pairs over a 4-symbol alphabet with |pattern| <= np, |text| <= ns:
        validation of the model (and of the implementation against the oracle); NOT the theorem"""
        alpha = [b"a", b"*", b"?", b"\\"]
        texts = [b"".join(t) for k in range(ns + 1) for t in itertools.product(alpha, repeat=k)]
        n = 0
        for k in range(np + 1):
            for tup in itertools.product(alpha, repeat=k):
                self.glob_batch(b"".join(tup), texts, "exhaustive")
                n += len(texts)
        self.rep.extra["exhaustive_small_scope"] = ("model validation (not the theorem): all %d (pattern, text) pairs with |pattern| <= %d, |text| <= %d over "
                                                     "the alphabet {a * ? \\}: pattern_matches vs Code.globBytes vs Spec.glob vs regex oracle" % (n, np, ns))

    def glob_exhaustive_classes(self, np, ns):
        """all (pattern, text) pairs, |pattern| <= np over {a c * ? \\ [ ] ^ -}, |text| <= ns over {a b c ] - ^}: model
        validation of the class arm; NOT the theorem"""
        palpha = [b"a", b"c", b"*", b"?", b"\\", b"[", b"]", b"^", b"-"]
        talpha = [b"a", b"b", b"c", b"]", b"-", b"^"]
        texts = [b"".join(t) for k in range(ns + 1) for t in itertools.product(talpha, repeat=k)]
        n = 0
        for k in range(np + 1):
            for tup in itertools.product(palpha, repeat=k):
                p = b"".join(tup)
                if b"[" not in p:
                    continue
                self.glob_batch(p, texts, "exhaustive-classes")
                n += len(texts)
        self.rep.extra["exhaustive_small_scope_classes"] = ("model validation (not the theorem): all %d (pattern, text) pairs with a `[` in the pattern, |pattern| <= %d over "
                                                             "{a c * ? \\ [ ] ^ -}, |text| <= %d over {a b c ] - ^}" % (n, np, ns))

    def glob_grammar(self, r, n):
        toks = [b"*", b"*", b"?", b"\\*", b"\\?", b"\\\\", b"\\a", b"a", b"b", b"n", b"e", b"w", b"s", b".", b"\x00", b"\xff", b"\r\n", b"[", b"]", b"**", b"\\",
                b"[ae]", b"[a-n]", b"[^a]", b"[^a-m]", b"[z-a]", b"[\\]]", b"[e", b"[^", b"[]", b"[^]", b"[a-]", b"-", b"^", b"[\\-]", b"[s-w\\*]"]
        for i in range(n):
            p = b"".join(r.choice(toks) for _ in range(r.range(0, 7)))
            texts = []
            for _ in range(12):
                # texts derived from the pattern (so that matches are frequent) and random ones
                if r.chance(2, 3):
                    t = b""
                    j = 0
                    while j < len(p):
                        c = p[j:j + 1]
                        if c == b"*":
                            t += bytes(r.choice(b"abnews*?\\") for _ in range(r.below(4)))
                        elif c == b"?":
                            t += bytes([r.choice(b"abnews*?\\\x00")])
                        elif c == b"\\" and j + 1 < len(p):
                            t += p[j + 1:j + 2]
                            j += 1
                        else:
                            t += c
                        j += 1
                    if r.chance(1, 4) and t:
                        k = r.below(len(t))
                        t = t[:k] + r.choice([b"", b"x", b"*", b"\\"]) + t[k + 1:]
                else:
                    t = bytes(r.choice(b"abnews.*?\\\x00\xff") for _ in range(r.below(7)))
                texts.append(t)
            self.glob_batch(p, texts, "grammar")
            if i < 2:
                self.rep.sample({"glob": [repr(p), [repr(t) for t in texts[:4]]]})

    # -- corpus: witnesses of the Lean witness lemmas and past failures, run first ------------
    def corpus(self):
        self.history([("sub", 1, "c", [b"news"]), ("sub", 1, "p", [b"n*"]), ("pub", 2, b"news", b"x")], "corpus-dedup")
        self.history([("sub", 1, "p", [b"n*", b"*"]), ("pub", 2, b"news", b"\x00\r\n")], "corpus-dedup-2pat")
        cls = [("sub", 1, "p", [b"h[ae]llo", b"[a-c]*"]), ("sub", 2, "p", [b"[^x]?", b"h[z-a]llo", b"h[\\]e]llo"]), ("sub", 3, "p", [b"h[ae", b"[^", b"["]),
               ("sub", 3, "c", [b"h[ae]llo"]), ("pub", 4, b"hello", b"1"), ("pub", 4, b"hallo", b"2"), ("pub", 4, b"hillo", b"3"),
               ("pub", 4, b"h[ae]llo", b"4"), ("pub", 4, b"h]llo", b"5"), ("pub", 4, b"ab", b"6"), ("pub", 4, b"xb", b"7"), ("pub", 4, b"ha", b"8"),
               ("pub", 4, b"z", b"9"), ("pub", 4, b"cat", b"10"), ("unsub", 1, "p", [b"h[ae]llo"]), ("pub", 4, b"hello", b"11"), ("disc", 2), ("pub", 4, b"hello", b"12")]
        self.history(cls, "corpus-classes")
        self.class_history = cls
        self.history([("sub", 1, "c", [b"a", b"b", b"a"]), ("unsub", 1, "c", [b"a", b"zz"]), ("unsub", 1, "c", None), ("unsub", 1, "c", None),
                      ("unsub", 1, "c", [b"a"]), ("sub", 2, "p", [b"*"]), ("disc", 2), ("pub", 1, b"a", b"m"), ("unsub", 2, "p", None)], "corpus-acks")
        for p, ts in [(b"h*l?o", [b"hello", b"hllo"]), (b"news.*", [b"news", b"news.sports"]), (b"*", [b"", b"x"]), (b"", [b"", b"a"]),
                      (b"a*b*c", [b"axxbxbxc", b"abc", b"ab"]), (b"*a*a*a*a*a*b", [b"a" * 30, b"a" * 30 + b"b"]), (b"ne\\*s", [b"ne*s", b"news"]),
                      (b"n\\", [b"n\\", b"n"]), (b"\\", [b"\\", b""]), (b"n[e]ws", [b"news", b"n[e]ws"]), (b"*?", [b"", b"a"]), (b"**a", [b"a", b"ba", b"ab"]),
                      (b"h[ae]llo", [b"hello", b"hallo", b"hillo", b"h[ae]llo"]), (b"[a-c]*", [b"apple", b"cat", b"dog", b""]),
                      (b"[^x]?", [b"ab", b"xb", b"a", b"abc"]), (b"[c-a]", [b"a", b"b", b"c", b"d"]), (b"[\\]]", [b"]", b"\\", b"a"]),
                      (b"[ab", [b"a", b"b", b"[ab", b"ab"]), (b"[^", [b"", b"a", b"^", b"ab"]), (b"[", [b"[", b""]), (b"[]", [b"]", b"", b"[]"]),
                      (b"[^]", [b"a", b"]", b""]), (b"[a-]x]", [b"a", b"]", b"^", b"x", b"-"]), (b"[a\\-c]", [b"a", b"-", b"b", b"c"]),
                      (b"[a-", [b"a", b"-", b"b"]), (b"[\\", [b"\\", b"a"]), (b"*[ab]*[^ab]", [b"xaxx", b"ab", b"xxb", b"b-"]),
                      (b"[*]", [b"*", b"a"]), (b"[?]x", [b"?x", b"ax"]), (b"\\[a]", [b"[a]", b"a"]), (b"[[]", [b"[", b"]"]), (b"[]a]", [b"a]", b"]", b"a"]),
                      (b"[\x00-\xff]", [b"\x00", b"\xff", b"a", b""]), (b"[^\x00-\x7f]", [b"\x80", b"\x7f"])]:
            self.glob_batch(p, ts, "corpus")

    def run(self, seed, tier):
        rep = self.rep
        r = Rng(seed)
        scale = 12 if tier == "thorough" else 1
        self.corpus()
        hr = r.fork("histories")
        for i in range(250 * scale):
            ops = gen_history(hr, hr.range(8, 40))
            self.history(ops, "random")
            if i < 3:
                rep.sample({"history": [op_line(o, self.dedup) for o in ops[:8]]})
        self.glob_grammar(r.fork("glob"), 1500 * scale)
        if tier == "thorough":
            self.glob_exhaustive(6, 5)
            self.glob_exhaustive_classes(5, 3)
        else:
            self.glob_exhaustive(5, 4)
            self.glob_exhaustive_classes(4, 2)
        # the real server, several client sockets
        self.tcp_run([("sub", 1, "c", [b"news"]), ("sub", 1, "p", [b"n*"]), ("sub", 2, "p", [b"n*", b"*"]), ("pub", 3, b"news", b"\x00\r\n"),
                      ("pub", 1, b"news", b"self")], "tcp-corpus-dedup")
        self.tcp_run([("sub", 1, "c", [b"news"]), ("sub", 2, "c", [b"news"]), ("disc", 1, "close"), ("pub", 3, b"news", b"m")], "tcp-corpus-dead-subscriber")
        self.tcp_run([("sub", 1, "c", [b"news"]), ("disc", 1, "quit"), ("pub", 3, b"news", b"m"), ("sub", 1, "c", [b"news"]), ("pub", 3, b"news", b"m2")],
                     "tcp-corpus-dead-subscriber-quit")
        self.tcp_run([(o[0], o[1], "close") if o[0] == "disc" else o for o in self.class_history], "tcp-corpus-classes")
        for mode, held, ops in ending_matrix():
            self.tcp_run(ops, "tcp-ending-%s-%s" % (mode, held))
        self.tcp_run([("sub", 1, "c", [b"a"]), ("bpub", 1), ("pub", 2, b"a", b"x"), ("sub", 3, "p", [b"a*", b"*"]), ("bpub", 3), ("bpub", 4),
                      ("pub", 1, b"a", b"from a subscriber"), ("pipe", 3, [("ping",), ("pub", b"a", b"self"), ("ping",)], None),
                      ("unsub", 1, "c", None), ("bpub", 1), ("pub", 1, b"a", b"y")], "tcp-subscriber-context")
        for tag, ops in pipeline_corpus():
            self.tcp_run(ops, tag)
        for tag, ops in backlog_corpus(tier):
            self.tcp_run(ops, tag)
        tr = r.fork("tcp")
        for i in range(40 * (8 if tier == "thorough" else 1)):
            ops = gen_tcp_history(tr, tr.range(6, 30))
            self.tcp_run(ops, "tcp-random")
            if i < 2:
                rep.sample({"tcp_history": [op_line(o, self.dedup) for o in ops[:8]]})


def hexacks(acks):
    return "|".join("%s,%d,%d" % (hx(a[0]), a[1], 1 if a[2] else 0) for a in acks) if acks else "."


def hexdels(ds):
    return "|".join("%d,%s" % (d[0], "_" if d[1] is None else hx(d[1])) for d in ds) if ds else "."


def sort_hexlist(s):
    return s if s == "." else "|".join(sorted(s.split("|"), key=lambda h: unhx(h)))


def publish_shape(impl, want):
    """How the implementation's receiver list relates to the prescribed one."""
    wconns = sorted(set(d[0] for d in want))
    iconns = sorted(d[0] for d in impl)
    wk = [dkey(d) for d in want]
    if iconns == wconns and all(dkey(d) in wk for d in impl) and len(impl) < len(want):
        # one delivery per connection, each of them a prescribed one; a connection that matches
        # directly gets the `message`
        direct = set(d[0] for d in want if d[1] is None)
        if all((d[1] is None) == (d[0] in direct) for d in impl):
            return "one-per-connection"
    return "other"


def same_up_to_iteration_order(impl, code, want, dedup):
    if not dedup:
        return sorted(map(dkey, impl)) == sorted(map(dkey, code))
    if sorted(d[0] for d in impl) != sorted(d[0] for d in code):
        return False
    ck = {d[0]: d for d in code}
    wk = [dkey(d) for d in want]
    for d in impl:
        if (d[1] is None) != (ck[d[0]][1] is None):
            return False
        if d[1] is not None and dkey(d) not in wk:
            return False
    return True



# ------------------------------------------------------------------ TCP: the real server
PAYLOADS = {}      # sha1(real payload) -> the short token that stands for it on the model side
TOKEN_MIN = 65     # payloads of at least this many bytes travel to the Lean model as a token


def burst_payload(idx, size):
    """(real payload, model payload) of the idx-th message of a backlog: non-periodic content, so that a
    shifted / repeated stretch cannot go unnoticed; consecutive payloads differ"""
    import hashlib
    if size <= 2:
        real = bytes([idx % 251 + 1, idx // 251 % 251 + 1][:size])
    else:
        head = b"%d|" % idx
        real = (head + hashlib.shake_128(b"c14-%d-%d" % (idx, size)).digest(max(size - len(head), 0)))[:size]
    if size < TOKEN_MIN:
        return real, real
    h = hashlib.sha1(real).digest()
    tok = b"#%d:%d:%s" % (idx, size, h.hex()[:10].encode())
    PAYLOADS[h] = tok
    return real, tok


def payload_hex(p):
    """payload of a received message in model notation; a large payload must be, byte for byte, one that was sent"""
    if len(p) < TOKEN_MIN:
        return hx(p)
    import hashlib
    tok = PAYLOADS.get(hashlib.sha1(p).digest())
    if tok is not None:
        return hx(tok)
    # not a backlog payload: small ones are compared as they are, a large one can only be a damaged backlog payload
    return hx(p) if len(p) <= 4096 else "CORRUPT-%d-bytes-sha1-%s" % (len(p), hashlib.sha1(p).hexdigest()[:10])


def frame_event(f):
    """a frame read from a socket -> the event notation of the Lean driver (`showEvent`)"""
    if f == ("s", b"PONG"):
        return "pong"
    if f[0] == "e" and f[1].startswith(b"ERR Can't execute"):
        return "refused"       # subscriber context: only (P)SUBSCRIBE / (P)UNSUBSCRIBE / PING / QUIT
    if f[0] == "i":
        return "n:%d" % f[1]
    if f[0] == "a" and len(f[1]) == 3 and f[1][0] in (("b", b"unsubscribe"), ("b", b"punsubscribe")) and f[1][1] == ("nb",) and f[1][2][0] == "i":
        # confirmation with a nil name (argument-less (P)UNSUBSCRIBE, nothing of that kind held)
        return "a:%s:1:_:%d" % ("c" if f[1][0][1] == b"unsubscribe" else "p", f[1][2][1])
    if f[0] == "a" and f[1] and all(x[0] in ("b", "i") for x in f[1]):
        xs = f[1]
        kind = xs[0][1] if xs[0][0] == "b" else None
        acks = {b"subscribe": "c:0", b"unsubscribe": "c:1", b"psubscribe": "p:0", b"punsubscribe": "p:1"}
        if kind in acks and len(xs) == 3 and xs[1][0] == "b" and xs[2][0] == "i":
            return "a:%s:%s:%d" % (acks[kind], hx(xs[1][1]), xs[2][1])
        if kind == b"message" and len(xs) == 3 and xs[1][0] == "b" and xs[2][0] == "b":
            return "m:%s:%s" % (hx(xs[1][1]), payload_hex(xs[2][1]))
        if kind == b"pmessage" and len(xs) == 4 and all(x[0] == "b" for x in xs):
            return "p:%s:%s:%s" % (hx(xs[1][1]), hx(xs[2][1]), payload_hex(xs[3][1]))
    return "?:" + repr(f)


def parse_events(s):
    return [] if s == "." else s.split("|")


AUX = 9            # logical id of the harness's own publisher (in-flight publishes and probes); never subscribes

# every way a subscriber connection can end (x what the server has queued for it at that moment)
END_MODES = ["close",           # FIN, nothing queued
             "quit",            # QUIT, +OK read, close
             "reset",           # RST (SO_LINGER 0), nothing queued
             "half-close",      # shutdown(SHUT_WR): the server reads EOF while it could still write
             "quit-pipelined",  # SUBSCRIBE <ch> + QUIT in one write, then close
             "fin-queued",      # FIN while a message for it is queued (publisher pipelines SLEEP + PUBLISH in one write)
             "rst-queued",      # RST while a message for it is queued (same recipe)
             "rst-burst",       # RST in the middle of a pipelined burst of PUBLISHes it does not read
             "kill-exec",       # another client: MULTI / CLIENT KILL ID <it> / PUBLISH / EXEC — closed by the server, then a PUBLISH in the same EXEC
             "kill-pipelined"]  # another client: CLIENT KILL ID <it> | PUBLISH in one write
QUEUED_MODES = ("fin-queued", "rst-queued", "rst-burst")
SLEEP_MS = 250
BURST = 60


class Tcp:
    """Logical connections 1..4 as sockets to a real server, a control connection for barriers and
    a publisher of the harness's own (AUX).  After every operation each live connection is
    drained up to a PING barrier, so that every frame is attributed to the operation that caused it."""

    def __init__(self, check):
        import server as srvmod
        self.srvmod = srvmod
        self.check = check
        self.start()

    def client(self, timeout=5.0):
        srvmod = self.srvmod

        class BigClient(srvmod.Client):
            """same reader, but a multi-megabyte bulk string is collected without quadratic copying"""

            def _exact(self, n, timeout):
                if len(self.buf) >= n:
                    d, self.buf = self.buf[:n], self.buf[n:]
                    return d
                parts, have = [self.buf], len(self.buf)
                self.buf = b""
                self.s.settimeout(self.timeout if timeout is None else timeout)
                while have < n:
                    try:
                        d = self.s.recv(1 << 20)
                    except socket.timeout:
                        self.buf = b"".join(parts)
                        raise TimeoutError()
                    except OSError:
                        raise srvmod.Closed()
                    if not d:
                        raise srvmod.Closed()
                    parts.append(d)
                    have += len(d)
                data = b"".join(parts)
                self.buf = data[n:]
                return data[:n]
        return BigClient(self.srv.port, timeout)

    def start(self):
        self.srv = self.srvmod.Server("c14")
        self.ctl = self.srv.client()
        self.aux = self.client(timeout=15.0)
        self.socks = {}
        self.ids = {}
        self.keyn = 0
        self.ghosts = []     # subscription sets of connections that went away while subscribed (this history)

    def restart(self):
        self.close()
        self.start()

    def close(self):
        for cl in list(self.socks.values()) + [self.ctl, self.aux]:
            cl.close()
        self.srv.stop()
        self.socks = {}

    def sock(self, c):
        if c == AUX:
            return self.aux
        if c not in self.socks:
            self.socks[c] = self.client()
            r = self.socks[c].cmd("CLIENT", "ID")           # before it subscribes to anything
            self.ids[c] = r[1] if r[0] == "i" else None
        return self.socks[c]

    def drain(self, cl, timeout=None):
        """frames pending on `cl` up to the answer of a PING sent now"""
        cl.send("PING")
        out = []
        while True:
            f = cl.read_reply(timeout)
            if f == ("s", b"PONG"):
                return out
            out.append(frame_event(f))

    @staticmethod
    def encode_cmd(cmd):
        if cmd[0] == "sub":
            return ["SUBSCRIBE" if cmd[1] == "c" else "PSUBSCRIBE"] + list(cmd[2])
        if cmd[0] == "unsub":
            return ["UNSUBSCRIBE" if cmd[1] == "c" else "PUNSUBSCRIBE"] + list(cmd[2] or [])
        if cmd[0] == "pub":
            return ["PUBLISH", cmd[1], cmd[2]]
        if cmd[0] == "ping":
            return ["PING"]
        raise ValueError(cmd)

    def pipe(self, c, cmds, split):
        """several commands of connection `c` in ONE write (or the same bytes in two writes cut at byte
        `split`); returns the frames read up to the answer of a PING sent afterwards, inner PONGs included,
        and whether everything due arrived (False: gave up after a time-out)"""
        cl = self.sock(c)
        data = b"".join(cl.encode(self.encode_cmd(x)) for x in cmds)
        if split is None or not (0 < split < len(data)):
            cl.send_raw(data)
        else:
            cl.send_raw(data[:split])
            time.sleep(0.003)
            cl.send_raw(data[split:])
        pongs = sum(1 for x in cmds if x[0] == "ping") + 1
        cl.send("PING")
        out = []
        try:
            while pongs:
                e = frame_event(cl.read_reply(timeout=2.0))
                if e == "pong":
                    pongs -= 1
                    if not pongs:
                        break
                out.append(e)
        except TimeoutError:
            return out, False
        return out, True

    def burst(self, msgs, slow, batch=40, slow_delay=0.010):
        """a backlog: `msgs` = [(publisher, channel, real payload)] are published (pipelined, `batch` per write and
        per publisher turn) by the main thread while one raw reader thread per connection collects what arrives;
        the readers of the connections in `slow` start late (the output piles up in the server and the socket
        buffers).  The server drops a client whose socket stays unwritable for about 100 ms, so "slow" means
        late, not absent.  Returns ({publisher: [replies]}, {conn: frames})."""
        import threading
        conns = dict(self.socks)
        conns[AUX] = self.aux

        class Reader(threading.Thread):
            def __init__(self, cl, delay):
                threading.Thread.__init__(self, daemon=True)
                self.cl, self.delay, self.chunks, self.stop, self.err = cl, delay, [], threading.Event(), None
                self.nbytes = 0

            def run(self):
                import select
                time.sleep(self.delay)
                s, tail, t_end = self.cl.s, b"", None
                while True:
                    try:
                        ready = select.select([s], [], [], 0.05)[0]
                        d = s.recv(1 << 20, socket.MSG_DONTWAIT) if ready else None
                    except (BlockingIOError, InterruptedError):
                        d = None
                    except (OSError, ValueError) as e:
                        self.err = e
                        return
                    if d == b"":
                        self.err = EOFError("closed by the server")
                        return
                    if d:
                        self.chunks.append(d)
                        self.nbytes += len(d)
                        if self.nbytes > cap:
                            # far more than was ever published for this connection: the stream is not what was sent
                            self.err = OverflowError("%d bytes read, at most %d could be due" % (self.nbytes, cap))
                            return
                        # the answer to the PING that ends this phase (nothing else on these connections says PONG)
                        if self.stop.is_set() and b"+PONG\r\n" in tail + d:
                            return
                        tail = d[-6:] if len(d) >= 6 else (tail + d)[-6:]
                    if self.stop.is_set():
                        t_end = t_end or time.time() + 90
                        if time.time() > t_end:
                            self.err = TimeoutError("no answer to PING within 90 s")
                            return

        cap = 16 * sum(len(m[2]) + len(m[1]) + 64 for m in msgs) + (8 << 20)      # every message, under 16 subscriptions, plus slack
        overflow = []
        raw = {c: [cl.buf] for c, cl in conns.items()}
        for cl in conns.values():
            cl.buf = b""

        def phase(which, delays):
            rs = {c: Reader(conns[c], delays.get(c, 0)) for c in which}
            for r in rs.values():
                r.start()
            return rs

        dropped = {}

        def finish(rs):
            for c, r in rs.items():
                r.stop.set()
                try:
                    conns[c].s.sendall(conns[c].encode(["PING"]))
                except OSError as e:
                    dropped.setdefault(c, "send: %s" % e)
            for c, r in rs.items():
                r.join(120)
                raw[c].extend(r.chunks)
                if isinstance(r.err, OverflowError):
                    overflow.append("connection %d: %s" % (c, r.err))
                if r.err is not None:
                    dropped.setdefault(c, "%s: %s" % (type(r.err).__name__, r.err))

        for cl in conns.values():
            cl.s.settimeout(120)
        rs = phase(list(conns), {c: slow_delay for c in slow})
        i = 0
        while i < len(msgs):
            pc, j = msgs[i][0], i
            while j < len(msgs) and msgs[j][0] == pc and j - i < batch:
                j += 1
            cl = conns[pc] if pc in conns else self.sock(pc)
            if pc not in conns:          # a publisher that connects now
                conns[pc] = cl
                raw[pc] = []
                rs[pc] = Reader(cl, 0)
                rs[pc].start()
            cl.s.sendall(b"".join(cl.encode(["PUBLISH", ch, payload]) for _, ch, payload in msgs[i:j]))
            i = j
        pubs = sorted(set(m[0] for m in msgs))
        finish({c: rs[c] for c in pubs})                       # every PUBLISH has been executed
        finish({c: r for c, r in rs.items() if c not in pubs})
        finish(phase([c for c in pubs if c not in dropped], {}))   # what reached the publishers after their PONG
        if overflow:
            for cl in conns.values():
                cl.buf = b""
            raise self.srvmod.ProtocolError("a connection read more bytes than were published for it (repeated stretches): %s" % overflow[0])
        replies, got = {}, {}
        for c, cl in conns.items():
            cl.s.settimeout(cl.timeout)
            cl.buf = b"".join(raw[c])
            evs = []
            try:
                while cl.buf:
                    e = frame_event(cl.read_reply(timeout=0.3))
                    if e != "pong":
                        evs.append(e)
            except (TimeoutError, self.srvmod.Closed, OSError):
                if c not in dropped:
                    raise self.srvmod.ProtocolError("connection %d: the bytes read end inside a frame (%d bytes left over)" % (c, len(cl.buf)))
            replies[c] = [e for e in evs if e.startswith("n:")]
            if c != AUX:
                got[c] = [e for e in evs if not e.startswith("n:")]
        if AUX in dropped or any(c in dropped for c in pubs):
            raise self.srvmod.Closed("a publisher's connection was closed during a backlog: %s" % dropped)
        for c in dropped:
            self.socks.pop(c).close()
        return replies, got, dropped

    def reset(self):
        """leave cleanly (so that nothing of this history stays subscribed on the server)"""
        for cl in self.socks.values():
            try:
                cl.send("UNSUBSCRIBE")
                cl.send("PUNSUBSCRIBE")
                self.drain(cl)
            except Exception:
                pass
            cl.close()
        self.socks = {}
        self.settle()

    def loop_count(self):
        r = self.ctl.cmd("VERIF", "LOOP")
        return r[1] if r[0] == "i" else None

    def settle(self):
        """return after the server's event loop has completed at least two more full iterations
        (every connection is visited and closing connections are dropped once per iteration)"""
        n0 = self.loop_count()
        if n0 is None:
            # no hook: two round trips = at least one complete iteration in between
            self.ctl.cmd("PING")
            self.ctl.cmd("PING")
            time.sleep(0.05)
            return
        for _ in range(5000):
            n = self.loop_count()
            if n is None or n >= n0 + 3:
                return

    def end(self, c, mode, ch):
        """End logical connection `c` in the given way.  Returns (frames read by c before the end,
        frames read by c as part of the end, channel subscribed by a pipelined SUBSCRIBE or None,
        [(payload, reply)] of the publishes that were in flight)."""
        cl = self.socks.pop(c, None)
        if cl is None:
            return [], [], None, []
        before = self.drain(cl)
        during, presub, inflight = [], None, []
        import struct
        rst = lambda: cl.s.setsockopt(socket.SOL_SOCKET, socket.SO_LINGER, struct.pack("ii", 1, 0))
        if mode == "quit":
            cl.send("QUIT")
            try:
                cl.read_reply()
            except Exception:
                pass
        elif mode == "reset":
            rst()
        elif mode == "half-close":
            cl.s.shutdown(socket.SHUT_WR)
            self.settle()
            try:
                while True:                      # the server drops the connection: EOF on our side
                    during.append(frame_event(cl.read_reply(timeout=2.0)))
            except Exception:
                pass
        elif mode == "quit-pipelined":
            presub = ch
            cl.send_raw(cl.encode(["SUBSCRIBE", ch]) + cl.encode(["QUIT"]))
            try:
                for _ in range(2):
                    f = cl.read_reply()
                    if f != ("s", b"OK"):
                        during.append(frame_event(f))
            except Exception:
                pass
        elif mode in ("fin-queued", "rst-queued"):
            payload = b"\x00in-flight\xff\r\n"
            self.aux.send_raw(self.aux.encode(["SLEEP", str(SLEEP_MS)]) + self.aux.encode(["PUBLISH", ch, payload]))
            time.sleep(SLEEP_MS / 1000.0 * 0.4)      # the event loop is inside SLEEP now
            if mode == "rst-queued":
                rst()
            cl.close()
            self.aux.read_reply()                    # +OK of SLEEP
            r = self.aux.read_reply()
            inflight.append((payload, r[1] if r[0] == "i" else None))
        elif mode in ("kill-exec", "kill-pipelined"):
            # the SERVER closes the connection (CLIENT KILL by another client); the next command of the killer is a PUBLISH
            payload = b"after-kill"
            kid = str(self.ids.get(c))
            if mode == "kill-exec":
                self.aux.send_raw(self.aux.encode(["MULTI"]) + self.aux.encode(["CLIENT", "KILL", "ID", kid]) +
                                  self.aux.encode(["PUBLISH", ch, payload]) + self.aux.encode(["EXEC"]))
                for _ in range(3):
                    self.aux.read_reply()
                r = self.aux.read_reply()
                n = r[1][1][1] if r[0] == "a" and len(r[1]) == 2 and r[1][1][0] == "i" else None
            else:
                self.aux.send_raw(self.aux.encode(["CLIENT", "KILL", "ID", kid]) + self.aux.encode(["PUBLISH", ch, payload]))
                self.aux.read_reply()
                r = self.aux.read_reply()
                n = r[1] if r[0] == "i" else None
            inflight.append((payload, n))
            try:
                while True:                      # whatever still reaches the killed connection, up to EOF
                    during.append(frame_event(cl.read_reply(timeout=2.0)))
            except Exception:
                pass
        elif mode == "rst-burst":
            payload = b"x" * 256
            self.aux.send_raw(b"".join(self.aux.encode(["PUBLISH", ch, payload]) for _ in range(BURST)))
            time.sleep(0.002)                        # somewhere inside the burst, nothing read
            rst()
            cl.close()
            for _ in range(BURST):
                r = self.aux.read_reply()
                inflight.append((payload, r[1] if r[0] == "i" else None))
        cl.close()
        self.settle()
        return before, during, presub, inflight

    def blocked_publish(self, c, ch, payload):
        """`c` sends a command that blocks (BLPOP on a list nobody pushes to, time-out 0); the harness publishes on
        `ch`; what `c` reads before it is unblocked (LPUSH by the control connection) and after.
        Returns (frames before the unblock, frames after, reply to the PUBLISH, was the BLPOP answered at once)"""
        cl = self.sock(c)
        self.keyn += 1
        key = b"c14-nolist-%d" % self.keyn
        cl.send("BLPOP", key, "0")
        before, after, answered = [], [], False
        try:
            before.append(frame_event(cl.read_reply(timeout=0.25)))
            answered = True
        except TimeoutError:
            pass
        r = self.aux.cmd("PUBLISH", ch, payload)
        reply = r[1] if r[0] == "i" else None
        try:
            while True:
                before.append(frame_event(cl.read_reply(timeout=0.4)))
        except TimeoutError:
            pass
        if not answered:
            self.ctl.cmd("LPUSH", key, "v")
            f = cl.read_reply(timeout=5.0)
            while not (f[0] == "a" and len(f[1]) == 2 and f[1][0] == ("b", key)):
                after.append(frame_event(f))
                f = cl.read_reply(timeout=5.0)
        else:
            self.ctl.cmd("DEL", key)
        after.extend(self.drain(cl))
        return before, after, reply, answered

    def do(self, op):
        """execute one operation; returns ({conn: [events caused by it]}, reply to an AUX publish or None)"""
        got, reply = {}, None
        if op[0] == "pub" and op[1] == AUX:
            r = self.aux.cmd("PUBLISH", op[2], op[3])
            reply = r[1] if r[0] == "i" else None
        else:
            cl = self.sock(op[1])
            if op[0] == "sub":
                cl.send("SUBSCRIBE" if op[2] == "c" else "PSUBSCRIBE", *op[3])
            elif op[0] == "unsub":
                cl.send("UNSUBSCRIBE" if op[2] == "c" else "PUNSUBSCRIBE", *(op[3] or []))
            elif op[0] == "pub":
                cl.send("PUBLISH", op[2], op[3])
            got[op[1]] = self.drain(cl)
        self.drain_rest(got)
        return got, reply

    def drain_rest(self, got):
        for c, other in self.socks.items():
            if c not in got:
                got[c] = self.drain(other)


def canon_events(events, unsub_all):
    """frames of one connection caused by one operation, in comparable form: PUBLISH replies apart;
    the rest sorted (hash-map order), except that the acknowledgements of an argument-less
    (P)UNSUBSCRIBE keep their count sequence and have their names sorted"""
    ints = [e for e in events if e.startswith("n:")]
    rest = [e for e in events if not e.startswith("n:")]
    if unsub_all:
        acks = [e.split(":") for e in rest if e.startswith("a:")]
        names = sorted(a[3] for a in acks)
        rest = [e for e in rest if not e.startswith("a:")] + [":".join(a[:3] + [names[j], a[4]]) for j, a in enumerate(acks)]
        return ints, rest
    return ints, sorted(rest)


def is_msg(e):
    return e.startswith("m:") or e.startswith("p:")


def cut(flat, sizes):
    """`flat` cut into consecutive chunks of the given sizes; None when the total differs"""
    if sum(sizes) != len(flat):
        return None
    out, k = [], 0
    for n in sizes:
        out.append(flat[k:k + n])
        k += n
    return out


def group_sort(events):
    """messages of one PUBLISH to one connection (same channel and payload, consecutive) in sorted order:
    which of them comes first depends on hash-map order; everything else keeps its place"""
    out, grp, key = [], [], None
    for e in events:
        k = tuple(e.split(":")[-2:]) if is_msg(e) else None
        if k is None or k != key:
            out.extend(sorted(grp))
            grp = []
        key = k
        if k is None:
            out.append(e)
        else:
            grp.append(e)
    out.extend(sorted(grp))
    return out


def first_diff(a, b):
    for k in range(min(len(a), len(b))):
        if a[k] != b[k]:
            return k
    return min(len(a), len(b))


def short(e):
    return e if len(e) <= 90 else e[:60] + "…(%d chars)" % len(e)


def matching_channels(h, seen):
    """channels on which a connection holding `h` receives something: those it subscribed to, and the
    channels used so far that one of its patterns matches"""
    out = list(h["c"])
    for ch in sorted(seen):
        if ch not in out and any(spec_glob(p, ch) for p in h["p"]):
            out.append(ch)
    return out


def recv_diff(check, prev, c):
    m = split_cs(check.ask_model("recv %d %d %d" % (check.dedup, check.idle, c)), ("C", "S"))
    ec, es = parse_events(m["C"]), parse_events(m["S"])
    new_c, new_s = ec[len(prev[c][0]):], es[len(prev[c][1]):]
    prev[c] = (ec, es)
    return new_c, new_s


def pipe_step(check, tcp, i, op, orc, prev, seen, fails, dis, record):
    """several commands of one connection in one write (or the same bytes in two writes): every command gets
    its acknowledgement(s) / count, in command order; the messages are the model's, in publish order; a message
    caused by a PUBLISH of the same write comes after the acknowledgements of the (un)subscriptions before it"""
    rep = check.rep
    c, cmds, split = op[1], op[2], op[3]
    line = pipe_text(op)
    real, complete = tcp.pipe(c, cmds, split)
    got = {c: real}
    tcp.drain_rest(got)
    chunks = {x: {"C": [], "S": []} for x in (1, 2, 3, 4)}
    for cmd in cmds:
        if cmd[0] == "ping":
            for x in (1, 2, 3, 4):
                for side in "CS":
                    chunks[x][side].append(["pong"] if x == c else [])
            continue
        if cmd[0] == "pub" and check.gate and orc.count(c) > 0:
            # subscriber context: refused, nothing is published
            for x in (1, 2, 3, 4):
                for side in "CS":
                    chunks[x][side].append(["refused"] if x == c else [])
            if record:
                rep.count("tcp.publish-refused-in-subscriber-context")
            continue
        if cmd[0] == "sub":
            check.ask_model(op_line(("sub", c, cmd[1], cmd[2]), check.dedup))
            orc.sub(c, cmd[1], cmd[2])
            seen.update(cmd[2] if cmd[1] == "c" else [])
        elif cmd[0] == "unsub":
            check.ask_model(op_line(("unsub", c, cmd[1], cmd[2]), check.dedup))
            orc.unsub(c, cmd[1], cmd[2])
        else:
            check.ask_model(op_line(("pub", c, cmd[1], cmd[2]), check.dedup))
            seen.add(cmd[1])
        for x in (1, 2, 3, 4):
            nc, ns = recv_diff(check, prev, x)
            chunks[x]["C"].append(nc)
            chunks[x]["S"].append(ns)
    if record:
        rep.evaluations += len(cmds)
        rep.count("tcp.op.pipe")
        rep.count("tcp.pipe.commands", len(cmds))
        shape = "".join({"sub": "S", "unsub": "U", "pub": "P", "ping": "g"}[x[0]] for x in cmds)
        rep.count("tcp.pipe.%s" % ("one-write" if split is None else "two-writes"))
        held_pub = any(x[0] == "pub" and any(ev for ev in ch if is_msg(ev)) for x, ch in zip(cmds, chunks[c]["S"]))
        rep.nontrivial(("tcp-pipe", shape[:6], split is not None, held_pub))
        if held_pub:
            rep.count("tcp.pipe.publish-to-own-subscription")
    base = {"i": i, "op": line, "layer": "tcp", "conn": c}

    def canon_reply(cmd, chunk):
        if cmd[0] == "unsub" and cmd[2] is None:
            ints, rest = canon_events(chunk, True)
            return ints + rest
        return list(chunk)

    for side in "SC":
        # -- the pipelining connection: replies and messages apart
        exp_rep = [[e for e in ch if not is_msg(e)] for ch in chunks[c][side]]
        exp_msg = [sorted(e for e in ch if is_msg(e)) for ch in chunks[c][side]]
        real_rep = [e for e in real if not is_msg(e)]
        real_msg = [e for e in real if is_msg(e)]
        rr = cut(real_rep, [len(x) for x in exp_rep])
        rm = cut(real_msg, [len(x) for x in exp_msg])
        ok_rep = rr is not None and all(canon_reply(cmd, a) == canon_reply(cmd, b) for cmd, a, b in zip(cmds, rr, exp_rep))
        ok_msg = rm is not None and all(sorted(a) == b for a, b in zip(rm, exp_msg))
        flat_exp = [e for ch in chunks[c][side] for e in ch]
        if side == "S":
            if not ok_rep:
                fails.append(dict(base, kind="pipeline", shape="replies", impl="|".join(map(short, real_rep[:16])) or ".",
                                  want="|".join(map(short, [e for ch in exp_rep for e in ch][:16])) or ".", complete=complete,
                                  why="pipelined commands did not each get their acknowledgement(s) / delivery count, in order"))
            if not ok_msg:
                fails.append(dict(base, kind="pipeline", shape="messages", impl="|".join(map(short, real_msg[:16])) or ".",
                                  want="|".join(map(short, [e for ch in exp_msg for e in ch][:16])) or ".",
                                  why="messages read by the pipelining connection differ from one per matching subscription, in publish order"))
            if ok_rep and ok_msg:
                # a message comes after the acknowledgements of the (un)subscriptions that precede its PUBLISH in the write
                last, k, pos = {}, 0, [p for p, e in enumerate(real) if not is_msg(e)]
                for j, ch in enumerate(exp_rep):
                    if ch:
                        last[j] = pos[k + len(ch) - 1]
                    k += len(ch)
                mpos, k = [p for p, e in enumerate(real) if is_msg(e)], 0
                for q, ch in enumerate(exp_msg):
                    for _ in ch:
                        for j in range(q):
                            if cmds[j][0] in ("sub", "unsub") and j in last and last[j] > mpos[k]:
                                fails.append(dict(base, kind="pipeline", shape="order", impl="|".join(map(short, real[:16])),
                                                  want="acknowledgement of command %d before the message of command %d" % (j, q),
                                                  why="a message was delivered before the acknowledgement of an earlier (un)subscription of the same write"))
                            elif cmds[j][0] in ("pub", "ping") and j in last and last[j] > mpos[k]:
                                # a subscribed connection's own PUBLISH: its message overtakes the reply to an earlier command
                                fails.append(dict(base, kind="pipeline", shape="overtakes-earlier-reply", impl="|".join(map(short, real[:16])),
                                                  want="reply to command %d before the message of command %d" % (j, q),
                                                  why="the message of a subscribed connection's own PUBLISH came out before the reply to an earlier command of the same write"))
                        k += 1
        elif not (ok_rep and ok_msg):
            dis.append(dict(base, impl="|".join(map(short, real[:16])) or ".", code="|".join(map(short, flat_exp[:16])) or "."))
        # -- the other connections: what the pipeline's PUBLISHes delivered to them, in publish order
        for x in (1, 2, 3, 4):
            if x == c:
                continue
            exp = [sorted(ch) for ch in chunks[x][side]]
            rx = cut(got.get(x, []), [len(e) for e in exp])
            if rx is None or any(sorted(a) != b for a, b in zip(rx, exp)):
                d = dict(base, conn=x, impl="|".join(map(short, got.get(x, [])[:16])) or ".")
                if side == "S":
                    fails.append(dict(d, kind="stream", shape="other", want="|".join(map(short, [e for ch in exp for e in ch][:16])) or ".",
                                      why="frames read by connection %d differ from one per matching subscription (publisher pipelined)" % x))
                else:
                    dis.append(dict(d, code="|".join(map(short, [e for ch in exp for e in ch][:16])) or "."))


def bpub_step(check, tcp, i, op, orc, prev, seen, fails, dis, record):
    """connection `c` sends a command that blocks (BLPOP on a list nobody pushes to, time-out 0), then the harness
    publishes on a channel `c` receives on: what is due to `c` must reach it while it is in that state, not when it is
    unblocked.  (Subscriber context: a connection that holds subscriptions gets an error for the BLPOP instead.)"""
    rep = check.rep
    c = op[1]
    h = orc.held.get(c) or {"c": [], "p": []}
    on = matching_channels(h, seen)
    ch = on[0] if on else (sorted(seen)[0] if seen else b"news")
    payload = b"while-blocked"
    subscribed = orc.count(c) > 0
    before, after, reply, answered = tcp.blocked_publish(c, ch, payload)
    got = {c: [e for e in before + after if e != "refused" and not e.startswith("?:")]}
    tcp.drain_rest(got)
    line = "bpub %d %s" % (c, hx(ch))
    m = split_cs(check.ask_model(op_line(("pub", AUX, ch, payload), check.dedup)), ("C", "S"))
    seen.add(ch)
    n_c, n_s = len(parse_dels(m["C"])), len(parse_dels(m["S"]))
    base = {"i": i, "op": line, "layer": "tcp"}
    if record:
        rep.evaluations += 1
        rep.count("tcp.op.bpub")
        rep.count("tcp.bpub.%s.%s" % ("subscribed" if subscribed else "not-subscribed", "refused" if "refused" in before else "blocked" if not answered else "answered"))
        rep.nontrivial(("tcp-bpub", subscribed, answered, min(n_s, 3)))
    if reply != n_s:
        fails.append(dict(base, kind="publish", conn=AUX, impl="n:%s" % reply, want="n:%d" % n_s, shape="other",
                          why="PUBLISH reply is not the number of deliveries to the clients subscribed at that moment"))
    elif reply != n_c:
        dis.append(dict(base, conn=AUX, impl="n:%s" % reply, code="n:%d" % n_c))
    late = [e for e in after if is_msg(e)]
    if late:
        fails.append(dict(base, kind="stream", conn=c, shape="deferred-while-blocked", impl="before the unblock: %s; after: %s" % ("|".join(before) or ".", "|".join(map(short, late))),
                          want="delivered when published",
                          why="PUBLISH counted a delivery to connection %d, which had sent a blocking command: it read the message only after it was unblocked" % c))
    if check.gate and subscribed and "refused" not in before:
        dis.append(dict(base, conn=c, impl="BLPOP from a subscribed connection was %s" % ("answered" if answered else "accepted (it blocked)"), code="refused (subscriber context)"))
    if not check.gate and "refused" in before:
        dis.append(dict(base, conn=c, impl="refused", code="executed (no subscriber context in the source)"))
    for x in (1, 2, 3, 4):
        nc, ns = recv_diff(check, prev, x)
        real = sorted(got.get(x, []))
        if real != sorted(ns):
            fails.append(dict(base, kind="stream", conn=x, shape="other", impl="|".join(map(short, got.get(x, [])[:8])) or ".", want="|".join(map(short, ns[:8])) or ".",
                              why="frames read by connection %d differ from one per matching subscription" % x))
        elif real != sorted(nc):
            dis.append(dict(base, conn=x, impl="|".join(map(short, got.get(x, [])[:8])) or ".", code="|".join(map(short, nc[:8])) or "."))


def burst_step(check, tcp, i, op, orc, prev, seen, fails, dis, record, bidx):
    """a backlog: many / large messages from several publishers while the `slow` connections read nothing;
    afterwards every stream must parse and be the model's per-subscriber sequence, byte for byte"""
    rep = check.rep
    slow, specs = set(op[1]), op[2]
    if check.gate:
        # subscriber context: a connection that holds subscriptions cannot publish
        specs = [x for x in specs if x[0] == AUX or orc.count(x[0]) == 0]
        if not specs:
            return bidx
    line = burst_text(op)
    msgs, lines = [], []
    for k, (pc, ch, size) in enumerate(specs):
        real, tok = burst_payload(bidx + k, size)
        msgs.append((pc, ch, real))
        lines.append((pc, op_line(("pub", pc, ch, tok), check.dedup)))
        seen.add(ch)
    replies, got, dropped = tcp.burst(msgs, slow)
    want_c, want_s, lo_s = {}, {}, {}
    for pc, l in lines:
        m = split_cs(check.ask_model(l), ("C", "S"))
        want_c.setdefault(pc, []).append("n:%d" % len(parse_dels(m["C"])))
        want_s.setdefault(pc, []).append("n:%d" % len(parse_dels(m["S"])))
        lo_s.setdefault(pc, []).append(sum(1 for d in parse_dels(m["S"]) if d[0] not in dropped))
    total = sum(x[2] for x in specs)
    if record:
        rep.evaluations += len(specs)
        rep.count("tcp.op.burst")
        rep.count("tcp.burst.messages", len(specs))
        rep.count("tcp.burst.bytes-published", total)
        for _, _, size in specs:
            rep.count("tcp.burst.size.%s" % ("<=64B" if size <= 64 else "<=64KiB" if size <= 65536 else "<=2MiB" if size <= (2 << 20) else ">2MiB"))
        rep.nontrivial(("tcp-burst", min(len(specs), 2000) // 500, max(x[2] for x in specs).bit_length() // 4, len(slow), len(set(x[0] for x in specs))))
    base = {"i": i, "op": line, "layer": "tcp"}
    if dropped and record:
        # the server gives up on a client whose socket stayed unwritable through 5 attempts of one flush (about 100 ms,
        # however fast the client reads) and closes it: from then on it is a disconnected client, which must have read
        # an intact prefix of what was due
        rep.count("tcp.burst.server-closed-a-lagging-subscriber", len(dropped))
    for pc in want_s:
        r = replies.get(pc, [])
        if dropped:
            ok = len(r) == len(want_s[pc]) and all(lo <= int(a[2:]) <= int(b[2:]) for a, b, lo in zip(r, want_s[pc], lo_s[pc]))
            if not ok:
                fails.append(dict(base, kind="publish", shape="burst", conn=pc, impl="|".join(r[:8]) or ".", want="|".join(want_s[pc][:8]) or ".",
                                  why="replies to pipelined PUBLISHes of connection %d are outside what the subscribers (one of which the server closed meanwhile) allow" % pc))
            continue
        if r != want_s[pc]:
            k = first_diff(r, want_s[pc])
            fails.append(dict(base, kind="publish", shape="burst", conn=pc, impl="|".join(r[k:k + 6]) or ".", want="|".join(want_s[pc][k:k + 6]) or ".",
                              why="reply %d of %d pipelined PUBLISHes of connection %d is not the number of deliveries" % (k, len(want_s[pc]), pc)))
        elif r != want_c[pc]:
            dis.append(dict(base, conn=pc, impl="|".join(r[:6]), code="|".join(want_c[pc][:6])))
    # publishes of DIFFERENT publishers are concurrent (the server takes the connections in its own order and a large
    # command takes many iterations to arrive): a subscriber's stream is compared publisher by publisher
    owner = {}
    for (pc, ch, size), (_, _, real_pl) in zip(specs, msgs):
        owner[payload_hex(real_pl)] = pc

    def by_publisher(events):
        d = {}
        for e in events:
            d.setdefault(owner.get(e.rsplit(":", 1)[1], "nobody"), []).append(e)
        return {k: group_sort(v) for k, v in d.items()}

    for x in (1, 2, 3, 4):
        nc, ns = recv_diff(check, prev, x)
        real = by_publisher(got.get(x, []))
        es = by_publisher([e for e in ns if not e.startswith("n:")])
        ec = by_publisher([e for e in nc if not e.startswith("n:")])
        n_real, n_due = sum(map(len, real.values())), sum(map(len, es.values()))
        if record:
            rep.evaluations += 1
            if x in slow and n_due:
                rep.count("tcp.burst.backlog-frames-read-late", n_due)
        if x in dropped:
            # closed by the server in the middle of the backlog: publisher by publisher an intact prefix
            for pc, a in real.items():
                b = es.get(pc, [])
                if not (a == b[:len(a)] or (a[:-1] == b[:len(a) - 1] and a[-1] in b)):
                    k = first_diff(a, b)
                    fails.append(dict(base, kind="stream", shape="backlog", conn=x, publisher=pc, frames_read=n_real, frames_due=n_due, first_difference_at=k,
                                      impl="|".join(map(short, a[k:k + 4])) or ".", want="|".join(map(short, b[k:k + 4])) or ".",
                                      why="subscriber %d, which the server closed during the backlog, did not read an intact prefix of publisher %s's messages" % (x, pc)))
            continue
        if real != es:
            pc = next(k for k in sorted(set(real) | set(es), key=str) if real.get(k) != es.get(k))
            a, b = real.get(pc, []), es.get(pc, [])
            k = first_diff(a, b)
            corrupt = any(e.find("CORRUPT") >= 0 for v in real.values() for e in v)
            fails.append(dict(base, kind="stream", shape="backlog", conn=x, publisher=pc, frames_read=n_real, frames_due=n_due, first_difference_at=k,
                              impl="|".join(map(short, a[k:k + 4])) or ".", want="|".join(map(short, b[k:k + 4])) or ".",
                              why="the %s subscriber %d did not read publisher %s's messages as published, in order%s" % (
                                  "slow" if x in slow else "fast", x, pc, " (a payload is not one that was published)" if corrupt else "")))
        elif real != ec:
            pc = next(k for k in sorted(set(real) | set(ec), key=str) if real.get(k) != ec.get(k))
            dis.append(dict(base, conn=x, publisher=pc, impl="|".join(map(short, real.get(pc, [])[:4])) or ".", code="|".join(map(short, ec.get(pc, [])[:4])) or "."))
    for x in sorted(dropped):
        if x in (1, 2, 3, 4):
            check.ask_model("disc %d" % x)
            orc.disc(x)
            for y in (1, 2, 3, 4):
                recv_diff(check, prev, y)
    if dropped:
        tcp.settle()
    return bidx + len(specs)


def cmd_text(x):
    if x[0] == "ping":
        return "PING"
    if x[0] == "pub":
        return "PUBLISH %s %s" % (hx(x[1]), hx(x[2]))
    return "%s%s %s" % ("P" if x[1] == "p" else "", "SUBSCRIBE" if x[0] == "sub" else "UNSUBSCRIBE", "*" if x[2] is None else hexlist(x[2]))


def pipe_text(op):
    return "pipe %d [%s]%s" % (op[1], " | ".join(cmd_text(x) for x in op[2]), "" if op[3] is None else " cut@%d" % op[3])


def burst_text(op):
    specs = op[2]
    head = ", ".join("%d>%s:%dB" % (pc, hx(ch), size) for pc, ch, size in specs[:6])
    return "burst slow=%s %d messages %d bytes [%s%s]" % (sorted(op[1]), len(specs), sum(x[2] for x in specs), head, ", …" if len(specs) > 6 else "")


def tcp_history(check, tcp, ops, record=True):
    """One history on the real server, the Lean models and the oracle.  Returns (fails, dis).

    A `disc` operation ends the connection in the way its third component says (END_MODES); the
    modes that need output queued for the dying connection put one or more PUBLISHes by the
    harness's own publisher in flight.  After every ending of a connection that held subscriptions
    the harness publishes a probe on each channel that connection was receiving on: the reply must
    be the model's count (a disconnected connection holds nothing)."""
    rep = check.rep
    fails, dis = [], []
    if tcp.ghosts or not record:
        # never let anything of another history linger on the server; shrinking and replays always get a fresh server
        tcp.restart()
    else:
        tcp.reset()
    check.ask_model("reset")
    orc = Oracle()
    prev = {c: ([], []) for c in (1, 2, 3, 4)}
    seen = set()
    state = {"bidx": 0}

    def expand(op):
        """the steps one operation of the history consists of"""
        if op[0] != "disc":
            yield op
            return
        c, mode = op[1], (op[2] if len(op) > 2 else "close")
        h = orc.held.get(c) or {"c": [], "p": []}
        h = {"c": list(h["c"]), "p": list(h["p"])}
        on = matching_channels(h, seen)
        if mode in QUEUED_MODES and not on:
            mode = "close" if mode == "fin-queued" else "reset"      # nothing can be queued for it
        ch = on[0] if on else (sorted(seen)[0] if seen else b"news")
        yield ("end", c, mode, ch)
        if h["c"] or h["p"] or mode == "quit-pipelined":
            for pch in (on or [ch])[:3]:
                yield ("pub", AUX, pch, b"probe\r\n", "probe")

    for i, op0 in enumerate(ops):
        for op in expand(op0):
            line0 = op_line(op0, check.dedup)
            skip = set()
            inflight, lines, reply, probe = [], [], None, len(op) > 4
            kill, kill_pre, refuse = False, [], False
            try:
                if op[0] == "end":
                    c, mode, ch = op[1], op[2], op[3]
                    had = c in tcp.socks
                    before, during, presub, inflight = tcp.end(c, mode, ch)
                    got = {c: before + during}
                    tcp.drain_rest(got)
                    if presub is not None and had:
                        lines.append(op_line(("sub", c, "c", [presub]), check.dedup))
                        orc.sub(c, "c", [presub])
                    kill = mode in ("kill-exec", "kill-pipelined") and had
                    kill_pre = ["m:%s:%s" % (hx(ch), hx(inflight[0][0])) if d[1] is None else "p:%s:%s:%s" % (hx(d[1]), hx(ch), hx(inflight[0][0]))
                                for d in orc.deliveries(ch) if d[0] == c] if kill else []
                    if kill:
                        # the server closed the connection BEFORE the killer's PUBLISH: close is the event after which
                        # nothing is delivered and nothing counted
                        lines.append("disc %d" % c)
                        lines.append(op_line(("pub", AUX, ch, inflight[0][0]), check.dedup))
                    else:
                        for payload, _ in inflight:
                            lines.append(op_line(("pub", AUX, ch, payload), check.dedup))
                            skip.add(c)          # what was queued for the dying connection is lost with it
                        lines.append("disc %d" % c)
                    h = orc.held.get(c)
                    if h and (h["c"] or h["p"]):
                        tcp.ghosts.append({"c": list(h["c"]), "p": list(h["p"])})
                    queued = bool(inflight)
                    if record:
                        rep.count("tcp.end.%s.%s" % (mode, "subscribed" if h and (h["c"] or h["p"]) else "not-subscribed"))
                        rep.nontrivial(("tcp-end", mode, bool(h and h["c"]), bool(h and h["p"]), queued))
                    line = "end %d %s %s" % (c, mode, hx(ch))
                elif op[0] == "pipe":
                    pipe_step(check, tcp, i, op, orc, prev, seen, fails, dis, record)
                    continue
                elif op[0] == "burst":
                    state["bidx"] = burst_step(check, tcp, i, op, orc, prev, seen, fails, dis, record, state["bidx"])
                    continue
                elif op[0] == "bpub":
                    bpub_step(check, tcp, i, op, orc, prev, seen, fails, dis, record)
                    continue
                else:
                    got, reply = tcp.do(op)
                    line = op_line(op, check.dedup)
                    refuse = check.gate and op[0] == "pub" and op[1] != AUX and orc.count(op[1]) > 0
                    if refuse:
                        if record:
                            rep.count("tcp.publish-refused-in-subscriber-context")
                    else:
                        lines.append(line)
            except (TimeoutError, tcp.srvmod.Closed, tcp.srvmod.ProtocolError, OSError) as e:
                if isinstance(e, tcp.srvmod.ProtocolError):
                    fails.append({"i": i, "kind": "stream", "shape": "unparsable", "op": line0, "impl": "%s: %s" % (type(e).__name__, e), "layer": "tcp",
                                  "why": "the bytes a connection read do not parse as RESP frames (messages not intact)"})
                else:
                    fails.append({"i": i, "kind": "total", "op": line0, "impl": "%s: %s" % (type(e).__name__, e), "layer": "tcp",
                                  "why": "no (well-formed) reply from the server; alive=%s %s" % (tcp.srv.alive(), tcp.srv.log_tail(300))})
                tcp.ghosts.append({"c": [], "p": []})     # force a fresh server for the next history
                return fails, dis
            base0 = {"i": i, "op": line, "layer": "tcp"}
            # ---- the model side of this step
            answers = [check.ask_model(l) for l in lines]
            if record:
                rep.evaluations += 1
                rep.count("tcp.op." + (op[0] if not probe else "probe"))
            if op[0] == "end":
                # publishes in flight while the connection was going away: the reply may or may not count it
                pubs = [split_cs(a, ("C", "S")) for l, a in zip(lines, answers) if l.startswith("pub ")]
                if kill:
                    n_r, n_s = inflight[0][1], len(parse_dels(pubs[0]["S"]))
                    if n_r != n_s:
                        fails.append(dict(base0, kind="publish", impl="n:%s" % n_r, want="n:%d" % n_s,
                                          shape="closing-subscriber-counted" if n_r == n_s + len(kill_pre) else "other",
                                          why="a PUBLISH executed after the server had closed connection %d (CLIENT KILL) still counts it" % op[1]))
                    pubs, inflight = [], []
                for (payload, n_r), m in zip(inflight, pubs):
                    sd = parse_dels(m["S"])
                    lo, hi = sum(1 for d in sd if d[0] != op[1]), len(sd)
                    if n_r is None or not (lo <= n_r <= hi):
                        fails.append(dict(base0, kind="publish", shape="in-flight", impl="n:%s" % n_r, want="n:%d..%d" % (lo, hi),
                                          why="reply to a PUBLISH that was in flight while connection %d went away is outside what its subscribers allow" % op[1]))
                orc.disc(op[1])
            elif op[0] == "sub":
                want_acks = orc.sub(op[1], op[2], op[3])
                seen.update(op[3] if op[2] == "c" else [])
            elif op[0] == "unsub":
                held_before = orc.count(op[1])
                want_acks = orc.unsub(op[1], op[2], op[3])
                if op[3] is None and not want_acks:
                    want_acks = [(None, orc.count(op[1]), False)]     # nil name, remaining count
            elif op[0] == "pub" and not refuse:
                seen.add(op[2])
            gmax = 0
            if op[0] == "pub" and not refuse:
                gmax = sum((1 if op[2] in g["c"] else 0) + sum(1 for p in g["p"] if spec_glob(p, op[2])) for g in tcp.ghosts)
            if op[0] == "pub" and op[1] == AUX:
                # the harness's own publisher: its reply is compared here (it has no stream in the model)
                m = split_cs(answers[0], ("C", "S"))
                n_c, n_s = len(parse_dels(m["C"])), len(parse_dels(m["S"]))
                want = orc.deliveries(op[2])
                if len(want) != n_s:
                    dis.append(dict(base0, lean_spec="n:%d" % n_s, oracle="n:%d" % len(want), what="Lean Spec vs Python oracle"))
                if reply != n_s:
                    shape = "other"
                    if reply is not None and n_c == n_s and n_s < reply <= n_s + gmax:
                        shape = "dead-subscriber-counted"
                    elif reply == n_c and n_c < n_s:
                        shape = "one-per-connection"
                    fails.append(dict(base0, kind="publish", conn=AUX, impl="n:%s" % reply, want="n:%d" % n_s, shape=shape,
                                      why="PUBLISH reply is not the number of deliveries to the clients subscribed at that moment "
                                          "(connections that went away before: %d)" % len(tcp.ghosts)))
                elif reply != n_c:
                    dis.append(dict(base0, conn=AUX, impl="n:%s" % reply, code="n:%d" % n_c))
                if record:
                    rep.nontrivial(("tcp-probe" if probe else "tcp-auxpub", min(n_s, 3), reply == n_s))
            # ---- every logical connection's stream
            for c in (1, 2, 3, 4):
                m = split_cs(check.ask_model("recv %d %d %d" % (check.dedup, check.idle, c)), ("C", "S"))
                ec, es = parse_events(m["C"]), parse_events(m["S"])
                new_c, new_s = ec[len(prev[c][0]):], es[len(prev[c][1]):]
                prev[c] = (ec, es)
                if c in skip:
                    continue
                if refuse and c == op[1]:
                    new_c, new_s = new_c + ["refused"], new_s + ["refused"]
                real = got.get(c, [])
                if record:
                    rep.evaluations += 1
                ua = op[0] == "unsub" and op[3] is None and c == op[1]
                ints_r, real_f = canon_events(real, ua)
                ints_c, code_f = canon_events(new_c, ua)
                ints_s, spec_f = canon_events(new_s, ua)
                base = dict(base0, conn=c)
                if c == op[1] and op[0] in ("sub", "unsub"):
                    # the confirmations due, from the oracle written here (cross-check of the Lean Spec)
                    want_ev = ["a:%s:%d:%s:%d" % (op[2], 1 if op[0] == "unsub" else 0, hx(a[0]) if a[0] is not None else "_", a[1]) for a in want_acks]
                    if canon_events(want_ev, ua)[1] != spec_f:
                        dis.append(dict(base, lean_spec="|".join(new_s) or ".", oracle="|".join(want_ev) or ".", what="Lean Spec vs Python oracle"))
                    if record and op[0] == "unsub" and any(a[0] is None for a in want_acks):
                        rep.count("tcp.unsub.nil-name-confirmation")
                    if record and op[0] == "unsub" and held_before == 0:
                        rep.count("tcp.unsub.client-holds-nothing")
                # -- the property, judged on what the sockets delivered
                if real_f != spec_f:
                    shape = "other"
                    if op[0] == "pub" and len(real_f) == 1 and len(spec_f) >= 2 and real_f[0] in spec_f and \
                            (real_f[0].startswith("m:") or not any(e.startswith("m:") for e in spec_f)):
                        shape = "one-per-connection"
                    if kill and c == op[1] and not spec_f and real_f == sorted(kill_pre):
                        shape = "closing-subscriber-delivered"      # it read, before EOF, what was published after the server closed it
                    fails.append(dict(base, kind="stream", impl="|".join(real[:8]) or ".", want="|".join(new_s[:8]) or ".", shape=shape,
                                      why="frames read by connection %d differ from one per matching subscription / the acknowledgements due" % c))
                if ints_r != ints_s:
                    det = dict(base, kind="publish", impl="|".join(ints_r) or ".", want="|".join(ints_s) or ".",
                               why="PUBLISH reply is not the number of deliveries to the clients subscribed at that moment "
                                   "(connections that went away before: %d)" % len(tcp.ghosts))
                    if op[0] == "pub" and len(ints_r) == len(ints_c) == len(ints_s) == 1:
                        n_r, n_c, n_s = int(ints_r[0][2:]), int(ints_c[0][2:]), int(ints_s[0][2:])
                        if 0 <= n_r - n_c <= gmax and n_c <= n_s:
                            if n_r > n_c:
                                fails.append(dict(det, shape="dead-subscriber-counted", ghosts=n_r - n_c))
                            if n_c < n_s:
                                fails.append(dict(det, shape="one-per-connection"))
                        else:
                            fails.append(dict(det, shape="other"))
                    else:
                        fails.append(dict(det, shape="other"))
                # -- correspondence with Code, up to hash-map order; a dead subscriber still being counted is a
                #    defect of the connection handling, which Code (the manager) does not contain
                ok_c = real_f == code_f
                if not ok_c and check.dedup and sorted(e.split(":")[0] for e in real_f) == sorted(e.split(":")[0] for e in code_f):
                    # which matching pattern a de-duplicated pmessage names depends on hash-map order
                    ok_c = all(e in spec_f for e in real_f)
                if not ok_c and kill and c == op[1] and real_f == sorted(kill_pre) and not check.rel:
                    ok_c = True       # the lag between marking and removal is connection handling (switch releaseAtClose), exhibited above
                if not ok_c:
                    dis.append(dict(base, impl="|".join(real[:8]) or ".", code="|".join(new_c[:8]) or "."))
                if ints_r != ints_c:
                    if not (len(ints_r) == len(ints_c) == 1 and 0 < int(ints_r[0][2:]) - int(ints_c[0][2:]) <= gmax):
                        dis.append(dict(base, impl="|".join(ints_r) or ".", code="|".join(ints_c) or "."))
                if record and (real or new_s):
                    rep.nontrivial(("tcp", op[0], c == op[1], min(len(real_f), 3), min(len(spec_f), 3), real_f == spec_f, ints_r == ints_s))
    return fails, dis


def gen_pipe(r, c, chans, pats):
    """2-7 commands of one connection for one write: subscribe-family commands, PUBLISH to channels it may or may
    not hold, PING"""
    cmds = []
    for _ in range(r.range(2, 7)):
        k = r.below(100)
        if k < 22:
            cmds.append(("sub", "c", [r.choice(chans) for _ in range(r.choice([1, 1, 2]))]))
        elif k < 38:
            cmds.append(("sub", "p", [r.choice(pats) for _ in range(r.choice([1, 1, 2]))]))
        elif k < 48:
            cmds.append(("unsub", r.choice(["c", "p"]), [r.choice(chans + pats) for _ in range(r.choice([1, 2]))]))
        elif k < 56:
            cmds.append(("unsub", r.choice(["c", "p"]), None))
        elif k < 88:
            cmds.append(("pub", r.choice(chans), gen_payload(r)[:20]))
        else:
            cmds.append(("ping",))
    n = sum(len(Tcp_encode_len(x)) for x in cmds)
    split = None if r.chance(1, 2) else r.range(1, max(n - 1, 1))
    return ("pipe", c, cmds, split)


def Tcp_encode_len(cmd):
    import server as srvmod
    return srvmod.Client.encode(Tcp.encode_cmd(cmd))


BURST_SIZES = [1, 2, 64, 65, 100, 1000, 5000, 70000, 300000]


def gen_burst(r, chans):
    slow = [r.choice([1, 2, 3, 4])]
    if r.chance(1, 3):
        slow.append(r.choice([1, 2, 3, 4]))
    slow = sorted(set(slow))
    pubs = [c for c in (1, 2, 3, 4, AUX) if c not in slow]
    specs = [(r.choice(pubs), r.choice(chans), r.choice(BURST_SIZES)) for _ in range(r.range(3, 40))]
    return ("burst", slow, specs)


def gen_tcp_history(r, n_ops):
    u = {}
    ops = gen_history(r, n_ops, server_like=True, universe=u)
    out = []
    for o in ops:
        k = r.below(100)
        if k < 14:
            out.append(gen_pipe(r, r.choice([1, 2, 3, 4]), u["chans"], u["pats"]))
        elif k < 17:
            out.append(gen_burst(r, u["chans"]))
        elif k < 20:
            out.append(("bpub", r.choice([1, 2, 3, 4])))
        out.append((o[0], o[1], r.choice(END_MODES)) if o[0] == "disc" else o)
    return out


def pipeline_corpus():
    """[(tag, history)]: pipelines that mix subscribe-family commands, PUBLISH to channels the same connection holds /
    does not hold, PING, with another connection subscribed; the first one also in EVERY two-way split of its bytes"""
    setup = [("sub", 2, "c", [b"a"]), ("sub", 2, "p", [b"b*"])]
    p1 = [("sub", "c", [b"a"]), ("pub", b"a", b"m1"), ("sub", "p", [b"b*", b"a*"]), ("pub", b"a", b"m2"), ("unsub", "c", None),
          ("pub", b"a", b"m3"), ("pub", b"bb", b"m4"), ("ping",), ("unsub", "p", None), ("pub", b"a", b"m5"), ("unsub", "c", [b"zz"])]
    p2 = [("pub", b"a", b"x"), ("ping",), ("sub", "c", [b"a", b"bb"]), ("ping",), ("pub", b"bb", b"y"), ("pub", b"nobody", b"z"),
          ("sub", "p", [b"*"]), ("pub", b"a", b"w"), ("unsub", "c", [b"a"]), ("unsub", "p", [b"*"]), ("pub", b"a", b"v"), ("ping",)]
    n1 = sum(len(Tcp_encode_len(x)) for x in p1)
    out = [("tcp-pipe-one-write", setup + [("pipe", 1, p1, None), ("pub", 3, b"a", b"after"), ("pipe", 3, p2, None), ("pipe", 1, p2, None)])]
    for cutpos in range(1, n1):
        out.append(("tcp-pipe-split", setup + [("pipe", 1, p1, cutpos), ("pub", 3, b"a", b"after")]))
    k, bounds = 0, []
    for x in p2:
        k += len(Tcp_encode_len(x))
        bounds += [k - 3, k, k + 5]
    n2 = sum(len(Tcp_encode_len(x)) for x in p2)
    for cutpos in sorted(set(b for b in bounds if 0 < b < n2)):
        out.append(("tcp-pipe-split", setup + [("pipe", 4, p2, cutpos), ("pub", 1, b"a", b"after")]))
    return out


def backlog_corpus(tier):
    """[(tag, history)]: slow subscribers (a channel and a pattern subscriber that read nothing during the burst) and a
    fast one on the same channel; several publishers; one very large message, a ladder of sizes, many small messages"""
    setup1 = [("sub", 1, "c", [b"big"]), ("sub", 2, "p", [b"b*"]), ("sub", 3, "c", [b"big"])]
    setup = setup1 + [("sub", 3, "p", [b"*g"])]
    out = [("tcp-backlog-16MiB", setup1 + [("burst", [1, 2], [(4, b"big", 8), (AUX, b"big", 16 << 20), (4, b"big", 5)]),
                                          ("pub", 4, b"big", b"after"), ("unsub", 1, "c", None)]),
           ("tcp-backlog-ladder", setup1 + [("burst", [1, 2], [(p, b"big", n) for n, p in zip([1, 2, 64, 65, 1000, 65536, 1 << 20, 4 << 20, 3, 2 << 20], [4, AUX, 3, 4, AUX, 3, 4, AUX, 3, 4])]),
                                           ("pub", 4, b"big", b"after")]),
           ("tcp-backlog-many-small", setup + [("burst", [1, 2], [((4, AUX, 3)[k % 3], b"big", 4096 + k % 7) for k in range(1500)]),
                                               ("pub", 4, b"big", b"after"), ("disc", 1, "close"), ("pub", 4, b"big", b"x")])]
    if tier == "thorough":
        out.append(("tcp-backlog-16+8MiB", setup1 + [("burst", [1, 2], [(4, b"big", 16 << 20), (4, b"big", 1)]), ("burst", [2], [(AUX, b"big", 8 << 20), (3, b"big", 3)]),
                                                     ("pub", 4, b"big", b"after")]))
        out.append(("tcp-backlog-many-small", setup + [("burst", [2], [((4, AUX, 1)[k % 3], b"big", 200 + k % 11) for k in range(20000)]),
                                                       ("pub", 4, b"big", b"after")]))
    return out


def ending_matrix():
    """every way a subscriber connection can end x what it holds (channel, pattern, both), each followed
    by a fresh subscriber, a publish, its unsubscription and another publish"""
    out = []
    for mode in END_MODES:
        for held in ("c", "p", "cp"):
            ops = [("sub", 2, "c", [b"feed"])]
            if "c" in held:
                ops.append(("sub", 1, "c", [b"feed"]))
            if "p" in held:
                ops.append(("sub", 1, "p", [b"fe*", b"*"]))
            ops += [("pub", 3, b"feed", b"before"), ("disc", 1, mode), ("pub", 3, b"feed", b"after"),
                    ("sub", 4, "c", [b"feed"]), ("pub", 3, b"feed", b"hello"), ("unsub", 4, "c", [b"feed"]), ("unsub", 2, "c", None),
                    ("pub", 3, b"feed", b"nobody"), ("sub", 1, "c", [b"feed"]), ("pub", 3, b"feed", b"back")]
            out.append((mode, held, ops))
    return out


def classify(kind, det, findings):
    """Does this oracle failure match a listed finding?  (by the finding's shape)"""
    for f in findings:
        if f.get("match") == "publish-one-delivery-per-connection" and kind in ("publish", "stream") and det.get("shape") == "one-per-connection":
            return f
        if f.get("match") == "dead-subscriber-counted" and kind == "publish" and det.get("shape") == "dead-subscriber-counted":
            return f
        if f.get("match") == "closing-subscriber" and det.get("shape") in ("closing-subscriber-counted", "closing-subscriber-delivered"):
            return f
        if f.get("match") == "no-subscriber-context" and det.get("shape") in ("deferred-while-blocked", "overtakes-earlier-reply"):
            return f
    return None


def strip(d):
    return {k: v for k, v in d.items() if k != "history"}


def minimal_replay(c, kind, det):
    """shrink the history of an oracle failure to the smallest one failing in the same way"""
    if "history" not in det:
        return {"family": "pubsub", "layer": "glob", "ops": [det["op"]], "failure": strip(det)}
    layer = det.get("layer", "inproc")
    ops = det["history"][:det["i"] + 1]
    want_kind, want_shape = kind, det.get("shape")
    same = lambda fs, ds: any(f["kind"] == want_kind and f.get("shape") == want_shape for f in fs)
    small = c.shrink(ops, same, layer)
    fs, _ = c.rerun(small, layer)
    f0 = next((f for f in fs if f["kind"] == want_kind and f.get("shape") == want_shape), det)
    return {"family": "pubsub", "layer": layer, "dedup": c.dedup, "ops": [op_json(o) for o in small],
            "lines": [op_line(o, c.dedup) for o in small], "failure": strip(f0)}


def main(tier, seed):
    rep = Report("C14", tier, seed)
    rep.rule = ("in-process: histories of 8-40 operations by connections 1..4 over 3 channels x 3 patterns drawn from overlapping pools "
                "(news, n*, *, n?ws, ne\\*s, binary names, ...): SUBSCRIBE/PSUBSCRIBE (1-3 names, repeats), (P)UNSUBSCRIBE named and all, "
                "unsubscribe_all (disconnect), PUBLISH with binary payloads; after each operation the returned acknowledgements / receiver "
                "lists, and every 5 operations get_subscription_info / is_subscribed / channel_subscriber_count, are compared with Code and "
                "judged by the set-of-subscriptions oracle; pattern_matches vs Code.globBytes vs Spec.glob vs a regex oracle on grammar-"
                "generated pairs and on all pairs of a small scope (model validation). TCP: the same kind of histories with 4 client sockets "
                "on the real server; a disconnect ends the connection in one of 8 ways (FIN / QUIT / RST with nothing queued, half-close, SUBSCRIBE+QUIT "
                "pipelined, FIN / RST while a message for it is queued behind SLEEP+PUBLISH in one write, RST inside an unread burst of 60 publishes), "
                "the full matrix way x {channel, pattern, both} runs first; after every ending the harness's own publisher probes every channel the "
                "connection was receiving on (the model says a disconnected connection holds nothing); after every operation every live socket is "
                "drained up to a PING barrier and the frames are compared with the per-connection streams of Code and Spec. Pipelines: 2-12 commands of "
                "one connection in ONE write (subscribe-family, PUBLISH to channels it holds / does not hold, PING), also cut into two writes (one "
                "pipeline at EVERY byte position, the others at and around command boundaries and at random positions), other connections in between: "
                "every command gets its acknowledgement(s)/count in order, messages in publish order and after the acknowledgements of earlier "
                "(un)subscriptions of the same write. Backlogs: slow subscribers (channel and pattern) that read nothing while several publishers "
                "pipeline N messages of 1 B .. 16 MiB (one 16 MiB message, a ladder of sizes, 1500 x 4 KiB; random ones in the histories), a fast "
                "subscriber on the same channel: afterwards every stream must parse and equal the model's per-subscriber sequence byte for byte "
                "(large payloads are compared by content and travel to the Lean model as tokens). "
                "distinct = (operation, kind, sizes, outcome class) tuples")
    rep.assumptions = [
        "HashMap/HashSet iteration order is arbitrary: acknowledgements of an argument-less (P)UNSUBSCRIBE and receiver lists are compared as multisets; "
        "under de-duplication the pattern named in a pmessage is any matching pattern the connection holds",
        "bytes are modelled as Nat; the harness sends values < 256 only",
        "the mutexes of PubSubManager are not modelled: the server calls it from the single command thread only",
        "pub/sub uses the server's one glob matcher (storage::engine::pattern_matches, shared with KEYS / SCAN MATCH): Spec.glob is Redis's glob, "
        "* ? [...] \\x with stringmatchlen's rules for classes",
        "in-process layer: PubSubManager::unsubscribe/punsubscribe return no result for a connection without an entry; the confirmations a client "
        "holding nothing is due are written by handle_unsubscribe/handle_punsubscribe and are judged on the TCP layer (model: Code.unsubEvents)",
        "TCP layer: one command at a time per connection (no pipelining); frames are attributed to operations by PING barriers; "
        "when the server notices a closed socket is connection handling (server.rs), not part of the Lean model: the model's `disconnect` is the call of unsubscribe_all",
    ]
    ok, log, errs = proof_phase(rep, families=["pubsub"])
    build_harness("pubsub")
    build_server()
    facts = source_facts()
    dedup, keeps_dead, idle = facts["dedup"], facts["keeps_dead"], facts["acks_when_idle"]
    rel, gate = facts["releases_at_close"], facts["subscriber_gate"]
    rep.extra["source_acks_when_idle"] = idle
    rep.extra["source_releases_at_close"] = rel
    rep.extra["source_subscriber_gate"] = gate
    rep.extra["source_dedup"] = dedup
    rep.extra["source_keeps_dead_subscribers"] = keeps_dead
    findings = load_findings()
    c = C14(rep, True if dedup is None else dedup, True if idle is None else idle, bool(gate))
    c.rel = bool(rel)
    try:
        c.run(seed, tier)
        rep.traces_validated = rep.evaluations
        # ---- verdict (DESIGN 2.5)
        new_fail, seen_known = [], {}
        for kind, det in c.oracle_failures:
            f = classify(kind, det, findings)
            if f:
                if f["id"] not in seen_known or len(det.get("history", [])) < len(seen_known[f["id"]][1].get("history", [])):
                    seen_known[f["id"]] = (f, det)
                rep.count("known." + f["id"])
            else:
                new_fail.append((kind, det))
        for fid, (f, det) in seen_known.items():
            rep.known(fid, f["what"])
        for f in findings:
            fixed_in_source = (f.get("match") == "publish-one-delivery-per-connection" and dedup is False) or \
                              (f.get("match") == "dead-subscriber-counted" and keeps_dead is False) or \
                              (f.get("match") == "closing-subscriber" and rel is True) or \
                              (f.get("match") == "no-subscriber-context" and gate is True)
            if f["id"] not in seen_known and not fixed_in_source:
                rep.violation("known finding %s no longer reproduces: model/known-findings file is stale" % f["id"],
                              {"finding": f, "obligation": f.get("lean_witness")}, no_input=True)
        if new_fail:
            new_fail.sort(key=lambda kd: (len(kd[1].get("history", [])), len(json.dumps(strip(kd[1]), default=repr))))
            kind, det = new_fail[0]
            replay_obj = minimal_replay(c, kind, det)
            rep.violation("C14 %s oracle fails on the implementation: %s" % (kind, det["why"]),
                          {"replay": replay_obj, "others": [strip(d) for _, d in new_fail[1:6]], "lean_errors": errs[:5]})
        elif not ok:
            rep.violation("proof obligations of C14 no longer check", {"theorem_errors": errs[:10], "log_tail": log[-3000:]}, no_input=True)
        elif dedup is None:
            rep.violation("PubSubManager::publish not found in src/pubsub.rs: the model switch `dedup` cannot be tied to the source",
                          {"correspondence": "translator/pubsub_consts.py facts()"}, no_input=True)
        elif c.disagreements:
            d0 = c.disagreements[0]
            small = None
            if "history" in d0:
                small = c.shrink(d0["history"][:d0["i"] + 1], lambda fs, ds: bool(ds), d0.get("layer", "inproc"))
            rep.violation("correspondence Code.PubSub vs implementation broke (%d disagreements) but the property oracles hold on everything explored" % len(c.disagreements),
                          {"correspondence": "Ferrous.PubSub.{subscribe,unsubscribe,unsubscribeAll,publish,globBytes,Code.log} vs ferrous::pubsub / the server",
                           "layer": d0.get("layer", "inproc"),
                           "ops": [op_json(o) for o in small] if small else None,
                           "lines": [op_line(o, c.dedup) for o in small] if small else None,
                           "disagreements": [strip(d) for d in c.disagreements[:10]]}, no_input=True)
        rep.extra["model_disagreements"] = len(c.disagreements)
        rep.extra["oracle_failures"] = len(c.oracle_failures)
    finally:
        c.close()
    return rep.finish()


def replay(path):
    """Re-execute a replay file against the implementation built from the current tree."""
    obj = json.load(open(path))
    rp = obj.get("replay") or obj
    rep = Report("C14", "replay", obj.get("seed", 0))
    build_driver("pubsub")
    build_harness("pubsub")
    facts = source_facts()
    dedup, idle = facts["dedup"], facts["acks_when_idle"]
    c = C14(rep, True if dedup is None else dedup, True if idle is None else idle, bool(facts["subscriber_gate"]))
    c.rel = bool(facts["releases_at_close"])
    try:
        if rp.get("ops") and isinstance(rp["ops"][0], list):
            layer = rp.get("layer", "inproc")
            if layer == "tcp":
                build_server()
            ops = [op_unjson(j) for j in rp["ops"]]
            fails, dis = c.rerun(ops, layer)
            print("layer: %s, de-duplication in source: %s" % (layer, dedup))
            for o in ops:
                print("  " + op_line(o, c.dedup))
            for f in fails:
                print("ORACLE-FAILURE %s/%s: %s conn=%s impl=%s want=%s (%s)" % (f["kind"], f.get("shape"), f["op"], f.get("conn"), f.get("impl"), f.get("want"), f["why"]))
            for d in dis:
                print("MODEL-DISAGREEMENT %s" % strip(d))
            findings = load_findings()
            bad = [f for f in fails if not classify(f["kind"], f, findings)]
            print("replay: %d oracle failures (%d outside known findings), %d model disagreements" % (len(fails), len(bad), len(dis)))
            return 1 if bad or dis else 0
        for line in rp.get("ops", []):
            p, t = line.split(" ")[1:3]
            c.glob_batch(unhx(p), [unhx(t)], "replay")
        for k, d in c.oracle_failures:
            print("ORACLE-FAILURE %s: %s impl=%s want=%s" % (k, d["op"], d.get("impl"), d.get("want")))
        print("replay: %d oracle failures, %d model disagreements" % (len(c.oracle_failures), len(c.disagreements)))
        return 1 if c.oracle_failures or c.disagreements else 0
    finally:
        c.close()
