"""C02 — expiration is exact.

Deciding artefact: lean/FerrousSpec/Props/C02.lean (index agreement, no spurious delete over all interleavings of
storage calls with the two sweeper phases, never early / never late as refinement of the instant-expiry store,
TTL bookkeeping, TTL/PTTL reply arithmetic).  This module ties the model (`Exp.step`, `sweepCollect`, `sweepDelete`,
`Exp.cmd`) to the real server over TCP with the sweeper hooks.  Time is NOT mocked: every request is bracketed with
the harness's monotonic clock, the model is given the bracket midpoint, operations are planned >= 60 ms away from
every deadline, and anything whose actual timestamps left its window is discarded and counted.

 (A) matrix, sweeper PAUSED: every command x {before deadline, after deadline unswept} x six value types, each cell on
     a fresh key, next to a "present twin" (same key, TTL x1000) and an "absent twin" (key never created) in other
     databases: the reply is classified as-on-a-present-key / as-on-an-absent-key on BOTH sides (server, model) and the
     stored state afterwards is read through EXISTS / PTTL / TYPE.  Judge: the prescribed store (absent after the deadline).
 (B) random schedules on a 300 ms grid (TTLs 300/600/900 ms), sweeper stepped (RESUME .. one pass .. PAUSE) or parked
     at the gate between collect and delete with commands in the window; exact replies compared with the model of the
     code and with the prescribed store run on the same history.
 (C) scripted scenarios: the collect/delete window (gate) and the stale-index deletions with the sweeper RUNNING.
"""
import os
import sys
import time

from common import *
from server import Server, Closed, ProtocolError, show_reply

sys.path.insert(0, os.path.join(VERIF, "translator"))

PID = "C02"
PENDING_FINDINGS = os.path.join(VERIF, "pending_repo_patches", "C02_findings.json")
MARGIN = 60          # ms between any operation and any deadline it could observe
SLOT = 40            # ms an operation slot may take
TYPES = ["string", "list", "set", "hash", "zset", "stream"]
LONG = 100000        # a TTL (ms) that never elapses during a run


def findings():
    fs = [f for f in load_known_findings().get("open", []) if isinstance(f, dict) and f.get("property") == PID]
    have = {f["id"] for f in fs}
    if os.path.exists(PENDING_FINDINGS):
        for f in json.load(open(PENDING_FINDINGS)):
            if f.get("property") == PID and f["id"] not in have:
                fs.append(f)
    ign = os.environ.get("VERIF_C02_IGNORE_FINDINGS")     # self-test of the violation path only: "all" or ids
    if ign:
        fs = [] if ign == "all" else [f for f in fs if f["id"] not in ign.split(",")]
    return fs


def translator_facts():
    import extract
    import expiry_tables
    f = expiry_tables.facts(extract.src, extract.strip_comments, extract.fn_body)
    return f, expiry_tables.derived(f)


def cfg_line(f, d):
    def names(xs):
        return ",".join(xs) if xs else "-"
    return ("cfg sweeperRechecks=%d setValueDropsStale=%d setNxDropsStale=%d renameMovesIndex=%d emptiedDropsIndex=%d lazy=%s reaps=%s" % (
        f["sweeperRechecks"], d["setValueDropsStale"], d["setNxDropsStale"], d["renameMovesIndex"], d["emptiedDropsIndex"],
        names(d["lazyChecked"]), names(d["reaping"])))


# --------------------------------------------------------------------------
# commands: one description -> the wire form and the abstract form the model takes
# --------------------------------------------------------------------------
class C:
    """name, key, key2, n (number / delta), ttl (ms), cond (0 none, 1 NX, 2 XX), wire arguments"""

    def __init__(self, name, key, wire, key2=None, n=0, ttl=None, cond=0, mname=None):
        self.name, self.key, self.key2, self.n, self.ttl, self.cond = name, key, key2, n, ttl, cond
        self.wire = [x if isinstance(x, bytes) else str(x).encode() for x in wire]
        self.mname = mname or name

    def line(self, db, now):
        return "cmd %d %d %s %s %s %d %s %d" % (db, now, self.mname, hx(self.key), hx(self.key2) if self.key2 is not None else "_",
                                                self.n, "_" if self.ttl is None else str(self.ttl), self.cond)

    def text(self):
        return " ".join(a.decode("latin-1") for a in self.wire)


def setup_cmds(typ, k):
    """create key `k` of type `typ` with the fixed content the matrix commands expect"""
    if typ == "string":
        return [C("SET", k, ["SET", k, "55"], n=55)]
    if typ == "list":
        return [C("RPUSH", k, ["RPUSH", k, "a"], n=1)]
    if typ == "set":
        return [C("SADD", k, ["SADD", k, "a"], n=1)]
    if typ == "hash":
        return [C("HSET", k, ["HSET", k, "f", "5"], n=1)]
    if typ == "zset":
        return [C("ZADD", k, ["ZADD", k, "1", "a"], n=1)]
    if typ == "stream":
        return [C("XADD", k, ["XADD", k, "1-1", "f", "v"], n=1)]
    raise ValueError(typ)


def pexpire(k, ms):
    return C("PEXPIRE", k, ["PEXPIRE", k, ms], ttl=ms)


OTHER = b"other"     # a live key without TTL present in every matrix database (source of the RENAME-onto variants)


def matrix_commands(k):
    """(label, command) for every command of the vocabulary applied to key `k`; `k2` is a fresh destination name"""
    k2 = k + b":2"
    w = []

    def a(name, *args, **kw):
        label = kw.pop("label", name)
        w.append((label, C(name, k, [name, k] + list(args), **kw)))
    # strings
    a("SET", "7", n=7)
    a("SET", "7", "PX", LONG, n=7, ttl=LONG, label="SET-PX")
    a("SET", "7", "NX", n=7, cond=1, label="SET-NX")
    a("SET", "7", "XX", n=7, cond=2, label="SET-XX")
    a("SETNX", "7", n=7)
    w.append(("SETEX", C("SETEX", k, ["SETEX", k, "100", "7"], n=7, ttl=100000)))
    w.append(("PSETEX", C("PSETEX", k, ["PSETEX", k, LONG, "7"], n=7, ttl=LONG)))
    a("MSET", "7", n=7)
    a("GETSET", "7", n=7)
    a("GET")
    a("MGET")
    a("APPEND", "1", n=1)
    a("STRLEN")
    a("GETRANGE", "0", "-1")
    a("SETRANGE", "0", "9", n=1)
    a("INCR", n=1)
    w.append(("DECR", C("DECR", k, ["DECR", k], n=1, mname="INCR")))          # same storage function (incr_by); the model tracks the size of the change only
    a("INCRBY", "1", n=1)
    w.append(("DECRBY", C("DECRBY", k, ["DECRBY", k, "1"], n=1, mname="INCRBY")))
    # generic
    a("DEL")
    a("EXISTS")
    a("TYPE")
    a("EXPIRE", "100", ttl=100000)
    w.append(("EXPIRE-NEG", C("EXPIRE", k, ["EXPIRE", k, "-1"], mname="DEL")))  # handle_expire: seconds <= 0 -> storage.delete
    a("PEXPIRE", LONG, ttl=LONG)
    a("PERSIST")
    a("TTL")
    a("PTTL")
    w.append(("RENAME", C("RENAME", k, ["RENAME", k, k2], key2=k2)))
    w.append(("RENAME-ONTO", C("RENAME", OTHER + b":" + k, ["RENAME", OTHER + b":" + k, k], key2=k)))
    w.append(("RENAMENX", C("RENAMENX", k, ["RENAMENX", k, k2], key2=k2)))
    w.append(("RENAMENX-ONTO", C("RENAMENX", OTHER + b":" + k, ["RENAMENX", OTHER + b":" + k, k], key2=k)))
    w.append(("KEYS", C("KEYS", k, ["KEYS", k])))
    # lists
    a("LPUSH", "x", n=1)
    a("RPUSH", "x", n=1)
    a("LPOP")
    a("RPOP")
    a("LLEN")
    a("LRANGE", "0", "-1")
    a("LINDEX", "0")
    a("LSET", "0", "z")
    a("LTRIM", "0", "-1")
    a("LREM", "0", "a")
    # sets
    a("SADD", "b", n=1)
    a("SREM", "a")
    a("SMEMBERS")
    a("SISMEMBER", "a")
    a("SCARD")
    a("SUNION")
    a("SINTER")
    a("SDIFF")
    a("SPOP")
    a("SRANDMEMBER")
    a("SSCAN", "0")
    # hashes
    a("HSET", "g", "w", n=1)
    a("HMSET", "g", "w", n=1)
    a("HGET", "f")
    a("HMGET", "f")
    a("HGETALL")
    a("HDEL", "f")
    a("HLEN")
    a("HEXISTS", "f")
    a("HKEYS")
    a("HVALS")
    a("HINCRBY", "f", "1", n=1)
    a("HSCAN", "0")
    # sorted sets
    a("ZADD", "2", "b", n=1)
    a("ZREM", "a")
    a("ZSCORE", "a")
    a("ZCARD")
    a("ZRANK", "a")
    a("ZRANGE", "0", "-1")
    a("ZRANGEBYSCORE", "-inf", "+inf")
    a("ZCOUNT", "-inf", "+inf")
    a("ZINCRBY", "1", "a", n=1)
    a("ZSCAN", "0")
    # streams
    a("XADD", "2-1", "f", "v", n=1)
    a("XLEN")
    a("XRANGE", "-", "+")
    a("XREVRANGE", "+", "-")
    return w


# storage function through which each command label first looks at its key (mirror of Exp.firstFn; used only to
# attribute a late-visible observation to a class of the known-findings list and to validate Gen.lazyChecked)
FIRST_FN = {
    "SET": None, "SET-PX": None, "SETEX": None, "PSETEX": None, "MSET": None,
    "SET-NX": "set_string_nx", "SET-XX": "exists", "SETNX": "exists", "GETSET": "get", "GET": "get", "MGET": "get",
    "APPEND": "append", "STRLEN": "strlen", "GETRANGE": "getrange", "SETRANGE": "setrange", "INCR": "incr_by", "DECR": "incr_by",
    "INCRBY": "incr_by", "DECRBY": "incr_by", "DEL": "delete", "EXPIRE-NEG": "delete", "EXISTS": "exists", "TYPE": "key_type",
    "EXPIRE": "expire", "PEXPIRE": "expire", "PERSIST": "persist", "TTL": "ttl", "PTTL": "ttl", "RENAME": "rename",
    "RENAME-ONTO": None, "RENAMENX": "exists", "RENAMENX-ONTO": "exists", "KEYS": "keys", "DBSIZE": "get_all_keys", "RANDOMKEY": "get_all_keys",
    "SCAN": "scan",
    "LPUSH": "lpush", "RPUSH": "rpush", "LPOP": "lpop", "RPOP": "rpop", "LLEN": "llen", "LRANGE": "lrange", "LINDEX": "lindex",
    "LSET": "lset", "LTRIM": "ltrim", "LREM": "lrem", "SADD": "sadd", "SREM": "srem", "SMEMBERS": "smembers", "SISMEMBER": "sismember",
    "SCARD": "scard", "SUNION": "sunion", "SINTER": "sinter", "SDIFF": "sdiff", "SPOP": "spop", "SRANDMEMBER": "srandmember", "SSCAN": "sscan",
    "HSET": "hset", "HMSET": "hset", "HGET": "hget", "HMGET": "hmget", "HGETALL": "hgetall", "HDEL": "hdel", "HLEN": "hlen",
    "HEXISTS": "hexists", "HKEYS": "hkeys", "HVALS": "hvals", "HINCRBY": "hincrby", "HSCAN": "hscan",
    "ZADD": "zadd", "ZREM": "zrem", "ZSCORE": "zscore", "ZCARD": "zcard", "ZRANK": "zrank", "ZRANGE": "zrange",
    "ZRANGEBYSCORE": "zrangebyscore", "ZCOUNT": "zcount", "ZINCRBY": "zincrby", "ZSCAN": "zscan",
    "XADD": "xadd_with_id", "XLEN": "xlen", "XRANGE": "xrange", "XREVRANGE": "xrevrange",
}
# replies that do not depend on what is stored: the model's (content-level) reply is reduced to "ok"
OK_REPLY = {"LTRIM", "HMSET"}


# --------------------------------------------------------------------------
# session: server + model + clock
# --------------------------------------------------------------------------
class Discard(Exception):
    """actual timestamps left their planned window: the history says nothing"""


class Session:
    def __init__(self, rep, cfgline):
        self.rep = rep
        self.srv = Server("c02")
        self.ctl = self.srv.client()
        self.cli = {}
        self.model = lean_driver("exp")
        self.cfgline = cfgline
        self.t0 = time.monotonic()
        self.log = []                  # (db, text, send, recv, impl, code, spec, tag) of the current history
        self.ready_at = 0.0            # monotonic time from which a RESUME starts a pass at once
        self.paused = False
        self.reset_model()

    # ---- clock (milliseconds, integer, offset so that model times are never 0)
    def ms(self):
        return (time.monotonic() - self.t0) * 1000.0 + 1000.0

    def sleep_until(self, t_ms):
        while True:
            d = t_ms - self.ms()
            if d <= 0:
                return
            time.sleep(min(d / 1000.0, 0.2))

    def reset_model(self):
        if self.model.ask("reset") != "ok" or self.model.ask(self.cfgline) != "ok":
            raise InternalError("Lean exp driver refused reset/cfg")

    def ask(self, line):
        a = self.model.ask(line)
        if a is None or a == "bad-op":
            raise InternalError("Lean exp driver failed on: %s -> %r" % (line, a))
        return a

    def client(self, db):
        if db not in self.cli:
            c = self.srv.client()
            if c.cmd("SELECT", str(db)) != ("s", b"OK"):
                raise InternalError("SELECT %d failed" % db)
            self.cli[db] = c
        return self.cli[db]

    def fresh(self):
        if self.ctl.cmd("FLUSHALL") != ("s", b"OK"):
            raise InternalError("FLUSHALL failed")
        self.reset_model()
        self.log = []

    def close(self):
        for c in list(self.cli.values()) + [self.ctl]:
            c.close()
        self.srv.stop()
        self.model.close()

    # ---- one client command on both sides
    def raw(self, db, wire):
        """(reply, send_ms, recv_ms)"""
        c = self.client(db)
        s = self.ms()
        try:
            r = c.cmd(*wire)
        except (Closed, TimeoutError, ProtocolError, OSError) as e:
            raise InternalError("server connection failed on %r: %s; log: %s" % (wire, type(e).__name__, self.srv.log_tail(400)))
        return r, s, self.ms()

    def do(self, db, c, at=None):
        """returns dict(impl, code, spec, tag, send, recv, now)"""
        r, s, e = self.raw(db, c.wire)
        now = int(round((s + e) / 2.0)) if at is None else at
        ans = self.ask(c.line(db, now))
        code, spec, tag = ans.split(" # ")
        impl = canon(c.name, r)
        code, spec = canon_model(c, code), canon_model(c, spec)
        d = {"db": db, "cmd": c.text(), "name": c.name, "impl": impl, "code": code, "spec": spec, "tag": tag, "send": round(s, 2), "recv": round(e, 2), "now": now,
             "line": c.line(db, now), "raw": r}
        self.log.append(d)
        self.rep.evaluations += 1
        return d

    # ---- sweeper control
    def passes(self):
        return self.ctl.cmd("VERIF", "SWEEPER", "PASSES")[1]

    def pause(self):
        if self.ctl.cmd("VERIF", "SWEEPER", "PAUSE") != ("s", b"OK"):
            raise InternalError("VERIF SWEEPER PAUSE refused (server built without feature verif?)")
        if not self.paused:
            # the thread may be anywhere in its 1 s sleep: only after it will a RESUME start a pass at once
            self.ready_at = max(self.ready_at, time.monotonic() + 1.06)
        self.paused = True

    def resume(self):
        self.ctl.cmd("VERIF", "SWEEPER", "RESUME")
        self.paused = False

    def wait_ready(self):
        d = self.ready_at - time.monotonic()
        if d > 0:
            time.sleep(d)

    def wait_passes(self, n, timeout=8.0):
        """sweeper running: wait until `n` more passes have COMPLETED"""
        p0 = self.passes()
        t = time.monotonic()
        while self.passes() < p0 + n:
            if time.monotonic() - t > timeout:
                raise InternalError("sweeper made no progress (%d passes in %.1fs)" % (self.passes() - p0, timeout))
            time.sleep(0.01)

    def step_pass(self, window_ms=SLOT, gate_cmds=None):
        """sweeper paused and ready: let exactly one pass run.  With `gate_cmds` (a callable) the pass is parked at the
        gate between collect and delete (if it collected anything), the callable runs the window commands, and the pass
        is released.  Returns dict(reached, collected_model, spurious).  Raises Discard if the pass did not start at once."""
        p0 = self.passes()
        if gate_cmds is not None:
            self.ctl.cmd("VERIF", "GATE", "ARM", "sweeper.between")
        s = self.ms()
        self.resume()
        reached = False
        while True:
            if gate_cmds is not None and self.ctl.cmd("VERIF", "GATE", "REACHED", "sweeper.between")[1] == 1:
                reached = True
                break
            if self.passes() > p0:
                break
            if self.ms() - s > window_ms:
                # not ready after all: resynchronise and give the history up
                if gate_cmds is not None:
                    self.ctl.cmd("VERIF", "GATE", "RELEASE", "sweeper.between")
                t = time.monotonic()
                while self.passes() == p0 and time.monotonic() - t < 3:
                    time.sleep(0.005)
                self.pause()
                raise Discard("sweeper pass did not start within %d ms of RESUME" % window_ms)
            time.sleep(0.0003)
        e = self.ms()
        tc = int(round((s + e) / 2.0))
        n = int(self.ask("collect %d" % tc).split()[1])
        out = {"reached": reached, "collected_model": n, "collect_at": tc, "bracket": (round(s, 2), round(e, 2))}
        if reached:
            gate_cmds()
            s2 = self.ms()
            self.ctl.cmd("VERIF", "GATE", "RELEASE", "sweeper.between")
            t = time.monotonic()
            while self.passes() == p0:
                if time.monotonic() - t > 3:
                    raise InternalError("sweeper did not finish its pass after the gate was released")
                time.sleep(0.0003)
            e2 = self.ms()
            td = int(round((s2 + e2) / 2.0))
        else:
            if gate_cmds is not None:
                self.ctl.cmd("VERIF", "GATE", "RELEASE", "sweeper.between")
            td = tc
        self.pause()
        self.ready_at = time.monotonic() + 1.06
        out["spurious"] = self.ask("delete %d" % td).split(" ", 1)[1]
        out["delete_at"] = td
        self.log.append({"sweep": out})
        return out

    def look(self, db, key, now):
        return self.ask("look %d %d %s" % (db, now, hx(key)))


# --------------------------------------------------------------------------
# canonical replies
# --------------------------------------------------------------------------
def pttl_class(n):
    return "-2" if n == -2 else "-1" if n == -1 else "0" if n == 0 else "pos" if n > 0 else "neg"


def canon(name, r):
    """server reply -> canonical text; errors are `( e )`; replies out of hash maps are sorted; SCAN-family cursors kept"""
    t = r[0]
    if t == "e":
        return "( e )"
    if name in ("KEYS",) and t == "a":
        return "( keys %s )" % ("|".join(sorted(hx(x[1]) for x in r[1])) or ".")
    if name == "SCAN" and t == "a" and len(r[1]) == 2 and r[1][1][0] == "a":
        return "( keys %s )" % ("|".join(sorted(hx(x[1]) for x in r[1][1][1])) or ".")
    if name == "RANDOMKEY":
        return "( keys %s )" % (hx(r[1]) if t == "b" else ".")
    if name in ("LPOP", "RPOP", "SPOP", "XADD") and t == "b":
        return "( b * )"
    return show_reply(r, sort=name in ("SMEMBERS", "HKEYS", "HVALS", "SUNION", "SINTER", "SDIFF"))


def canon_model(c, m):
    if m.startswith("( e"):
        return "( e )"
    if m.startswith("( keys"):
        ks = m[len("( keys "):-2].strip()
        ks = [] if ks == "." else ks.split("|")
        if c.name == "KEYS":
            ks = [x for x in ks if x == hx(c.key)] if c.wire[1] != b"*" else ks
        return "( keys %s )" % ("|".join(sorted(ks)) or ".")
    if c.name in OK_REPLY:
        return "( s 4f4b )"
    if c.name == "LSET" and m == "( coll - 0 )":
        return "( e )"                      # "ERR no such key"
    return m


# --------------------------------------------------------------------------
# (A) the matrix, sweeper paused
# --------------------------------------------------------------------------
def klass(t, p, a):
    """how a reply on the test key relates to the replies on the present twin and on the absent twin"""
    if t == p and t == a:
        return "B"
    if t == p:
        return "P"
    if t == a:
        return "A"
    return "N"


def reply_key(label, x):
    """the part of a reply that is compared across twins: remaining times are reduced to their class"""
    if label in ("TTL", "PTTL"):
        m = re.fullmatch(r"\( i (-?\d+) \)", x)
        return pttl_class(int(m.group(1))) if m else x
    return x


def probes(sess, db, keys, side_now=None):
    """EXISTS / PTTL class / TYPE of each key through the three lenses, on the three sides"""
    out = {"impl": [], "code": [], "spec": []}
    for k in keys:
        for c in (C("EXISTS", k, ["EXISTS", k]), C("PTTL", k, ["PTTL", k]), C("TYPE", k, ["TYPE", k])):
            d = sess.do(db, c)
            for side in out:
                x = d[side]
                if c.name == "PTTL":
                    x = reply_key("PTTL", x)
                out[side].append(x)
    return out


def run_cell(sess, cell, when):
    """the command of one cell on the test key and on both twins, then the probes; returns the observation"""
    label, c, typ, phase, k, ttl = cell["label"], cell["c"], cell["typ"], cell["phase"], cell["key"], cell["ttl"]
    dbs = cell["dbs"]
    pk = [k] + ([c.key2] if c.key2 is not None and c.key2 != k else [])
    obs = {}
    for role, db in zip(("test", "present", "absent"), dbs):
        d = sess.do(db, c)
        if role == "test":
            lo, hi = cell["deadline"]
            if phase == "before" and not d["recv"] <= lo - MARGIN:
                raise Discard("before-deadline command ended %.1f ms before the deadline window" % (lo - d["recv"]))
            if phase == "after" and not d["send"] >= hi + MARGIN:
                raise Discard("after-deadline command started %.1f ms after the deadline window" % (d["send"] - hi))
        p = probes(sess, db, pk)
        obs[role] = {"d": d, "post": p}
    res = {"label": label, "typ": typ, "phase": phase, "ttl": ttl, "cmd": c.text(), "key": hx(k)}
    for side in ("impl", "code", "spec"):
        t, p, a = (reply_key(label, obs[r]["d"][side]) for r in ("test", "present", "absent"))
        res[side + "_cls"] = klass(t, p, a)
        res[side + "_reply"] = obs["test"]["d"][side]
        res[side + "_post"] = obs["test"]["post"][side]
    res["tag"] = obs["test"]["d"]["tag"]
    res["twins"] = {"present": obs["present"]["d"]["impl"], "absent": obs["absent"]["d"]["impl"],
                    "present_code": obs["present"]["d"]["code"], "absent_code": obs["absent"]["d"]["code"]}
    res["at"] = [obs["test"]["d"]["send"], obs["test"]["d"]["recv"]]
    res["deadline"] = [round(x, 2) for x in cell["deadline"]]
    return res


def setup_cell(sess, cell):
    k, typ, ttl, c = cell["key"], cell["typ"], cell["ttl"], cell["c"]
    t, p, a = cell["dbs"]
    onto = cell["label"].endswith("-ONTO")
    if onto:
        for db in (t, p, a):
            sess.do(db, C("SET", c.key, ["SET", c.key, "9"], n=9))
    for x in setup_cmds(typ, k):
        sess.do(t, x)
        sess.do(p, x)
    d = sess.do(t, pexpire(k, ttl))
    sess.do(p, pexpire(k, ttl * 1000))
    if d["impl"] != "( i 1 )":
        raise InternalError("matrix set-up: PEXPIRE answered %s" % d["impl"])
    cell["deadline"] = (d["send"] + ttl, d["recv"] + ttl)


def judge_cell(res):
    """(oracle_ok, corresponds)"""
    want = "P" if res["phase"] == "before" else "A"
    oracle_ok = res["impl_cls"] in (want, "B") and res["impl_post"] == res["spec_post"]
    corresponds = res["impl_cls"] == res["code_cls"] and res["impl_post"] == res["code_post"]
    return oracle_ok, corresponds


def run_matrix(rep, sess, r, tier):
    sess.fresh()
    labels = [l for l, _ in matrix_commands(b"x")]
    cells = []
    idx = 0
    for phase in ("before", "after"):
        for typ in TYPES:
            for li, label in enumerate(labels):
                k = b"c%d" % idx
                idx += 1
                c = dict(matrix_commands(k))[label]
                ttl = 900 if phase == "before" else r.choice([300, 600, 900])
                cells.append({"label": label, "c": c, "typ": typ, "phase": phase, "key": k, "ttl": ttl, "dbs": (0, 1, 2)})
    results, discarded = [], 0
    # before the deadline: set up and run at once
    for cell in [c for c in cells if c["phase"] == "before"]:
        try:
            setup_cell(sess, cell)
            results.append(run_cell(sess, cell, None))
        except Discard:
            discarded += 1
    # after the deadline, unswept: set everything up, then run each cell once its deadline is >= MARGIN behind
    after = [c for c in cells if c["phase"] == "after"]
    for cell in after:
        setup_cell(sess, cell)
    for cell in after:
        sess.sleep_until(cell["deadline"][1] + MARGIN + 1)
        try:
            results.append(run_cell(sess, cell, None))
        except Discard:
            discarded += 1
    # whole-database commands: one key per database (3..8 = the six types), present twin in 9, absent twin (empty) in 10
    for phase in ("before", "after"):
        sess.ctl.cmd("FLUSHALL")
        sess.reset_model()
        pend = []
        for ti, typ in enumerate(TYPES):
            k = b"w" + typ.encode()
            ttl = 900 if phase == "before" else 300
            cell = {"label": "", "typ": typ, "phase": phase, "key": k, "ttl": ttl, "dbs": (3 + ti, 9, 10), "c": C("DBSIZE", k, ["DBSIZE"])}
            for x in setup_cmds(typ, k):
                sess.do(3 + ti, x)
            d = sess.do(3 + ti, pexpire(k, ttl))
            cell["deadline"] = (d["send"] + ttl, d["recv"] + ttl)
            pend.append(cell)
        for cell in pend:
            k, typ = cell["key"], cell["typ"]
            if phase == "after":
                sess.sleep_until(cell["deadline"][1] + MARGIN + 1)
            # present twin: the same key alone in database 9
            sess.client(9).cmd("FLUSHDB")
            sess.ask(C("FLUSHDB", k, []).line(9, int(sess.ms())))
            for x in setup_cmds(typ, k):
                sess.do(9, x)
            sess.do(9, pexpire(k, cell["ttl"] * 1000))
            for label, c in (("DBSIZE", C("DBSIZE", k, ["DBSIZE"])), ("RANDOMKEY", C("RANDOMKEY", k, ["RANDOMKEY"])),
                             ("SCAN", C("SCAN", k, ["SCAN", "0", "COUNT", "100"])), ("KEYS", C("KEYS", k, ["KEYS", "*"]))):
                cc = dict(cell)
                cc["label"], cc["c"] = label + "*" if label == "KEYS" else label, c
                try:
                    res = run_cell(sess, cc, None)
                    res["label"] = label
                    results.append(res)
                except Discard:
                    discarded += 1
    return results, discarded


# --------------------------------------------------------------------------
# (C) scripted scenarios
# --------------------------------------------------------------------------
def S(name, key, *args, **kw):
    return C(name, key, [name, key] + list(args), **kw)


def same_shard_keys(prefix, n, shard=None):
    """`n` key names with the same FNV-1a shard (the gate parks the sweeper per shard)"""
    out, i = [], 0
    while len(out) < n:
        k = b"%s%d" % (prefix, i)
        i += 1
        sh = fnv1a(k) % 16
        if shard is None:
            shard = sh
        if sh == shard:
            out.append(k)
    return out


def final_state(sess, db, keys, now=None):
    """per key, on the three sides (server, model of the code, prescribed store): what the lazily-checked lens shows
    (EXISTS; type and size-or-number when it exists) and the raw lens (PTTL class, TYPE).  The reads are commands of the
    vocabulary, so the models see them too (under a central lazy test they remove what they find expired)."""
    size_cmd = {"string": "GET", "list": "LLEN", "set": "SCARD", "hash": "HLEN", "zset": "ZCARD", "stream": "XLEN"}
    out = []
    for k in keys:
        ex = sess.do(db, S("EXISTS", k))
        pt = sess.do(db, S("PTTL", k))
        ty = sess.do(db, S("TYPE", k))
        tname = bytes.fromhex(ty["impl"].split()[2]).decode() if ty["impl"].startswith("( s ") else "?"
        sz = sess.do(db, S(size_cmd[tname], k)) if ex["impl"] == "( i 1 )" and tname in size_cmd else None
        rec = {"key": k.decode()}
        for side in ("impl", "code", "spec"):
            e = ex[side] == "( i 1 )"
            rec[side] = (1, ty[side], sz[side] if sz else None) if e else (0, None, None)
            rec[side + ("_raw" if side == "impl" else "_raw_lens")] = (reply_key("PTTL", pt[side]), ty[side])
        t = int(sess.ms()) if now is None else now
        code, spec = sess.look(db, k, t).split(" # ")
        rec["code_entry"], rec["spec_entry"] = code, spec
        # kept for the messages
        rec["impl_pttl"], rec["impl_type"], rec["spec_raw"], rec["code_raw"] = rec["impl_raw"][0], tname, spec, code
        out.append(rec)
    return out


def scenario_running_sweeper(rep, sess):
    """(iii): stale index entries and elapsed TTLs with the sweeper RUNNING; the dataset is looked at after >= 2 passes
    completed after the last deadline.  Everything in database 11."""
    db = 11
    sess.fresh()
    sess.pause()
    sess.wait_ready()
    script = [
        # (key, commands before the deadline, commands after the deadline but before any pass, what)
        ("stale-set", [S("SET", b"a", "1", "PX", 300, n=1, ttl=300), S("SET", b"a", "2", n=2)], []),
        ("stale-set-ex1", [S("SET", b"a1", "1", "EX", 1, n=1, ttl=1000), S("SET", b"a1", "2", n=2)], []),
        ("stale-getset", [S("SET", b"b", "1", "PX", 300, n=1, ttl=300), S("GETSET", b"b", "2", n=2)], []),
        ("stale-mset", [S("SET", b"c", "1", "PX", 300, n=1, ttl=300), S("MSET", b"c", "2", n=2)], []),
        ("persist", [S("SET", b"d", "1", "PX", 300, n=1, ttl=300), S("PERSIST", b"d")], []),
        ("setnx-over-expired", [S("SET", b"e", "1", "PX", 300, n=1, ttl=300)], [S("SET", b"e", "2", "NX", n=2, cond=1)]),
        ("setnx-cmd-over-expired", [S("SET", b"e2", "1", "PX", 300, n=1, ttl=300)], [S("SETNX", b"e2", "2", n=2)]),
        ("rename-old-name-reused", [S("SET", b"f", "1", "PX", 300, n=1, ttl=300), C("RENAME", b"f", ["RENAME", b"f", b"g"], key2=b"g"), S("SET", b"f", "9", n=9)], []),
        ("rename-onto-ttl-key", [S("SET", b"h", "1", "PX", 300, n=1, ttl=300), S("SET", b"i", "2", n=2), C("RENAME", b"i", ["RENAME", b"i", b"h"], key2=b"h")], []),
        ("emptied-recreated", [S("RPUSH", b"l", "a", n=1), pexpire(b"l", 300), S("LPOP", b"l"), S("RPUSH", b"l", "b", n=1)], []),
        ("incr-over-renamed", [S("SET", b"m", "5", "PX", 300, n=5, ttl=300), C("RENAME", b"m", ["RENAME", b"m", b"n"], key2=b"n"), S("INCR", b"m", n=1)], []),
        ("extended", [S("SET", b"o", "1", "PX", 300, n=1, ttl=300), pexpire(b"o", LONG)], []),
        ("elapsed-string", [S("SET", b"p", "1", "PX", 300, n=1, ttl=300)], []),
        ("no-ttl", [S("SET", b"q", "1", n=1)], []),
        ("elapsed-list", [S("RPUSH", b"r", "a", n=1), pexpire(b"r", 300)], []),
        ("elapsed-hash", [S("HSET", b"s", "f", "v", n=1), pexpire(b"s", 600)], []),
    ]
    keys = [b"a", b"a1", b"b", b"c", b"d", b"e", b"e2", b"f", b"g", b"h", b"i", b"l", b"m", b"n", b"o", b"p", b"q", b"r", b"s"]
    t_start = sess.ms()
    last_deadline = t_start
    for what, pre, post in script:
        for c in pre:
            d = sess.do(db, c)
            if c.ttl is not None and c.ttl < LONG:
                last_deadline = max(last_deadline, d["recv"] + c.ttl)
    if sess.ms() - t_start > 200:
        raise Discard("scenario set-up took %.0f ms" % (sess.ms() - t_start))
    # the commands "after the deadline, before any pass": sweeper still paused
    sess.sleep_until(t_start + 300 + MARGIN + 200)
    for what, pre, post in script:
        for c in post:
            sess.do(db, c)
    sess.sleep_until(last_deadline + MARGIN)
    sess.resume()
    sess.wait_passes(2)
    sess.pause()
    now = int(sess.ms())
    sess.ask("collect %d" % now)
    spur = sess.ask("delete %d" % now).split(" ", 1)[1]
    st = final_state(sess, db, keys, now)
    return {"kind": "running-sweeper", "state": st, "spurious_model": spur, "history": list(sess.log)}


def scenario_gate(rep, sess):
    """(ii): the sweeper collects, is parked before deleting, commands run in the window, the pass is released."""
    db = 12
    sess.fresh()
    sess.pause()
    ks = same_shard_keys(b"w", 9)
    w0, w1, w2, w3, w4, w5, w6, w7, w8 = ks
    t_start = sess.ms()
    dl = t_start
    for k in (w0, w1, w2, w4, w5, w6):
        d = sess.do(db, S("SET", k, "1", "PX", 300, n=1, ttl=300))
        dl = max(dl, d["recv"] + 300)
    sess.do(db, S("RPUSH", w3, "a", n=1))
    d = sess.do(db, pexpire(w3, 300))
    dl = max(dl, d["recv"] + 300)
    sess.do(db, S("SET", w7, "1", n=1))                      # no TTL, same shard, untouched
    sess.do(db, S("SET", w8, "1", "PX", LONG, n=1, ttl=LONG))  # future TTL, same shard, untouched
    sess.wait_ready()
    sess.sleep_until(dl + MARGIN)
    window = []

    def in_window():
        for c in (S("SET", w1, "2", n=2),                                   # re-created without TTL
                  S("SET", w2, "2", "PX", LONG, n=2, ttl=LONG),             # re-created with a long TTL
                  S("DEL", w3), S("RPUSH", w3, "b", n=1),                   # deleted and re-created
                  S("GETSET", w4, "2", n=2),                               # lazily removed by GET, then set
                  S("PERSIST", w5),                                        # on an expired key: must answer 0
                  pexpire(w6, LONG)):                                      # on an expired key: must answer 0
            window.append(sess.do(db, c))
    out = sess.step_pass(window_ms=200, gate_cmds=in_window)
    now = int(sess.ms())
    st = final_state(sess, db, ks, now)
    return {"kind": "gate", "sweep": out, "window": window, "state": st, "keys": [k.decode() for k in ks],
            "history": list(sess.log)}


# --------------------------------------------------------------------------
# (B) random schedules on a 300 ms grid
# --------------------------------------------------------------------------
GRID = 300
N_SET_SLOTS = 6


class Sched:
    def __init__(self, sess, r, dbs, keys):
        self.sess, self.r, self.dbs, self.keys = sess, r, dbs, keys
        self.danger = {}           # set-slot index -> {(db, key)} that MAY have a deadline in that slot
        self.hw = {}               # (db, key) -> half-width (ms) of the bracket of the command that set its deadline
        self.ctr = 0
        self.tags = []
        self.events = []           # what happened, for the replay
        self.oracle = []           # divergences from the prescribed store
        self.disagree = []         # divergences from the model of the code

    def fresh(self):
        self.ctr += 1
        return self.ctr

    # ---- command generators
    def ttl_setting(self, db, k, slot):
        r = self.r
        ttl = r.choice([300, 600, 900])
        n = r.range(0, 99)
        kind = r.below(6)
        if kind == 0:
            c = S("SET", k, n, "PX", ttl, n=n, ttl=ttl)
        elif kind == 1:
            c = C("PSETEX", k, ["PSETEX", k, ttl, n], n=n, ttl=ttl)
        elif kind == 2:
            c = S("SET", k, n, "PX", ttl, "NX", n=n, ttl=ttl, cond=1)
        elif kind == 3:
            c = S("SET", k, n, "PX", ttl, "XX", n=n, ttl=ttl, cond=2)
        else:
            c = pexpire(k, ttl)
        self.danger.setdefault(slot + ttl // GRID, set()).add((db, k))
        return c

    def any_op(self, db, k):
        r = self.r
        n = r.range(0, 99)
        k2 = r.choice([x for x in self.keys if x != k])
        f = self.fresh()
        table = [
            lambda: S("SET", k, n, n=n), lambda: S("SET", k, n, "NX", n=n, cond=1), lambda: S("SET", k, n, "XX", n=n, cond=2),
            lambda: S("SET", k, n, "PX", LONG, n=n, ttl=LONG), lambda: S("SETNX", k, n, n=n), lambda: S("GETSET", k, n, n=n),
            lambda: S("MSET", k, n, n=n), lambda: S("GET", k), lambda: S("GET", k), lambda: S("INCR", k, n=1),
            lambda: S("RPUSH", k, "x", n=1), lambda: S("LPOP", k), lambda: S("LLEN", k),
            lambda: S("SADD", k, "m%d" % f, n=1), lambda: S("SPOP", k), lambda: S("SCARD", k),
            lambda: S("HSET", k, "f%d" % f, "v", n=1), lambda: S("HLEN", k),
            lambda: S("ZADD", k, f, "m%d" % f, n=1), lambda: S("ZCARD", k),
            lambda: S("XADD", k, "%d-1" % (f + 10), "f", "v", n=1), lambda: S("XLEN", k),
            lambda: S("EXISTS", k), lambda: S("EXISTS", k), lambda: S("TYPE", k), lambda: S("DEL", k),
            lambda: pexpire(k, LONG), lambda: S("PERSIST", k), lambda: S("TTL", k), lambda: S("PTTL", k), lambda: S("PTTL", k),
            lambda: C("RENAME", k, ["RENAME", k, k2], key2=k2), lambda: C("RENAMENX", k, ["RENAMENX", k, k2], key2=k2),
            lambda: C("KEYS", k, ["KEYS", "*"]), lambda: C("DBSIZE", k, ["DBSIZE"]), lambda: C("SCAN", k, ["SCAN", "0", "COUNT", "100"]),
        ]
        c = r.choice(table)()
        if c.name in ("RENAME", "RENAMENX"):
            for s, ks in self.danger.items():
                if (db, k) in ks:
                    ks.add((db, k2))
            if (db, k) in self.hw:
                self.hw[(db, k2)] = self.hw[(db, k)]
        return c

    # ---- execution and comparison
    def issue(self, db, c, lo, hi):
        d = self.sess.do(db, c)
        if d["send"] < lo - 0.5 or d["recv"] > hi:
            raise Discard("%s ran at [%.1f, %.1f], planned window [%.1f, %.1f]" % (c.text(), d["send"], d["recv"], lo, hi))
        if c.ttl is not None:
            self.hw[(db, c.key)] = (d["recv"] - d["send"]) / 2.0
        self.compare(db, c, d)
        return d

    def numeric_close(self, db, c, d, side):
        """TTL / PTTL with a positive remaining time on both sides: compared through the brackets of the two requests"""
        mi = re.fullmatch(r"\( i (\d+) \)", d["impl"])
        mm = re.fullmatch(r"\( i (\d+) \)", d[side])
        if not (mi and mm) or int(mi.group(1)) <= 0 or int(mm.group(1)) <= 0:
            return False
        a, b = int(mi.group(1)), int(mm.group(1))
        tol = (d["recv"] - d["send"]) / 2.0 + self.hw.get((db, c.key), SLOT / 2.0) + 2.5   # two midpoints rounded to whole ms (0.5 each) + as_millis floor (1) + slack
        if c.name == "PTTL":
            return abs(a - b) <= tol
        # TTL: the remaining milliseconds of the model, then the reply arithmetic at both ends of the tolerance
        ans = self.sess.ask(C("PTTL", c.key, []).line(db, d["now"])).split(" # ")
        m = re.fullmatch(r"\( i (\d+) \)", ans[0 if side == "code" else 1])
        if not m:
            return False
        rem = int(m.group(1))
        lo = int(self.sess.ask("ttlr %d" % int(max(rem - tol, 1) * 1000000)).split()[0])
        hi = int(self.sess.ask("ttlr %d" % int((rem + tol) * 1000000)).split()[0])
        return lo <= a <= hi

    def compare(self, db, c, d):
        if d["tag"] != "-":
            self.tags.append(d["tag"])
        ev = {"db": db, "cmd": d["cmd"], "at": [d["send"], d["recv"]], "impl": d["impl"], "code": d["code"], "spec": d["spec"], "tag": d["tag"], "line": d["line"]}
        self.events.append(ev)
        for side, sink in (("code", self.disagree), ("spec", self.oracle)):
            if d["impl"] != d[side] and not (c.name in ("TTL", "PTTL") and self.numeric_close(db, c, d, side)):
                sink.append(dict(ev, tags_so_far=list(self.tags)))

    def sweep(self, gate, lo, hi):
        sess = self.sess
        window = []

        def in_window():
            for _ in range(self.r.range(1, 3)):
                db = self.r.choice(self.dbs)
                k = self.r.choice(self.keys)
                window.append(self.issue(db, self.any_op(db, k), lo, hi + 200))
        if sess.ms() < lo:
            sess.sleep_until(lo)
        out = sess.step_pass(window_ms=SLOT, gate_cmds=in_window if gate else None)
        ev = {"sweep": {k: v for k, v in out.items()}, "gate": gate}
        self.events.append(ev)
        if out["spurious"] != "-":
            self.tags += out["spurious"].split()
        if gate and out["reached"] != (out["collected_model"] > 0):
            self.disagree.append(dict(ev, why="gate reached = %s but the model's index holds %d due entries" % (out["reached"], out["collected_model"])))
        return out


def run_schedule(rep, sess, r, hidx, gate):
    """one history; returns the Sched (events, oracle failures, model disagreements) or raises Discard"""
    sess.fresh()
    sess.pause()
    if gate:
        dbs, keys = [13], same_shard_keys(b"g%d_" % hidx, 3)
    else:
        dbs, keys = [13, 14], [b"k1", b"k2", b"k3"]
    sc = Sched(sess, r, dbs, keys)
    # sweeps: op-slot indices (0 .. 2*N-1; consecutive indices are 100 or 200 ms apart), at least 8 indices (>= 1.1 s) apart
    n_ops = 2 * N_SET_SLOTS
    first = r.range(1, 3)
    sweeps = {first: r.chance(1, 2) if gate else False}
    if r.chance(3, 4):
        sweeps[r.range(first + 8, n_ops - 1)] = gate and r.chance(2, 3)
    if gate and not any(sweeps.values()):
        sweeps[first] = True
    sess.wait_ready()
    T0 = sess.ms() + 3
    for j in range(N_SET_SLOTS):
        ts = T0 + GRID * j
        sess.sleep_until(ts)
        for db in dbs:
            for k in keys:
                if (db, k) in sc.danger.get(j, ()):
                    continue
                if r.chance(1, 2):
                    sc.issue(db, sc.ttl_setting(db, k, j), ts, ts + SLOT)
        for h in (0, 1):
            to = ts + 100 * (h + 1)
            sess.sleep_until(to)
            oi = 2 * j + h
            if oi in sweeps:
                sc.sweep(sweeps[oi], to, to + SLOT)
                continue
            for _ in range(r.range(2, 6)):
                db = r.choice(dbs)
                sc.issue(db, sc.any_op(db, r.choice(keys)), to, to + SLOT)
    # final look at the dataset (every deadline is >= MARGIN away: the last set slot's TTLs end on the grid)
    tf = T0 + GRID * N_SET_SLOTS + 100
    sess.sleep_until(tf)
    fin = []
    for db in dbs:
        for s in final_state(sess, db, keys):
            s["db"] = db
            fin.append(s)
            if s["impl"] != s["code"] or s["impl_raw"] != s["code_raw_lens"]:
                sc.disagree.append({"final": s, "why": "dataset after the history differs from the model of the code"})
            if s["impl"] != s["spec"]:
                sc.oracle.append({"final": s, "why": "dataset after the history differs from the prescribed store", "tags_so_far": list(sc.tags)})
    sc.events.append({"final": fin})
    return sc


# --------------------------------------------------------------------------
# the last millisecond (informational: confirms the witness of ttl_reply_fails_sub_millisecond when it can)
# --------------------------------------------------------------------------
def probe_last_millisecond(sess):
    """`SET k v PX 150`, then 4000 pipelined (TTL k, GET k) pairs across the deadline: a pair in which TTL says -2 and
    the GET sent AFTER it still returns the value shows a visible key reported as absent."""
    c = sess.client(15)
    c.cmd("SET", "ms", "1", "PX", "150")
    t = sess.ms()
    sess.sleep_until(t + 150 - 4)
    n = 4000
    payload = (c.encode(["TTL", "ms"]) + c.encode(["GET", "ms"])) * n
    c.send_raw(payload)
    rs = [c.read_reply(5.0) for _ in range(2 * n)]
    hits = sum(1 for i in range(n) if rs[2 * i] == ("i", -2) and rs[2 * i + 1] == ("b", b"1"))
    spanned = rs[0] != ("i", -2) and rs[-1] == ("nb",)
    return hits, spanned


# --------------------------------------------------------------------------
# (D) one command = one step with respect to the clock: big multi-member sorted-set writes whose EXECUTION straddles the deadline
# --------------------------------------------------------------------------
def straddle_layer(sess, tier):
    """`ZADD z 0 seed; PEXPIRE z <ttl>` with ttl inside the execution time of a ZADD of N pairs (queued in MULTI so that
    the frame is parsed before the clock starts; EXEC runs the ordinary handler), likewise ZPOPMIN z N and, thorough tier,
    ZREM of N members.  Oracle: the command ran wholly before the deadline or wholly after it - afterwards the key is absent
    (everything expired) or holds exactly the N members with no TTL; a pop / removal returns nothing or everything.
    A strict subset means the command saw the key both ways.  Returns one record per command."""
    N = 12000
    a, b = sess.srv.client(30), sess.srv.client(30)
    for c in (a, b):
        c.cmd("SELECT", "15")
    members = ["m%06d" % i for i in range(N)]
    zadd = ["ZADD", "z"]
    for i, m in enumerate(members):
        zadd += [str(i), m]
    out = []

    def after_deadline(t_set, ttl):
        d = (t_set + ttl + MARGIN) - sess.ms()
        if d > 0:
            time.sleep(d / 1000.0)

    def queued_exec(args, prepare):
        """MULTI; <args> (QUEUED); prepare() on the other connection; EXEC -> (reply of the command, exec seconds, prepare result)"""
        if a.cmd("MULTI") != ("s", b"OK") or a.cmd(*args) != ("s", b"QUEUED"):
            raise InternalError("straddle layer: MULTI / queueing failed")
        pr = prepare()
        t = time.monotonic()
        r = a.cmd("EXEC", timeout=30)
        dt = time.monotonic() - t
        if r[0] != "a" or len(r[1]) != 1:
            raise InternalError("straddle layer: EXEC answered %r" % (r,))
        return r[1][0], dt, pr

    def run(name, setup, fire, judge, calib, side_of):
        """calibrate the execution time without TTL, then aim the deadline into it"""
        setup()
        _, dt, _ = fire(lambda: None)
        rec = {"cmd": name, "members": N, "exec_ms": round(dt * 1000, 1), "attempts": [], "subset": None}
        # bisection on the TTL: "ran wholly before the deadline" -> aim earlier, "wholly after" -> aim later
        lo, hi = 0.0, dt * 1000
        for _ in range(8 if tier == "quick" else 14):
            ttl = max(1, int(round((lo + hi) / 2)))
            setup()

            def arm():
                r = b.cmd("PEXPIRE", "z", str(ttl))
                return (r, sess.ms())
            reply, dt2, (pr, t_set) = fire(arm)
            if pr != ("i", 1):
                raise InternalError("straddle layer: PEXPIRE answered %r" % (pr,))
            after_deadline(t_set, ttl)
            card, pttl = b.cmd("ZCARD", "z")[1], b.cmd("PTTL", "z")[1]
            att = {"ttl_ms": ttl, "reply": judge(reply), "exec_ms": round(dt2 * 1000, 1), "zcard_after": card, "pttl_after": pttl}
            sess.rep.evaluations += 1
            rec["attempts"].append(att)
            ok = calib(att)
            side = side_of(att) if ok else "subset"
            att["outcome"] = side
            sess.rep.nontrivial(("straddle", name, side))
            if not ok:
                rec["subset"] = att
                break
            if side == "whole-before":
                hi = ttl
            else:
                lo = ttl
            if hi - lo < 1:
                lo, hi = max(0.0, lo - 2), hi + 2
        b.cmd("DEL", "z")
        out.append(rec)

    # ZADD: everything new; before = all N+1 expired (ZCARD 0), after = exactly N, no TTL
    def zadd_setup():
        b.cmd("DEL", "z")
        b.cmd("ZADD", "z", "0", "seed")
    run("ZADD z <%d pairs>" % N, zadd_setup, lambda prep: queued_exec(zadd, prep),
        lambda r: r[1] if r[0] == "i" else repr(r),
        lambda at: at["reply"] == N and (at["zcard_after"] == 0 or (at["zcard_after"] == N and at["pttl_after"] == -1)),
        lambda at: "whole-before" if at["zcard_after"] == 0 else "whole-after")

    # ZPOPMIN z N on N members with a TTL: pops everything (before) or nothing (after); the key is gone either way
    def full_setup():
        b.cmd("DEL", "z")
        if b.cmd(*zadd, timeout=30) != ("i", N):
            raise InternalError("straddle layer: set-up ZADD failed")

    def pop_fire(prep):
        pr = prep()
        t = time.monotonic()
        r = a.cmd("ZPOPMIN", "z", str(N), timeout=30)
        return r, time.monotonic() - t, pr
    run("ZPOPMIN z %d" % N, full_setup, pop_fire,
        lambda r: len(r[1]) // 2 if r[0] == "a" else 0 if r[0] == "na" else repr(r),
        lambda at: at["reply"] in (0, N) and at["zcard_after"] == 0,
        lambda at: "whole-before" if at["reply"] == N else "whole-after")
    if tier != "quick":
        zrem = ["ZREM", "z"] + members
        run("ZREM z <%d members>" % N, full_setup, lambda prep: queued_exec(zrem, prep),
            lambda r: r[1] if r[0] == "i" else repr(r),
            lambda at: at["reply"] in (0, N) and at["zcard_after"] == 0,
            lambda at: "whole-before" if at["reply"] == N else "whole-after")
    a.close()
    b.close()
    return out


# --------------------------------------------------------------------------
# (E) one script / one EXEC = one clock reading: blocks whose execution straddles the deadline
# --------------------------------------------------------------------------
BLOCK_SCRIPT = """
local k = KEYS[1]; local k2 = KEYS[2]
local v1 = redis.call('GET', k); local e1 = redis.call('EXISTS', k); local p1 = redis.call('PTTL', k); local t1 = redis.call('TTL', k)
redis.call('SET', k2, '7', 'PX', ARGV[2])
local x = 0
for i = 1, tonumber(ARGV[1]) do x = x + i end
local e2 = redis.call('EXISTS', k); local v2 = redis.call('GET', k); local p2 = redis.call('PTTL', k); local t2 = redis.call('TTL', k)
local n = redis.call('INCR', k); local p3 = redis.call('PTTL', k)
local w = redis.call('GET', k2); local pw = redis.call('PTTL', k2)
return {v1 or 'NIL', e1, p1, t1, e2, v2 or 'NIL', p2, t2, n, p3, w or 'NIL', pw}
"""
BLOCK_FIELDS = ["get1", "exists1", "pttl1", "ttl1", "exists2", "get2", "pttl2", "ttl2", "incr", "pttl3", "get_k2", "pttl_k2"]


def _plain(r):
    return r[1].decode("latin-1") if r[0] in ("b", "s") else r[1] if r[0] == "i" else "NIL" if r[0] in ("nb", "na") else repr(r)


def block_consistent(vals, px2):
    """every later observation agrees with the FIRST reading of the clock (the key was visible then, with value 5)"""
    g = dict(zip(BLOCK_FIELDS, vals))
    if not (g["get1"] == "5" and g["exists1"] == 1 and isinstance(g["pttl1"], int) and g["pttl1"] > 0):
        return None                                   # the key was not visible at the start: the attempt says nothing
    ok = (g["exists2"] == 1 and g["get2"] == "5" and isinstance(g["pttl2"], int) and abs(g["pttl2"] - g["pttl1"]) <= 1 and g["ttl2"] == g["ttl1"] and
          g["incr"] == 6 and isinstance(g["pttl3"], int) and abs(g["pttl3"] - g["pttl1"]) <= 1 and
          g["get_k2"] == "7" and isinstance(g["pttl_k2"], int) and abs(g["pttl_k2"] - px2) <= 1)
    return ok


def block_layer(sess, tier):
    """`SET k 5 PX <ttl>` and then ONE script (EVAL; thorough: EVALSHA, EVAL inside EXEC) or ONE transaction (EXEC of a long
    command list) that reads k, sets k2 with a short TTL, works ~3x the TTL, and then tests / reads / INCRs / asks the TTL of k
    and reads k2.  Oracle: the block is one step - everything agrees with its first reading (k visible, value 5): EXISTS 1,
    GET 5, PTTL/TTL as at the start, INCR -> 6 keeping the TTL, k2 still there with its whole TTL; and once the block has
    returned (the deadlines being over by then) both keys are absent."""
    a, b = sess.srv.client(30), sess.srv.client(30)
    for c in (a, b):
        c.cmd("SELECT", "15")
    out = []

    def finish(rec, vals, px2, dt_ms, ttl):
        rec.update({"values": dict(zip(BLOCK_FIELDS, vals)), "block_ms": round(dt_ms, 1), "ttl_ms": ttl, "k2_px": px2})
        rec["straddled"] = dt_ms > ttl
        rec["consistent"] = block_consistent(vals, px2)
        time.sleep(0.005)
        rec["after_block"] = {"exists_k": b.cmd("EXISTS", "k")[1], "exists_k2": b.cmd("EXISTS", "k2")[1]}
        # after the step: the deadlines (start + ttl) are over; INCR kept k's deadline, so both keys must be gone
        rec["absent_after"] = rec["after_block"] == {"exists_k": 0, "exists_k2": 0} if rec["consistent"] else None
        sess.rep.evaluations += 1
        sess.rep.nontrivial(("block", rec["kind"], rec["consistent"], rec["straddled"]))
        b.cmd("DEL", "k", "k2")
        out.append(rec)

    # ---- scripts: calibrate the busy loop
    t = time.monotonic()
    r = a.cmd("EVAL", "local x = 0 for i = 1, tonumber(ARGV[1]) do x = x + i end return 1", "0", "2000000", timeout=30)
    per_ms = 2000000 / max((time.monotonic() - t) * 1000.0, 1.0)
    if r != ("i", 1):
        raise InternalError("block layer: calibration script answered %r" % (r,))
    ttl, px2 = 150, 100
    iters = int(per_ms * ttl * 3)
    kinds = ["EVAL"] + (["EVALSHA", "EVAL-in-EXEC"] if tier != "quick" else [])
    for kind in kinds:
        for attempt in range(3):
            b.cmd("DEL", "k", "k2")
            b.cmd("SET", "k", "5", "PX", str(ttl))
            t = time.monotonic()
            if kind == "EVAL":
                r = a.cmd("EVAL", BLOCK_SCRIPT, "2", "k", "k2", str(iters), str(px2), timeout=30)
            elif kind == "EVALSHA":
                sha = a.cmd("SCRIPT", "LOAD", BLOCK_SCRIPT)
                t = time.monotonic()
                r = a.cmd("EVALSHA", sha[1], "2", "k", "k2", str(iters), str(px2), timeout=30)
            else:
                a.cmd("MULTI")
                a.cmd("EVAL", BLOCK_SCRIPT, "2", "k", "k2", str(iters), str(px2))
                r = a.cmd("EXEC", timeout=30)
                r = r[1][0] if r[0] == "a" and len(r[1]) == 1 else r
            dt = (time.monotonic() - t) * 1000.0
            if r[0] != "a" or len(r[1]) != len(BLOCK_FIELDS):
                raise InternalError("block layer: %s answered %r" % (kind, r))
            rec = {"kind": kind}
            finish(rec, [_plain(x) for x in r[1]], px2, dt, ttl)
            if rec["consistent"] is not None and rec["straddled"]:
                break

    # ---- a transaction: the same sequence as queued commands, a long filler in the middle
    N = 12000
    z = ["ZADD", "filler"]
    for i in range(N):
        z += [str(i), "m%06d" % i]

    def queue(px2_):
        if a.cmd("MULTI") != ("s", b"OK"):
            raise InternalError("block layer: MULTI refused")
        cmds = [["GET", "k"], ["EXISTS", "k"], ["PTTL", "k"], ["TTL", "k"], ["SET", "k2", "7", "PX", str(px2_)]]
        for _ in range(4):
            cmds += [z, ["DEL", "filler"]]
        cmds += [["EXISTS", "k"], ["GET", "k"], ["PTTL", "k"], ["TTL", "k"], ["INCR", "k"], ["PTTL", "k"], ["GET", "k2"], ["PTTL", "k2"]]
        for c in cmds:
            if a.cmd(*c, timeout=30) != ("s", b"QUEUED"):
                raise InternalError("block layer: queueing %s failed" % c[0])
        return cmds

    def pick(reply, cmds):
        vals = [_plain(x) for x, c in zip(reply, cmds) if c[0] not in ("ZADD", "DEL", "SET")]
        return vals
    b.cmd("DEL", "k", "k2", "filler")
    b.cmd("SET", "k", "5")
    cmds = queue(100000)
    t = time.monotonic()
    a.cmd("EXEC", timeout=60)
    exec_ms = (time.monotonic() - t) * 1000.0
    for attempt in range(3):
        ttl_x = max(10, int(exec_ms / 3))
        px2_x = max(5, ttl_x // 2)
        b.cmd("DEL", "k", "k2", "filler")
        cmds = queue(px2_x)
        b.cmd("SET", "k", "5", "PX", str(ttl_x))
        t = time.monotonic()
        r = a.cmd("EXEC", timeout=60)
        dt = (time.monotonic() - t) * 1000.0
        if r[0] != "a" or len(r[1]) != len(cmds):
            raise InternalError("block layer: EXEC answered %r" % (r[:1],))
        rec = {"kind": "EXEC", "queued": len(cmds)}
        finish(rec, pick(r[1], cmds), px2_x, dt, ttl_x)
        if rec["consistent"] is not None and rec["straddled"]:
            break
    b.cmd("DEL", "k", "k2", "filler")
    a.close()
    b.close()
    return out


# --------------------------------------------------------------------------
# verdict
# --------------------------------------------------------------------------
def match_finding(fs, tag):
    """tag: `late:<fn>`, `spurious:stale-index`, `spurious:window`, `ttl:last-millisecond`"""
    for f in fs:
        m = f.get("match", "")
        if m == tag:
            return f
        if tag.startswith("late:") and m.startswith("late:") and tag[5:] in f.get("fns", []):
            return f
    return None


def cell_attribution(res):
    want = "P" if res["phase"] == "before" else "A"
    if res["impl_cls"] not in (want, "B"):
        fn = FIRST_FN.get(res["label"])
        return ["late:%s" % fn] if fn and res["phase"] == "after" else ["unattributed"]
    if res["tag"].startswith("late:"):
        return [res["tag"]]
    out = []
    for i, (a, b) in enumerate(zip(res["impl_post"], res["spec_post"])):
        if a != b:
            out.append("late:" + ("exists", "ttl", "key_type")[i % 3])
    return out or ["unattributed"]


class Verdict:
    def __init__(self, rep, fs):
        self.rep, self.fs = rep, fs
        self.unexplained = []     # (what, replay)
        self.disagree = []
        self.known = {}

    def oracle(self, tags, explained_by_model, what, replay):
        """an observation that deviates from the prescribed behaviour"""
        self.rep.count("oracle_failures")
        if explained_by_model:
            fnd = [match_finding(self.fs, t) for t in tags]
            if tags and all(fnd):
                for f in fnd:
                    self.known.setdefault(f["id"], f)
                for t in tags:
                    self.rep.count("known." + t)
                return
        self.unexplained.append((what, replay))

    def finish(self, ok, log, errs):
        rep = self.rep
        for fid, f in sorted(self.known.items()):
            rep.known(fid, f["what"][:260])
        if self.unexplained:
            self.unexplained.sort(key=lambda x: len(json.dumps(x[1], default=str)))
            what, replay = self.unexplained[0]
            rep.violation(what, {"replay": replay, "more": [w for w, _ in self.unexplained[1:8]], "lean_errors": errs[:5]})
        elif not ok:
            rep.violation("proof obligations of C02 no longer check against the regenerated tables",
                          {"theorem_errors": errs[:10], "log_tail": log[-3000:]}, no_input=True)
        elif self.disagree:
            rep.violation("correspondence Exp.step / sweepCollect / sweepDelete (configured by Gen/Expiry.lean) vs server broke (%d disagreements) "
                          "although every deviation from the prescribed behaviour is a listed finding" % len(self.disagree),
                          {"correspondence": "Ferrous.Exp.cmd + sweeper phases vs ferrous over TCP", "disagreements": self.disagree[:8]}, no_input=True)
        rep.extra["model_disagreements"] = len(self.disagree)
        rep.extra["unexplained_oracle_failures"] = len(self.unexplained)


def strip(d):
    return json.loads(json.dumps(d, default=lambda o: o.decode("latin-1") if isinstance(o, bytes) else str(o)))


def judge_matrix(v, rep, results):
    late_seen = set()
    for res in results:
        ok, corr = judge_cell(res)
        rep.nontrivial(("matrix", res["label"], res["typ"], res["phase"], res["impl_cls"]))
        rep.count("matrix.%s.%s" % (res["phase"], res["impl_cls"]))
        slim = {k: res[k] for k in ("label", "typ", "phase", "ttl", "cmd", "impl_cls", "code_cls", "impl_reply", "code_reply", "spec_reply",
                                    "impl_post", "code_post", "spec_post", "tag", "twins", "at", "deadline")}
        if not ok:
            tags = cell_attribution(res)
            for t in tags:
                if t.startswith("late:"):
                    late_seen.add(t[5:])
            v.oracle(tags, corr, "matrix: %s on a %s key %s its deadline behaves as on a %s key (reply %s, state afterwards %s; prescribed: state %s)" % (
                res["cmd"], res["typ"], res["phase"], {"P": "present", "A": "absent", "N": "neither present nor absent", "B": "either"}[res["impl_cls"]],
                res["impl_reply"], res["impl_post"], res["spec_post"]), {"kind": "matrix", "cell": strip(slim)})
        if not corr:
            v.disagree.append({"kind": "matrix", "cell": strip(slim)})
    return late_seen


def judge_scenario(v, rep, sc):
    kind = sc["kind"]
    spur = sc.get("spurious_model") if kind == "running-sweeper" else sc["sweep"]["spurious"]
    spur_keys = {bytes.fromhex(x.split(":")[2]).decode() for x in spur.split() if x.startswith("spurious:")}
    hist = [{"db": d["db"], "cmd": d["cmd"], "at": [d["send"], d["recv"]], "impl": d["impl"], "code": d["code"], "spec": d["spec"]} if "cmd" in d
            else {"sweeper": strip(d["sweep"])} for d in sc["history"]]
    for w in sc.get("window", []):
        rep.nontrivial((kind, "window", w["name"], w["impl"]))
        if w["impl"] != w["spec"]:
            v.oracle([w["tag"]] if w["tag"] != "-" else [], w["impl"] == w["code"],
                     "%s between the sweeper's collect and delete phases answered %s (prescribed %s)" % (w["cmd"], w["impl"], w["spec"]),
                     {"kind": kind, "history": hist})
        if w["impl"] != w["code"]:
            v.disagree.append({"kind": kind, "window_cmd": w["cmd"], "impl": w["impl"], "code": w["code"]})
    for s in sc["state"]:
        rep.nontrivial((kind, s["key"], s["impl"][0], s["impl_pttl"]))
        if s["impl"] != s["code"] or s["impl_raw"] != s["code_raw_lens"]:
            v.disagree.append({"kind": kind, "key": s["key"], "state": strip(s)})
        if s["impl"] != s["spec"]:
            tag = "spurious:window" if kind == "gate" else "spurious:stale-index"
            # what explains a different dataset: a spurious delete of this key, or a late-visible command on it earlier
            tags = ([tag] if s["key"] in spur_keys else []) + sorted({d["tag"] for d in sc["history"] if "cmd" in d and d["tag"] != "-" and
                                                                       s["key"] in d["cmd"].split()[1:3]})
            v.oracle(tags, s["impl"] == s["code"],
                     "%s scenario: key %s is %s after the sweeper ran; prescribed: %s" % (kind, s["key"], "absent" if not s["impl"][0] else s["impl"], s["spec_raw"]),
                     {"kind": kind, "key": s["key"], "state": strip(s), "history": hist})
    if kind == "gate" and sc["sweep"]["reached"] != (sc["sweep"]["collected_model"] > 0):
        v.disagree.append({"kind": kind, "why": "gate reached = %s, model collected %d keys" % (sc["sweep"]["reached"], sc["sweep"]["collected_model"])})


def judge_schedule(v, rep, sc, meta):
    for e in sc.events:
        if "cmd" in e:
            rep.nontrivial(("sched", e["cmd"].split()[0], e["impl"][:5], e["tag"]))
            rep.count("sched." + e["cmd"].split()[0])
        elif "sweep" in e:
            rep.count("sched.sweep.%s" % ("gate-reached" if e["sweep"]["reached"] else "gate-idle" if e["gate"] else "pass"))
    replay = dict(meta, events=strip([{k: x[k] for k in x if k != "line"} for x in sc.events]))
    if sc.oracle:
        first = sc.oracle[0]
        tags = first.get("tags_so_far", [])
        norm = []
        for t in tags:
            if t.startswith("spurious:"):
                gated = any("sweep" in e and e["gate"] and e["sweep"]["reached"] for e in sc.events)
                norm.append("spurious:window" if gated else "spurious:stale-index")
            else:
                norm.append(t)
        explained = not sc.disagree and bool(norm)
        # the earliest tag that fired is what the history deviates by; later ones are counted too
        v.oracle(sorted(set(norm)), explained,
                 "schedule: %s deviates from the prescribed store (%s)" % (first.get("cmd", "dataset after the history"), first.get("why", "reply %s, prescribed %s" % (first.get("impl"), first.get("spec")))),
                 dict(replay, first_deviation=strip({k: first[k] for k in first if k != "line"})))
    for x in sc.disagree[:3]:
        v.disagree.append(dict(strip({k: x[k] for k in x if k != "line"}), **meta))


# --------------------------------------------------------------------------
def main(tier, seed):
    rep = Report(PID, tier, seed)
    rep.rule = ("(A) sweeper paused: %d commands x {before, after deadline unswept} x 6 value types on fresh keys with TTL 300/600/900 ms, each next to a present twin "
                "(TTL x1000) and an absent twin; reply classified present/absent on server and model, stored state read through EXISTS/PTTL/TYPE; "
                "(B) random schedules on a 300 ms grid (TTL-setting in set slots, other commands 100/200 ms later: >= 60 ms from every deadline), 2-3 databases x 3 keys, "
                "sweeper stepped one pass at a time or parked at the gate between collect and delete with 1-3 commands in the window, exact replies vs model of the code and vs prescribed store, dataset at the end; "
                "(C) scripted: 7 window commands at the gate, 16 stale-index / elapsed-TTL cases with the sweeper running (>= 2 passes awaited); "
                "(D) one command = one clock reading: ZADD of 12000 pairs (queued in MULTI, run by EXEC), ZPOPMIN 12000 (thorough: ZREM of 12000 members) with PEXPIRE aimed into the "
                "calibrated execution time by bisection (up to 8 attempts): afterwards the key must be absent or hold exactly the new members without TTL, a pop must return nothing or everything; "
                "(E) one script / one EXEC = one clock reading: SET k 5 PX ttl, then one EVAL (thorough: EVALSHA, EVAL inside EXEC) with a busy loop of 3x the TTL, and one EXEC of 21 queued "
                "commands with 4 big ZADDs in the middle (TTL = a third of the calibrated execution): GET / EXISTS / PTTL / TTL / INCR of k and a key SET PX inside must all agree with the first reading, both keys absent afterwards. "
                "Every request bracketed with the monotonic clock, model time = bracket midpoint, out-of-window items discarded and counted. "
                "distinct = (part, command or key, type, phase, outcome class) tuples" % len(matrix_commands(b"x")))
    rep.assumptions = [
        "time is real: deadlines are compared through the brackets of the requests (+-2.5 ms); an error of a few milliseconds in a comparison is invisible dynamically and is covered only by the theorems about the operators (Gen.expiredIsStrict, Gen.ttlComparesStrict)",
        "the model identifies the two clock readings a storage call may take (expire / set_string_nx_ex read Instant::now() once for the stored deadline and once for the index: the index entry is later by nanoseconds)",
        "values are abstracted to (type, size-or-number); value semantics are C01/C03/C04/C15",
        "the sweeper is modelled per database as one shard; the gate scenarios use keys of one shard, where this is exact",
        "error replies are compared as 'an error'",
        "Lua (redis.call) and MULTI/EXEC paths are not exercised here; snapshots read values through `get` (Gen.snapshotReadsThroughGet), their content is C09/C10",
    ]
    ok, log, errs = proof_phase(rep, families=["exp"])
    build_server()
    f, d = translator_facts()
    if f["errors"]:
        ok = False
        errs = list(errs) + ["translator: " + e for e in f["errors"]]
    fs = findings()
    v = Verdict(rep, fs)
    rep.extra["switches"] = {"sweeperRechecks": f["sweeperRechecks"], "centralLazy": f["centralLazy"], "setValueDropsStale": d["setValueDropsStale"],
                             "setNxDropsStale": d["setNxDropsStale"], "renameMovesIndex": d["renameMovesIndex"], "emptiedDropsIndex": d["emptiedDropsIndex"], "ttlLastMsFixed": f.get("ttlLastMsFixed"), "zsetOneCall": f.get("zsetOneCall"), "scriptClockFrozen": f.get("scriptClockFrozen"),
                             "lazyChecked": d["lazyChecked"], "notLazy": d["notLazy"]}
    timing = {"proof_and_build": round(time.time() - rep.t0, 1)}
    sess = Session(rep, cfg_line(f, d))
    r = Rng(seed)
    discards = {"matrix_cells": 0, "schedules": 0, "scenarios": 0}
    try:
        tp = time.time()
        # (C) scripted scenarios first (they are the witnesses of the listed findings)
        for fn_ in (scenario_running_sweeper, scenario_gate):
            for attempt in range(3):
                try:
                    sc = fn_(rep, sess)
                    judge_scenario(v, rep, sc)
                    rep.traces_validated += 1
                    if fn_ is scenario_gate:
                        rep.sample({"gate_scenario": {"keys": sc["keys"], "sweep": strip(sc["sweep"]), "window": [(w["cmd"], w["impl"], w["spec"]) for w in sc["window"]],
                                                      "after": [(s["key"], s["impl"], s["spec"]) for s in sc["state"]]}})
                    break
                except Discard:
                    discards["scenarios"] += 1
            else:
                raise InternalError("could not keep the timing windows of a scripted scenario in 3 attempts (machine too loaded)")
        timing["scenarios"] = round(time.time() - tp, 1)
        tp = time.time()
        # (A) matrix
        sess.pause()
        late_seen = set()
        for rnd in range(1 if tier == "quick" else 3):
            results, disc = run_matrix(rep, sess, Rng(seed * 7919 + rnd), tier)
            discards["matrix_cells"] += disc
            late_seen |= judge_matrix(v, rep, results)
            rep.traces_validated += len(results)
            if rnd == 0:
                for res in results:
                    if res["phase"] == "after" and res["label"] in ("LLEN", "GET", "EXPIRE", "RPUSH") and res["typ"] in ("list", "string") and len(rep.samples) < 8:
                        rep.sample({"matrix_cell": {k: res[k] for k in ("cmd", "typ", "phase", "impl_cls", "impl_reply", "impl_post", "spec_post", "tag")}})
        rep.extra["late_functions_confirmed"] = sorted(late_seen)
        rep.extra["not_lazy_without_matrix_command"] = sorted(set(d["notLazy"]) - late_seen - {"incr", "pexpire", "pttl"})
        stale = sorted(x for x in late_seen if x not in d["notLazy"] and x not in ("ttl",))
        if stale:
            v.disagree.append({"kind": "table", "why": "functions observed late but listed as lazily checked by the translator", "fns": stale})
        timing["matrix"] = round(time.time() - tp, 1)
        tp = time.time()
        # (B) schedules
        target = 10 if tier == "quick" else 120
        done = attempts = 0
        while done < target and attempts < 2 * target + 4:
            gate = attempts % 2 == 1
            meta = {"kind": "schedule", "schedule_seed": seed, "index": attempts, "gate": gate}
            try:
                sc = run_schedule(rep, sess, Rng(seed * 1000003 + attempts), attempts, gate)
                judge_schedule(v, rep, sc, meta)
                done += 1
                rep.traces_validated += 1
                if done == 1:
                    rep.sample({"schedule": [(e["cmd"], e["impl"], e["spec"], e["tag"]) if "cmd" in e else "sweep" if "sweep" in e else "final" for e in sc.events[:30]]})
            except Discard as e:
                discards["schedules"] += 1
                rep.count("discard")
            attempts += 1
        if done < target // 2:
            raise InternalError("only %d of %d schedules kept their timing windows (machine too loaded)" % (done, target))
        rep.extra["schedules_run"] = done
        timing["schedules"] = round(time.time() - tp, 1)
        rep.extra["phase_seconds"] = timing
        # (D) one command = one clock reading
        tp = time.time()
        recs = straddle_layer(sess, tier)
        rep.extra["straddle"] = recs
        for rec in recs:
            if rec["subset"]:
                at = rec["subset"]
                what = ("%s whose execution (%.0f ms) straddled the key's deadline (PEXPIRE z %d just before) saw the key both ways: reply %s, afterwards ZCARD z = %s, PTTL z = %s "
                        "(a command is one step: all-before = everything expired, all-after = exactly the new members without TTL)" % (
                            rec["cmd"], at["exec_ms"], at["ttl_ms"], at["reply"], at["zcard_after"], at["pttl_after"]))
                fnd = None if f.get("zsetOneCall") else match_finding(fs, "multi-member:per-call")
                rep.count("oracle_failures")
                if fnd:
                    v.known.setdefault(fnd["id"], fnd)
                    rep.count("known.multi-member:per-call")
                else:
                    v.unexplained.append((what, {"kind": "straddle", "record": rec}))
        timing["straddle"] = round(time.time() - tp, 1)
        rep.extra["phase_seconds"] = timing
        # (E) one script / one EXEC = one clock reading
        tp = time.time()
        brecs = block_layer(sess, tier)
        rep.extra["blocks"] = brecs
        for rec in brecs:
            bad = rec["consistent"] is False or rec["absent_after"] is False
            if bad:
                g = rec["values"]
                what = ("%s (%.0f ms of execution, TTL %d ms): a key expired in the MIDDLE of the block - first reading GET=%s EXISTS=%s PTTL=%s, later in the same block "
                        "EXISTS=%s GET=%s PTTL=%s, INCR -> %s with PTTL %s; k2 (SET ... PX %d inside) read back %s PTTL %s; after the block EXISTS k / k2 = %s "
                        "(a script / a transaction is one step: everything must agree with its first clock reading)" % (
                            rec["kind"], rec["block_ms"], rec["ttl_ms"], g["get1"], g["exists1"], g["pttl1"], g["exists2"], g["get2"], g["pttl2"], g["incr"], g["pttl3"],
                            rec["k2_px"], g["get_k2"], g["pttl_k2"], rec["after_block"]))
                fnd = None if f.get("scriptClockFrozen") else match_finding(fs, "block:per-call-clock")
                rep.count("oracle_failures")
                if fnd and rec["consistent"] is False:
                    v.known.setdefault(fnd["id"], fnd)
                    rep.count("known.block:per-call-clock")
                else:
                    v.unexplained.append((what, {"kind": "block", "record": rec}))
        timing["blocks"] = round(time.time() - tp, 1)
        rep.extra["phase_seconds"] = timing
        # the last millisecond (informational)
        try:
            hits, spanned = probe_last_millisecond(sess)
            rep.extra["last_millisecond_probe"] = {"pairs_TTL_-2_then_GET_value": hits, "deadline_spanned": spanned}
            if hits:
                fnd = None if f.get("ttlLastMsFixed") else match_finding(fs, "ttl:last-millisecond")
                if fnd:
                    v.known.setdefault(fnd["id"], fnd)
                else:
                    v.unexplained.append(("TTL answered -2 for a key that a GET sent afterwards still returned (last millisecond before the deadline)",
                                          {"kind": "last-millisecond", "hits": hits}))
        except (Closed, TimeoutError, ProtocolError, OSError):
            pass
        rep.extra["discarded"] = discards
        v.finish(ok, log, errs)
    finally:
        sess.close()
    return rep.finish()


def replay(path):
    """re-execute the failing item of a replay file against the server built from the current tree"""
    obj = json.load(open(path))
    rp = obj.get("replay", {})
    print("replay of: %s" % obj.get("what"))
    if obj.get("no_failing_input_found"):
        print("no failing input was found; what no longer checks:")
        print(json.dumps({k: obj[k] for k in obj if k in ("theorem_errors", "correspondence", "disagreements")}, indent=1)[:4000])
        return 1
    rep = Report(PID, "quick", obj.get("seed", 1))
    build_server()
    f, d = translator_facts()
    sess = Session(rep, cfg_line(f, d))
    v = Verdict(rep, [])
    try:
        kind = rp.get("kind")
        if kind == "matrix":
            sess.pause()
            cell = rp["cell"]
            results, _ = run_matrix(rep, sess, Rng(obj.get("seed", 1) * 7919), "quick")
            for res in results:
                if res["label"] == cell["label"] and res["typ"] == cell["typ"] and res["phase"] == cell["phase"]:
                    ok, corr = judge_cell(res)
                    print("%s on a %s key, %s the deadline: server %s %s | model of the code %s %s | prescribed %s %s -> %s" % (
                        res["cmd"], res["typ"], res["phase"], res["impl_reply"], res["impl_post"], res["code_reply"], res["code_post"], res["spec_reply"], res["spec_post"],
                        "as prescribed" if ok else "DEVIATES"))
                    return 0 if ok else 1
        elif kind in ("gate", "running-sweeper"):
            sc = (scenario_gate if kind == "gate" else scenario_running_sweeper)(rep, sess)
            judge_scenario(v, rep, sc)
            for s in sc["state"]:
                print("%-6s server %s | model of the code %s | prescribed %s" % (s["key"], s["impl"], s["code"], s["spec"]))
        elif kind == "block":
            for rec in block_layer(sess, "thorough"):
                print("%s: %.0f ms, TTL %d ms, straddled %s, consistent with the first reading: %s, absent afterwards: %s  %s" % (
                    rec["kind"], rec["block_ms"], rec["ttl_ms"], rec["straddled"], rec["consistent"], rec["absent_after"], rec["values"]))
                if rec["consistent"] is False or rec["absent_after"] is False:
                    v.unexplained.append(("%s: a key expired in the middle of the block" % rec["kind"], {}))
        elif kind == "straddle":
            for rec in straddle_layer(sess, "quick"):
                print("%s: execution %.1f ms; attempts %s" % (rec["cmd"], rec["exec_ms"], rec["attempts"]))
                if rec["subset"]:
                    v.unexplained.append(("%s saw the key both ways: %s" % (rec["cmd"], rec["subset"]), {}))
        elif kind == "schedule":
            rr = Rng(rp["schedule_seed"] * 1000003 + rp["index"])
            sess.pause()
            sc = run_schedule(rep, sess, rr, rp["index"], rp["gate"])
            judge_schedule(v, rep, sc, {"kind": "schedule"})
            for e in sc.events:
                if "cmd" in e:
                    print("%-28s server %-14s code %-14s prescribed %-14s %s" % (e["cmd"], e["impl"], e["code"], e["spec"], e["tag"]))
                elif "sweep" in e:
                    print("sweep %s" % e["sweep"])
        else:
            print(json.dumps(rp, indent=1)[:3000])
        for w, _ in v.unexplained[:5]:
            print("DEVIATES: " + w)
        return 1 if v.unexplained else 0
    finally:
        sess.close()
