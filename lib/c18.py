"""C18 — the numbered databases are independent key spaces.

Deciding artefact: lean/FerrousSpec/Props/C18.lean (frame rule of KS.step for every command but FLUSHALL, isolation
over arbitrary access lists and over arbitrary interleaved histories of the connection machine on all four execution
paths, SELECT refusal/per-connection selection, FLUSHDB/FLUSHALL, SELECT inside MULTI, and the table theorems over the
regenerated dispatch table).  This module ties the connection machine `Ferrous.Dbs.exec` (Model/Dbs.lean, switches
read off the translator's Gen/Dispatch.lean) to the real server over TCP: 3 connections selecting among all 16
databases with valid and invalid SELECTs, the same key names everywhere, the C01/C03 command vocabulary through every
path — direct, MULTI..EXEC (with SELECT queued), EVAL and SCRIPT LOAD + EVALSHA of one fixed wrapper script that
performs the `redis.call`s handed to it, blocking pops served later by a push of another connection (sequenced with
the VERIF BLOCKED / VERIF LOOP hooks, never with sleeps).  After each history ALL 16 databases of the server are dumped
through point reads and compared with the model's 16 dumps; the selections are compared through CLIENT LIST.

Oracle = the Spec (the same machine with every switch off): a request on which the implementation agrees with the
code variant while the code variant deviates from the Spec is a violation of the property unless its shape is a listed
finding; a reply or a dump that differs from the code variant is attributed to a database (probe of the same command on
all 16 databases, per-database dump diff) and is a violation when a database other than the selected one was read or
written.
"""
import select as _select
import types

from common import *
from server import Server, Closed, ProtocolError
from ks import KsSession, UNORDERED, RANDOM, observed
import ksgen

PID = "C18"
FAMILY = "dbs"
PENDING_FINDINGS = os.path.join(VERIF, "pending_repo_patches", "C18_findings.json")
NCONN = 3

# One fixed script: ARGV = n1 f1 a1..an1 n2 f2 b1..bn2 ..; performs the calls in order — fi = 'c': redis.call, 'p': redis.pcall — and
# returns the last reply.
WRAPPER = ("local i = 1 local r = nil while i <= #ARGV do local n = tonumber(ARGV[i]) local f = ARGV[i + 1] local c = {} "
           "for j = 1, n do c[j] = ARGV[i + 1 + j] end "
           "if f == 'p' then r = redis.pcall(unpack(c)) else r = redis.call(unpack(c)) end i = i + n + 2 end return r")

# redis.call goes through a second implementation of every command (commands/executor.rs): whether it agrees with
# the client-facing handlers is C12's property.  Through scripts this check uses the commands on which both agree
# (established by running the whole vocabulary once; see EXECUTOR_DIFFERS in the report), so that a disagreement
# here is about WHICH database was used.
SCRIPT_VOCAB = ["SET", "SET", "GET", "GET", "MSET", "SETNX", "APPEND", "STRLEN", "DEL", "EXISTS", "TYPE",
                "RPUSH", "LPUSH", "LPOP", "RPOP", "LLEN", "LINDEX", "SADD", "SREM", "SISMEMBER", "SCARD", "SMEMBERS",
                "HSET", "HGET", "HDEL", "HLEN", "HEXISTS", "HKEYS", "HGETALL", "EXPIRE", "PERSIST", "RENAME",
                "FLUSHDB", "DBSIZE", "KEYS", "DBSIZE", "KEYS", "FLUSHALL"]
DIRECT_VOCAB = ksgen.STRING_VOCAB + ksgen.COLL_VOCAB
EXEC_VOCAB = [n for n in DIRECT_VOCAB if n not in RANDOM]

SELECT_VALID = [str(i) for i in range(16)] + ["+5", "007", "+0", "015", "00000000000000000000003"] + ["0", "1", "14", "15"] * 3
# boundary indexes: the last database and just beyond it, powers of two, the i64/u64 edges, signs, padding, blanks, junk
SELECT_BOUNDARY = ["15", "16", "17", "255", "256", "2147483648", "9223372036854775807", "9223372036854775808", "18446744073709551615",
                   "18446744073709551616", "-1", "-0", "+1", "+15", "+16", "016", "015", "0016", " 1", "1 ", "", "abc", "1.0", "0", "14"]
SELECT_INVALID = ["16", "17", "255", "256", "65536", "2147483648", "9223372036854775807", "9223372036854775808", "+16", "016", "0016", "4294967296", "4294967297", "18446744073709551615", "18446744073709551616",
                  "99999999999999999999999", "-1", "-0", "", " 1", "1 ", "abc", "1.0", "0x1", "1e0", "+", "++1", "\xff", "1\x00", "٣"]


# ------------------------------------------------------------------ canonical reply trees
def tree_of_reply(r):
    t = r[0]
    if t == "e":
        return ("e",)
    if t in ("s", "b", "d"):
        return (t, hx(r[1]))
    if t == "i":
        return ("i", r[1])
    if t in ("a", "m", "S"):
        return (t, tuple(tree_of_reply(x) for x in r[1]))
    return (t,)


def parse_tree(text):
    """`( a ( b 6162 ) ( i 5 ) )` -> tree; `noreply` -> ('noreply',)"""
    if text == "noreply":
        return ("noreply",)
    toks = text.split(" ")
    pos = [0]

    def rd():
        assert toks[pos[0]] == "(", text
        tag = toks[pos[0] + 1]
        pos[0] += 2
        if tag in ("a", "m", "S"):
            xs = []
            while toks[pos[0]] != ")":
                xs.append(rd())
            pos[0] += 1
            return (tag, tuple(xs))
        vals = []
        while toks[pos[0]] != ")":
            vals.append(toks[pos[0]])
            pos[0] += 1
        pos[0] += 1
        if tag == "e":
            return ("e",)
        if tag == "i":
            return ("i", int(vals[0]))
        return (tag,) + tuple(vals)
    t = rd()
    return t


def show_tree(t):
    if t[0] in ("a", "m", "S"):
        return "( %s%s )" % (t[0], "".join(" " + show_tree(x) for x in t[1]))
    return "( %s )" % " ".join(str(x) for x in t)


def norm(name, t):
    """order-insensitive replies are sorted (they come out of hash maps / hash sets)"""
    if t[0] == "a":
        if name in UNORDERED or name in ("SPOP", "SRANDMEMBER"):
            return ("a", tuple(sorted(t[1], key=repr)))
        if name == "HGETALL" and len(t[1]) % 2 == 0:
            ps = sorted((t[1][i], t[1][i + 1]) for i in range(0, len(t[1]), 2))
            return ("a", tuple(x for p in ps for x in p))
    return t


def same_reply(name, a, b):
    a, b = norm(name, a), norm(name, b)
    if a == b:
        return True
    if name in ("TTL", "PTTL") and a[0] == "i" and b[0] == "i" and a[1] >= 0 and b[1] >= 0:
        tol = 1500 if name == "PTTL" else 2
        far = 10 ** 11 if name == "PTTL" else 10 ** 8
        return abs(a[1] - b[1]) <= tol or (a[1] >= far and b[1] >= far)
    return False


def same_out(names, a, b):
    """names: the command name (str) or, for an EXEC reply, the list of queued names"""
    if isinstance(names, list):
        if a[0] == "a" and b[0] == "a" and len(a[1]) == len(b[1]) == len(names):
            return all(same_reply(n, x, y) for n, x, y in zip(names, a[1], b[1]))
        return a == b
    return same_reply(names, a, b)


# ------------------------------------------------------------------ operations (JSON-able)
def op_plain(c, args):
    return {"c": c, "k": "plain", "args": [hx(a) for a in args]}


def op_script(c, sha, cmds, forms=None):
    """forms: one letter per call, 'c' = redis.call, 'p' = redis.pcall (default: all call)"""
    return {"c": c, "k": "script", "sha": int(sha), "cmds": [[hx(a) for a in cmd] for cmd in cmds], "forms": forms or "c" * len(cmds)}


def op_pipe(c, reqs):
    return {"c": c, "k": "pipe", "reqs": [[hx(a) for a in args] for args in reqs]}


def op_text(op):
    def t(h):
        return unhx(h).decode("latin-1")
    if op["k"] == "plain":
        return "c%d: %s" % (op["c"], " ".join(repr(t(a)) if not t(a).isalnum() else t(a) for a in op["args"]))
    if op["k"] == "script":
        fm = op.get("forms") or "c" * len(op["cmds"])
        return "c%d: %s [%s]" % (op["c"], "EVALSHA" if op["sha"] else "EVAL",
                                 " ; ".join(("pcall " if f == "p" else "") + " ".join(t(a) for a in cmd) for f, cmd in zip(fm, op["cmds"])))
    if op["k"] == "pipe":
        return "c%d: pipelined { %s }" % (op["c"], " | ".join(" ".join(t(a) for a in r) for r in op["reqs"]))
    if op["k"] == "selcheck":
        return "check: CLIENT LIST db= of every connection against the model's selections"
    if op["k"] == "dumpcheck":
        return "check: all 16 databases dumped and compared with the model"
    if op["k"] == "timeout":
        return "c%d: (its time-out fires: null array)" % op["c"]
    if op["k"] == "close":
        return "c%d: closes its socket (a new connection replaces it)" % op["c"]
    if op["k"] == "notwoken":
        return "check: c%d still blocked on %s in db %d, nothing delivered" % (op["c"], t(op["key"]), op["db"])
    return json.dumps(op)


def upname(h):
    return unhx(h).decode("latin-1").upper()


def load_findings():
    fs = [f for f in load_known_findings().get("open", []) if isinstance(f, dict) and f.get("property") == PID]
    if os.path.exists(PENDING_FINDINGS):
        try:
            for f in json.load(open(PENDING_FINDINGS)):
                if f.get("property") == PID and f["id"] not in [g["id"] for g in fs]:
                    fs.append(f)
        except (ValueError, KeyError) as e:
            raise InternalError("unreadable %s: %s" % (PENDING_FINDINGS, e))
    fixed_ids = " ".join(x for x in load_known_findings().get("fixed", []) if isinstance(x, str))
    return [f for f in fs if f["id"] not in fixed_ids]


# ------------------------------------------------------------------ the session: server + model, step by step
class Sess:
    def __init__(self, rep, tag, force_switches=None):
        self.rep = rep
        self.srv = Server(tag)
        self.ctl = self.srv.client(timeout=30.0)
        self.model = lean_driver(FAMILY)
        if force_switches:
            if self.model.ask("switches " + force_switches) != "ok":
                raise InternalError("model refused switches %r" % force_switches)
        sw = self.model.ask("switches")
        if not sw or "=" not in sw:
            raise InternalError("drv_dbs does not answer `switches`: %r" % sw)
        self.switches = {kv.split("=")[0]: kv.split("=")[1] == "1" for kv in sw.split(" ")}
        lq = self.model.ask("luaquirks")
        if not lq or "=" not in lq:
            raise InternalError("drv_dbs does not answer `luaquirks`: %r" % lq)
        # conversion switches of the script path as C12's translator reads them off lua_engine.rs (Gen/Lua.lean)
        self.luaq = {kv.split("=")[0]: kv.split("=")[1] == "1" for kv in lq.split(" ")}
        bc = self.model.ask("blockingcfg")
        if not bc or "=" not in bc:
            raise InternalError("drv_dbs does not answer `blockingcfg`: %r" % bc)
        # WHEN blocked clients are served (C13's subject), as C13's translator and mine read it off the source (Gen/Blocking.lean, Gen/Dispatch.lean)
        self.bcfg = {kv.split("=")[0]: kv.split("=")[1] == "1" for kv in bc.split(" ")}
        r = self.ctl.cmd("SCRIPT", "LOAD", WRAPPER)
        if r[0] != "b":
            raise InternalError("SCRIPT LOAD failed: %r" % (r,))
        self.sha = r[1]
        self.t0 = time.monotonic()
        self.cl = {}
        self.restarts = 0
        self.fresh()

    def now(self):
        return int((time.monotonic() - self.t0) * 1000) + 1000

    def close(self):
        for c in self.cl.values():
            c.close()
        self.ctl.close()
        self.srv.stop()
        self.model.close()

    def restart_server(self):
        for c in self.cl.values():
            c.close()
        self.cl = {}
        self.ctl.close()
        self.crash_log = self.srv.log_tail(1500)
        self.srv.stop()
        self.srv = Server(self.srv.tag)
        self.ctl = self.srv.client(timeout=30.0)
        self.ctl.cmd("SCRIPT", "LOAD", WRAPPER)
        self.restarts += 1

    def fresh(self):
        """empty server, three new connections (database 0, no transaction), empty model"""
        for c in self.cl.values():
            c.close()
        if not self.srv.alive() or getattr(self, "blocked", None) or getattr(self, "ghosts", None):
            # a client left blocked by an aborted history stays in the server's registry (a closed blocked connection is
            # not noticed: C13's subject) and would swallow a later push: start from a clean server
            self.restart_server()
        r = self.ctl.cmd("FLUSHALL")
        if r != ("s", b"OK"):
            raise InternalError("FLUSHALL failed: %r" % (r,))
        self.cl = {i: self.srv.client(timeout=30.0) for i in range(1, NCONN + 1)}
        self.ids = {}
        for i, c in self.cl.items():
            r = c.cmd("CLIENT", "ID")
            if r[0] != "i":
                raise InternalError("CLIENT ID failed: %r" % (r,))
            self.ids[i] = r[1]
        if self.model.ask("reset") != "ok":
            raise InternalError("drv_dbs reset failed")
        self.blocked = {}                 # conn -> (db, [keys])
        self.dead = set()                 # connections that hung up (never used again; replaced by a new id)
        self.ghosts = {}                  # dead connections the server still has registered: conn -> (db, [keys])
        self.ever = []                    # every (db, key) a connection ever waited on, in order
        self.multi = {i: None for i in self.cl}      # None or list of queued names
        self.multi_scripts = {i: False for i in self.cl}
        self.multi_ops = {i: [] for i in self.cl}    # the queued requests themselves
        self.sel = {i: 0 for i in self.cl}
        self.ops = []                     # executed operations of this history (replay material)
        self.steps = []

    # ---- hooks
    def registry(self, db):
        self.ctl.cmd("SELECT", str(db))
        r = self.ctl.cmd("VERIF", "BLOCKED")
        if r[0] != "a":
            raise InternalError("VERIF BLOCKED failed: %r" % (r,))
        items = r[1]
        reg = {}
        for i in range(0, len(items) - 1, 2):
            reg[items[i][1]] = [x[1] for x in items[i + 1][1]]
        return reg, items[-1][1]

    def has_bytes(self, c):
        cli = self.cl[c]
        if cli.buf:
            return True
        rd, _, _ = _select.select([cli.s], [], [], 0)
        return bool(rd)

    def wait_registered(self, c, db, keys, limit=3.0):
        """until connection c sits in the registry of (db, key) for every key — or a reply arrived instead"""
        t0 = time.monotonic()
        while True:
            reg, wq = self.registry(db)
            if all(self.ids[c] in reg.get(k, []) for k in keys):
                return True
            if self.has_bytes(c) or time.monotonic() - t0 > limit:
                return False

    def wait_unregistered(self, cid, limit=3.0):
        """until the server has dropped every registration of connection id `cid` (all 16 registries)"""
        t0 = time.monotonic()
        while True:
            left = []
            for d in range(16):
                reg, wq = self.registry(d)
                left += [(d, k) for k, ids in reg.items() if cid in ids]
            if not left:
                return []
            if time.monotonic() - t0 > limit:
                return left

    def loop_passes(self, n=3):
        l0 = self.ctl.cmd("VERIF", "LOOP")[1]
        for _ in range(10000):
            if self.ctl.cmd("VERIF", "LOOP")[1] >= l0 + n:
                return
        raise InternalError("event loop counter does not advance")

    # ---- one request on both sides
    def send(self, c, op):
        cli = self.cl[c]
        if op["k"] == "plain":
            cli.send(*[unhx(a) for a in op["args"]])
        else:
            flat = []
            fm = op.get("forms") or "c" * len(op["cmds"])
            for f, cmd in zip(fm, op["cmds"]):
                flat.append(str(len(cmd)).encode())
                flat.append(f.encode())
                flat += [unhx(a) for a in cmd]
            if op["sha"]:
                cli.send("EVALSHA", self.sha, "0", *flat)
            else:
                cli.send("EVAL", WRAPPER, "0", *flat)

    def model_line(self, c, op, obs):
        if op["k"] == "plain":
            return "req %d %d %s plain %s" % (c, self.now(), obs, " ".join(op["args"]))
        return "req %d %d _ script %d %s %s" % (c, self.now(), op["sha"], op.get("forms") or "c" * len(op["cmds"]),
                                                "/".join(",".join(cmd) for cmd in op["cmds"]))

    def names_for(self, c, op):
        """what the reply has to be canonicalised as"""
        if op["k"] == "script":
            return upname(op["cmds"][-1][0]) if op["cmds"] else ""
        name = upname(op["args"][0]) if op["args"] else ""
        if name == "EXEC" and self.multi[c] is not None:
            return list(self.multi[c])
        return name

    @staticmethod
    def names_of_step(step):
        return list(step["queue"]) if step.get("name") == "EXEC" and step.get("in_multi") else step.get("name", "")

    def request(self, c, op):
        """returns a step record; updates the mirrors. op: plain or script."""
        step = {"op": op, "text": op_text(op), "pre_sel": self.sel[c], "in_multi": self.multi[c] is not None,
                "queue": list(self.multi[c] or []), "queue_ops": list(self.multi_ops[c])}
        if c in self.blocked:
            step.update({"skipped": True, "agree": True, "dev": False})
            return step
        self.ops.append(op)
        names = self.names_for(c, op)
        name = names if isinstance(names, str) else "EXEC"
        step["name"] = name
        blocking = op["k"] == "plain" and name in ("BLPOP", "BRPOP") and self.multi[c] is None
        cli = self.cl[c]
        impl = None
        died = None
        try:
            self.send(c, op)
            if not blocking:
                impl = tree_of_reply(cli.read_reply(20.0))
        except (Closed, TimeoutError, ProtocolError, OSError) as e:
            time.sleep(0.05)
            died = "server-died" if not self.srv.alive() else "closed:" + type(e).__name__
        obs = "_"
        if impl is not None and name in RANDOM and op["k"] == "plain" and impl[0] != "e":
            if impl[0] == "b":
                obs = impl[1]
            elif impl[0] == "a":
                xs = [x[1] for x in impl[1] if x[0] == "b"]
                obs = "|".join(xs) if xs else "."
            else:
                obs = "."
        line = self.model_line(c, op, obs)
        ans = self.model.ask(line)
        if ans is None or ans == "bad-op" or ans.count(" # ") != 6:
            raise InternalError("drv_dbs failed on: %s -> %r" % (line, ans))
        code, served, acc, spec, spec_served, same, sel = ans.split(" # ")
        step.update({"line": line, "code": code, "spec": spec, "served": served, "spec_served": spec_served,
                     "same": same == "same", "accesses": acc})
        code_t, spec_t = parse_tree(code), parse_tree(spec)
        if blocking and died is None:
            if code_t == ("noreply",):
                args = [unhx(a) for a in op["args"]]
                keys = []
                for k in args[1:-1]:
                    if k not in keys:
                        keys.append(k)
                # a time-out that is meant to fire may already have fired: no look at the registry then
                if op.get("fires"):
                    # a short time-out is in flight: it is part of THIS step — the null array is awaited here, before any other
                    # look at the server (however loaded the machine is, no comparison can fall between the call and its nil), and
                    # the model's time-out fires with it; the connection is never seen as blocked by the rest of the harness
                    ans2 = self.model.ask("timeout %d" % c)
                    try:
                        got = tree_of_reply(cli.read_reply(20.0))
                    except (Closed, TimeoutError, ProtocolError, OSError) as e:
                        got = ("nothing-delivered:" + type(e).__name__,)
                    left = self.wait_unregistered(self.ids[c], 5.0) if got == ("na",) else []
                    if got == ("na",) and ans2 == "%d:( na )" % c and not left:
                        impl = ("noreply",)
                    else:
                        impl = ("time-out:%s model:%s%s" % (show_tree(got), ans2, " still registered on %s" % [(d, hx(k)) for d, k in left] if left else ""),)
                    step["extra_lines"] = ["timeout %d" % c]
                    step["timed_out"] = True
                    for k in keys:
                        if (self.sel[c], k) not in self.ever:
                            self.ever.append((self.sel[c], k))
                    self.rep.count("block.timeout-fired")
                    self.rep.count("block.%dkey%s.timed-out" % (len(keys), ".db-boundary" if self.sel[c] in (0, 1, 14, 15) else ""))
                    ok = None
                else:
                    ok = self.wait_registered(c, self.sel[c], keys, limit=10.0) if keys else False
                if ok is None:
                    pass
                elif ok:
                    impl = ("noreply",)
                    self.blocked[c] = (self.sel[c], keys)
                    for k in keys:
                        if (self.sel[c], k) not in self.ever:
                            self.ever.append((self.sel[c], k))
                    self.rep.count("block.%dkey%s%s" % (len(keys), ".db-boundary" if self.sel[c] in (0, 1, 14, 15) else "",
                                                        ".reselected" if step.get("reselected") else ""))
                else:
                    try:
                        impl = tree_of_reply(cli.read_reply(1.0))
                    except (Closed, TimeoutError, ProtocolError, OSError):
                        impl = ("noreply-unregistered",)
            else:
                try:
                    impl = tree_of_reply(cli.read_reply(15.0))
                except TimeoutError:
                    impl = ("noreply",)
                    self.blocked[c] = (self.sel[c], [b"?"])
                except (Closed, ProtocolError, OSError) as e:
                    died = "closed:" + type(e).__name__
        if died:
            impl = (died,)
        step["impl"] = show_tree(impl)
        agree = same_out(names, impl, code_t)
        # frames delivered to blocked clients
        delivered = []
        if served != ".":
            for item in served.split(" ;; "):
                bc, fr = item.split(":", 1)
                bc = int(bc)
                if bc in self.dead:
                    # served into the void (a hang-up the server has not noticed): nothing to read
                    self.ghosts.pop(bc, None)
                    delivered.append("%d:%s" % (bc, fr))
                    self.rep.count("served.ghost")
                    continue
                try:
                    got = tree_of_reply(self.cl[bc].read_reply(15.0))
                except (Closed, TimeoutError, ProtocolError, OSError) as e:
                    got = ("nothing-delivered:" + type(e).__name__,)
                delivered.append("%d:%s" % (bc, show_tree(got)))
                if got != parse_tree(fr):
                    agree = False
                else:
                    b = self.blocked.pop(bc, None)
                    if b and fr.startswith("( a ( b "):
                        kx = fr.split(" ")[4]
                        ks = [hx(k) for k in b[1]]
                        self.rep.count("served.via-key%d-of-%d" % (ks.index(kx) + 1 if kx in ks else 0, len(ks)))
        # nobody else may have received anything: an element pushed in database j goes only to a client that was selected on j
        # when it issued its blocking call
        if self.blocked and died is None:
            self.loop_passes(2)
            for bc in sorted(self.blocked):
                if self.has_bytes(bc):
                    try:
                        got = tree_of_reply(self.cl[bc].read_reply(1.0))
                    except (Closed, TimeoutError, ProtocolError, OSError) as e:
                        got = ("garbage:" + type(e).__name__,)
                    delivered.append("%d:%s" % (bc, show_tree(got)))
                    step["unexpected_delivery"] = {"conn": bc, "blocked_in_db": self.blocked[bc][0], "keys": [hx(k) for k in self.blocked[bc][1]],
                                                   "frame": show_tree(got)}
                    self.blocked.pop(bc, None)
                    agree = False
        step["delivered"] = " ;; ".join(delivered) if delivered else "."
        step["agree"] = agree
        step["dev"] = (not same_out(names, code_t, spec_t)) or same != "same" or served != spec_served
        # mirrors of the machine's connection state (deterministic in the request names)
        if name == "MULTI":
            if self.multi[c] is None:
                self.multi[c] = []
                self.multi_ops[c] = []
                self.multi_scripts[c] = False
        elif name in ("EXEC", "DISCARD"):
            self.multi[c] = None
            self.multi_ops[c] = []
        elif self.multi[c] is not None:
            self.multi[c].append(names if isinstance(names, str) else "EXEC")
            self.multi_ops[c].append(op)
            self.multi_scripts[c] = self.multi_scripts[c] or op["k"] == "script"
        self.sel[c] = int(sel)
        if died:
            step["died"] = died
        return step

    def _check_step(self, kind):
        op = {"k": kind}
        self.ops.append(op)
        return {"op": op, "text": op_text(op), "pre_sel": 0, "in_multi": False, "queue": [], "name": kind, "accesses": ".", "served": ".",
                "spec_served": ".", "same": True, "dev": False, "delivered": ".", "code": "", "spec": "", "impl": ""}

    def selcheck(self):
        """a refused SELECT keeps the selection, an accepted one sets it — on this connection only: CLIENT LIST against the model"""
        step = self._check_step("selcheck")
        si, sm = self.selections_impl(), self.selections_model()
        live = [c for c in sorted(sm) if c not in self.dead]
        step["impl"] = " ".join("c%d=%s" % (c, (si or {}).get(c)) for c in live)
        step["code"] = step["spec"] = " ".join("c%d=%s" % (c, sm[c]) for c in live)
        step["agree"] = si is None or step["impl"] == step["code"]
        return step

    def dumpcheck(self):
        step = self._check_step("dumpcheck")
        di, dm = self.dump_impl_all(), self.dump_model_all()
        diff = [d for d in range(16) if di[d] != dm[d]]
        step["impl"] = "differ: %s" % diff if diff else "equal"
        step["code"] = step["spec"] = "equal"
        step["dump_diff"] = {str(d): {"impl": di[d], "code": dm[d]} for d in diff}
        step["agree"] = not diff
        return step

    def fire_timeout(self, c):
        """the (short) time-out of blocked connection c fires: null array on the wire, no registration left"""
        op = {"k": "timeout", "c": c}
        self.ops.append(op)
        step = {"op": op, "text": op_text(op), "pre_sel": self.sel.get(c, 0), "in_multi": False, "queue": [], "name": "timeout",
                "accesses": ".", "served": ".", "spec_served": ".", "same": True, "dev": False, "code": "", "spec": ""}
        ans = self.model.ask("timeout %d" % c)
        if ans is None or ans == "bad-op":
            raise InternalError("drv_dbs timeout failed: %r" % ans)
        step["code"] = step["spec"] = ans
        step["line"] = "timeout %d" % c
        try:
            got = tree_of_reply(self.cl[c].read_reply(20.0))
        except (Closed, TimeoutError, ProtocolError, OSError) as e:
            got = ("nothing-delivered:" + type(e).__name__,)
        step["impl"] = "%d:%s" % (c, show_tree(got))
        left = self.wait_unregistered(self.ids[c], 5.0) if got == ("na",) else []
        step["agree"] = ans == step["impl"] and not left
        if left:
            step["impl"] += " still registered on %s" % [(d, hx(k)) for d, k in left]
        step["delivered"] = step["impl"]
        self.blocked.pop(c, None)
        self.rep.count("block.timeout-fired")
        return step

    def hangup(self, c):
        """connection c closes its socket (possibly while blocked); a new connection takes its place under a new id"""
        op = {"k": "close", "c": c}
        self.ops.append(op)
        step = {"op": op, "text": op_text(op), "pre_sel": self.sel.get(c, 0), "in_multi": False, "queue": [], "name": "close",
                "accesses": ".", "served": ".", "spec_served": ".", "same": True, "dev": False, "delivered": "."}
        ans = self.model.ask("close %d" % c)
        if ans not in ("ghost", "gone"):
            raise InternalError("drv_dbs close failed: %r" % ans)
        step["code"] = step["spec"] = ans
        step["line"] = "close %d" % c
        was = self.blocked.pop(c, None)
        self.cl[c].close()
        self.dead.add(c)
        cid = self.ids[c]
        if ans == "gone":
            left = self.wait_unregistered(cid, 15.0) if was else []
            step["impl"] = "gone" if not left else "still registered on %s" % [(d, hx(k)) for d, k in left]
        else:
            # the server does not notice: the registrations must still be there
            reg, wq = self.registry(was[0])
            still = all(cid in reg.get(k, []) for k in was[1])
            step["impl"] = "ghost" if still else "registrations dropped"
            self.ghosts[c] = was
        step["agree"] = step["impl"] == ans
        self.rep.count("block.hangup-while-blocked" if was else "hangup")
        # replacement
        n = max(self.cl) + 1
        self.cl[n] = self.srv.client(timeout=30.0)
        r = self.cl[n].cmd("CLIENT", "ID")
        self.ids[n] = r[1]
        self.multi[n], self.multi_scripts[n], self.multi_ops[n], self.sel[n] = None, False, [], 0
        step["new_conn"] = n
        return step

    def pipeline(self, c, op):
        """several plain requests written in one segment; answered in order"""
        steps = []
        cli = self.cl[c]
        self.ops.append(op)
        try:
            cli.send_raw(b"".join(cli.encode([unhx(a) for a in args]) for args in op["reqs"]))
            impls = [tree_of_reply(cli.read_reply(20.0)) for _ in op["reqs"]]
        except (Closed, TimeoutError, ProtocolError, OSError) as e:
            impls = [("closed:" + type(e).__name__,)] * len(op["reqs"])
        for args, impl in zip(op["reqs"], impls):
            sub = {"c": c, "k": "plain", "args": args}
            name = upname(args[0])
            step = {"op": op, "text": op_text(op) + " / " + name, "pre_sel": self.sel[c], "in_multi": False, "queue": [], "name": name}
            line = self.model_line(c, sub, "_")
            ans = self.model.ask(line)
            if ans is None or ans == "bad-op" or ans.count(" # ") != 6:
                raise InternalError("drv_dbs failed on: %s -> %r" % (line, ans))
            code, served, acc, spec, spec_served, same, sel = ans.split(" # ")
            step.update({"line": line, "code": code, "spec": spec, "served": served, "spec_served": spec_served, "same": same == "same",
                         "accesses": acc, "impl": show_tree(impl), "delivered": "."})
            step["agree"] = same_out(name, impl, parse_tree(code)) and served == "."
            step["dev"] = (not same_out(name, parse_tree(code), parse_tree(spec))) or same != "same"
            self.sel[c] = int(sel)
            steps.append(step)
        return steps

    def check_not_woken(self, c, db, key):
        """after a push elsewhere: c is still registered on (db, key), nothing was queued for it, nothing was delivered"""
        op = {"k": "notwoken", "c": c, "db": db, "key": hx(key)}
        self.ops.append(op)
        self.loop_passes(3)
        reg, wq = self.registry(db)
        keys = self.blocked[c][1] if c in self.blocked and self.blocked[c][0] == db else [key]
        still = all(self.ids[c] in reg.get(k, []) for k in keys)
        quiet = not self.has_bytes(c)
        step = {"op": op, "text": op_text(op), "impl": "registered=%s wake_queue=%d delivered=%s" % (still, wq, not quiet),
                "code": "registered=True wake_queue=0 delivered=False", "spec": "registered=True wake_queue=0 delivered=False",
                "agree": still and wq == 0 and quiet, "dev": False, "same": True, "name": "notwoken", "accesses": ".", "pre_sel": db,
                "in_multi": False, "queue": [], "served": ".", "spec_served": ".", "delivered": "."}
        return step

    # ---- dumps
    def dump_impl_all(self):
        out = []
        shim = types.SimpleNamespace(cli=self.ctl)
        for d in range(16):
            r = self.ctl.cmd("SELECT", str(d))
            if r != ("s", b"OK"):
                return ["dump-failed:SELECT %d %r" % (d, r)] * 16
            try:
                out.append(KsSession.dump_impl(shim))
            except (IndexError, KeyError, TypeError, AttributeError):
                out.append("dump-failed: point reads of database %d are inconsistent with KEYS/TYPE" % d)
        return out

    def dump_model_all(self):
        ans = self.model.ask("dumpall %d" % self.now())
        if ans is None or ans == "bad-op":
            raise InternalError("drv_dbs dumpall failed")
        return ans.split(" || ")

    def selections_impl(self):
        r = self.ctl.cmd("CLIENT", "LIST")
        if r[0] != "b":
            return None
        m = {}
        for ln in r[1].decode("latin-1").splitlines():
            a = re.search(r"\bid=(\d+)\b", ln)
            b = re.search(r"\bdb=(\d+)\b", ln)
            if a and b:
                m[int(a.group(1))] = int(b.group(1))
        return {c: m.get(i) for c, i in self.ids.items()}

    def selections_model(self):
        ans = self.model.ask("sels " + " ".join(str(c) for c in sorted(self.cl)))
        return {c: int(x) for c, x in zip(sorted(self.cl), ans.split(" "))}

    def probe(self, args_hex):
        ans = self.model.ask("probe %d %s" % (self.now(), " ".join(args_hex)))
        return [parse_tree(x) for x in ans.split(" || ")] if ans and ans != "bad-op" else []

    def final_checks(self):
        """all 16 databases, all selections, no stray bytes; returns a list of problems"""
        problems = []
        di, dm = self.dump_impl_all(), self.dump_model_all()
        for d in range(16):
            if di[d] != dm[d]:
                problems.append({"kind": "dump", "db": d, "impl": di[d], "code": dm[d]})
        si, sm = self.selections_impl(), self.selections_model()
        if si is not None:
            for c in sm:
                if c not in self.blocked and c not in self.dead and si.get(c) != sm[c]:
                    problems.append({"kind": "selection", "conn": c, "impl": si.get(c), "code": sm[c]})
        for c in self.cl:
            if c not in self.blocked and c not in self.dead and self.has_bytes(c):
                problems.append({"kind": "stray-bytes", "conn": c})
        # no registration may be left behind by clients that are not waiting any more
        waiting_ids = {self.ids[c] for c in list(self.blocked) + list(self.ghosts)}
        for d in range(16):
            reg, wq = self.registry(d)
            for k, ids in reg.items():
                stale = [i for i in ids if i not in waiting_ids]
                if stale:
                    problems.append({"kind": "stale-registration", "db": d, "key": hx(k), "conn_ids": stale})
        return problems


# ------------------------------------------------------------------ shapes of the listed findings
def scripts_of(step):
    """(sha, names) of every script the request ran: itself, or the scripts queued in the EXEC"""
    op = step["op"]
    if op["k"] == "script":
        return [(op["sha"], [upname(cmd[0]) for cmd in op["cmds"] if cmd])]
    return []


def shape(step, hist_ops):
    """which listed deviation could explain this step? (by the form of the request, not by the property)"""
    shapes = set()
    op = step["op"]
    sel = step["pre_sel"]
    scripts = []
    queued_select = False
    if op["k"] == "script" and not step["in_multi"]:
        scripts = scripts_of(step)
    elif op["k"] == "plain" and step.get("name") == "EXEC" and step["in_multi"]:
        for o in step.get("queue_ops", []):
            if o["k"] == "script":
                scripts.append((o["sha"], [upname(cmd[0]) for cmd in o["cmds"] if cmd]))
            elif o["k"] == "plain" and o["args"] and upname(o["args"][0]) == "SELECT":
                queued_select = True
    for sha, names in scripts:
        if sha and sel != 0:
            shapes.add("evalsha-db0")
        if sel != 0 and any(n in ("FLUSHDB", "DBSIZE", "KEYS") for n in names):
            shapes.add("script-dbcmds-db0")
    if queued_select:
        shapes.add("select-in-multi")
    return shapes


# ------------------------------------------------------------------ history generator
class HistGen:
    def __init__(self, r, sess, profile):
        self.r, self.s, self.profile = r, sess, profile
        self.gd = ksgen.Gen(r, DIRECT_VOCAB)
        self.ge = ksgen.Gen(r, EXEC_VOCAB)
        self.gs = ksgen.Gen(r, SCRIPT_VOCAB)

    def select_arg(self, valid=None):
        r = self.r
        if valid is None:
            valid = r.chance(3, 4)
        return self._enc(r.choice(SELECT_VALID) if valid else r.choice(SELECT_INVALID))

    @staticmethod
    def _enc(s):
        try:
            return s.encode("latin-1")
        except UnicodeEncodeError:
            return s.encode("utf-8")

    def select_cmd(self, valid=None):
        r = self.r
        k = r.below(20)
        if k == 0:
            return [b"SELECT"]
        if k == 1:
            return [b"SELECT", b"1", b"2"]
        name = r.choice([b"SELECT", b"SELECT", b"select", b"Select"])
        return [name, self.select_arg(valid)]

    def script_cmds(self):
        """1-3 well-formed calls: malformed options/arity take different routes through executor.rs (C12's subject);
        wrong-type targets, missing keys and (since 185512d) binary keys/values are included"""
        r = self.r
        g = self.gs
        out = []
        for _ in range(r.choice([1, 1, 1, 2, 3])):
            for _try in range(30):
                name = r.choice(SCRIPT_VOCAB)
                if name == "SET":
                    cmd = [b"SET", g.key(), g.val()] + (r.choice([[], [], [b"EX", r.choice(ksgen.TTLS)], [b"NX"], [b"XX"]]))
                elif name == "EXPIRE":
                    cmd = [b"EXPIRE", g.key(), r.choice(ksgen.TTLS)]
                elif name == "LINDEX":
                    cmd = [b"LINDEX", g.key(), str(r.choice([0, 1, -1, 2, -2, 5])).encode()]
                elif name == "KEYS":
                    cmd = [b"KEYS", r.choice([b"*", b"k*", b"?", b"*1", b"miss", b"[kl]*"])]
                elif name == "FLUSHALL":
                    cmd = [b"FLUSHALL"]
                else:
                    cmd = [name.encode()] + getattr(g, "g_" + name.lower())()
                if self.s.luaq.get("lossyStrings") or self.s.luaq.get("utf8ArgsOnly"):
                    # ARGV would go through from_utf8_lossy / be refused (C12's subject, repaired by 185512d): valid UTF-8 only
                    try:
                        for a in cmd:
                            a.decode("utf-8")
                    except UnicodeDecodeError:
                        continue
                break
            else:
                cmd = [b"GET", b"k1"]
            out.append(cmd)
        return out

    def forms_for(self, cmds):
        """the call form is a dimension of every script step: redis.call or redis.pcall; sometimes a pcall that fails is put in
        front of another command (the script must go on, on the same database)"""
        r = self.r
        cmds = list(cmds)
        k = r.below(10)
        if k < 4:
            forms = "c" * len(cmds)
        elif k < 6:
            forms = "p" * len(cmds)
        else:
            forms = "".join(r.choice("cp") for _ in cmds)
        if r.chance(1, 5):
            fail = r.choice([[b"GET"], [b"HGET", b"k1"], [b"LPUSH", b"k1", b"x"], [b"SELECT", b"3"], [b"LLEN"], [b"SADD", b"l", b"m"]])
            i = r.below(len(cmds))           # never last: the script's reply stays the reply of a generated command
            cmds.insert(i, fail)
            forms = forms[:i] + "p" + forms[i:]
            self.s.rep.count("script.pcall-of-failing-command-then-more")
        self.s.rep.count("script.forms.%s" % ("call-only" if "p" not in forms else ("pcall-only" if "c" not in forms else "mixed")))
        return cmds, forms

    def script_op(self, c, sha=None, cmds=None):
        cmds, forms = self.forms_for(cmds if cmds is not None else self.script_cmds())
        return op_script(c, self.r.chance(1, 2) if sha is None else sha, cmds, forms)

    def unit(self):
        """the next operations (a list of closures over the session)"""
        r, s = self.r, self.s
        free = [c for c in s.cl if c not in s.blocked and c not in s.dead]
        if not free:
            return None
        c = r.choice(free)
        if s.multi[c] is not None:
            k = r.below(100)
            if k < 14 or len(s.multi[c]) >= 8:
                return [("req", op_plain(c, [r.choice([b"EXEC", b"exec"])]))]
            if k < 17:
                return [("req", op_plain(c, [b"DISCARD"]))]
            if k < 35:
                return [("req", op_plain(c, self.select_cmd()))]
            if k < 52:
                return [("req", self.script_op(c))]
            if k < 54:
                return [("req", op_plain(c, [b"MULTI"]))]
            if k < 59:
                # inside EXEC a blocking pop acts on the connection's database and never blocks
                return [("req", op_plain(c, [r.choice([b"BLPOP", b"BRPOP"]), r.choice([b"l", b"l", b"k1", b"miss", b"s"]),
                                             r.choice([b"0", b"30", b"abc"])]))]
            return [("req", op_plain(c, self.ge.command()))]
        k = r.below(100)
        if k < 20:
            return [("req", op_plain(c, self.select_cmd()))]
        if k < 28:
            return [("req", op_plain(c, [b"MULTI"]))]
        if k < 46:
            return [("req", self.script_op(c))]
        if k < 51:
            return [("pipe", op_pipe(c, [[b"SELECT", self.select_arg(True)], self.ge.command(), [b"SELECT", self.select_arg()], self.ge.command()]))]
        if k < 60 and self.profile != "noblock" and len(free) >= 2:
            return [("block", c)]
        if k < 65:
            return [("selprobe", c)]
        if k < 69:
            return [("flush", c)]
        if k < 71:
            return [("req", op_plain(c, r.choice([[b"EXEC"], [b"DISCARD"], [b"FLUSHDB"], [b"FLUSHALL"], [b"FLUSHDB", b"x"], [b"FLUSHALL", b"x"]])))]
        return [("req", op_plain(c, self.gd.command()))]


# ------------------------------------------------------------------ running histories
class Runner:
    def __init__(self, rep, sess, findings):
        self.rep, self.s = rep, sess
        self.by_shape = {f["match"]: f for f in findings}
        self.known_seen = {}           # shape -> replay
        self.new_failures = []         # oracle failures outside the listed findings
        self.disagreements = []        # impl != code model, oracle holds as far as attributable
        self.stale_registrations = []  # remembered, reported as a correspondence break when nothing else fails
        self.dev_steps = 0

    def record(self, step):
        rep = self.rep
        rep.evaluations += 1
        op = step["op"]
        path = "pipe" if op["k"] == "pipe" else "blocked-check" if op["k"] == "notwoken" else ("exec" if step.get("name") == "EXEC" and step["in_multi"] else
                                                  ("queued" if step["in_multi"] else ("evalsha" if op["k"] == "script" and op["sha"] else
                                                                                     ("eval" if op["k"] == "script" else "direct"))))
        code = step.get("code", "")
        cls = "err" if code == "( e )" else ("noreply" if code == "noreply" else "ok")
        name = step.get("name", "?")
        acc = step.get("accesses", ".")
        wrong = any(a.split(":")[1] != a.split(":")[2] for a in acc.split(",")) if acc != "." else False
        rep.count("%s.%s" % (path, cls))
        rep.nontrivial((path, name, cls, step["pre_sel"] != 0, wrong, step.get("served", ".") != "."))
        if acc != ".":
            for a in acc.split(","):
                rep.count("access.%s%s" % (a.split(":")[0], ".other-db" if a.split(":")[1] != a.split(":")[2] else ""))

    def judge(self, step):
        """returns True when the history may continue"""
        s = self.s
        self.record(step)
        s.steps.append(step)
        if step.get("skipped"):
            return True
        if step["agree"] and not step["dev"]:
            return True
        replay = {"family": FAMILY, "ops": list(s.ops), "failing_step": len(s.steps) - 1,
                  "step": {k: step.get(k) for k in ("text", "impl", "code", "spec", "served", "spec_served", "delivered", "same", "accesses", "pre_sel")},
                  "switches": s.switches}
        if step["agree"] and step["dev"] and step.get("name") != "notwoken":
            # the reply is the code variant's; where code and Spec differ in the post-state only, look at the post-state
            # before saying whom the implementation follows (all 16 databases and the selections)
            di, dm = s.dump_impl_all(), s.dump_model_all()
            si, sm = s.selections_impl(), s.selections_model()
            if di != dm or (si is not None and any(si.get(c) != sm[c] for c in sm if c not in s.blocked)):
                step["agree"] = False
                step["post_state_differs_from_code"] = True
        if step["agree"] and step["dev"]:
            # the implementation does what the code variant does, and that is not what the property prescribes
            self.dev_steps += 1
            shapes = shape(step, s.ops)
            hit = [sh for sh in shapes if sh in self.by_shape and self.switch_on(sh)]
            if hit:
                for sh in hit:
                    self.known_seen.setdefault(sh, replay)
                self.rep.count("known." + "+".join(sorted(hit)))
                return True
            acc = step.get("accesses", ".")
            other = [a for a in acc.split(",") if a != "." and a.split(":")[1] != a.split(":")[2]]
            replay["why"] = ("%s: the implementation does what the code variant does and both deviate from the Spec%s; no listed finding has this shape"
                             % (step["text"], (" — ran on another database than the selected one (path:used:selected) " + ",".join(other)) if other
                                else " (reply %s / deliveries %s / post-state %s vs prescribed %s / %s)" % (step.get("code"), step.get("served"),
                                     "same" if step.get("same") else "different", step.get("spec"), step.get("spec_served"))))
            self.new_failures.append(replay)
            return False
        # implementation != code variant: attribute to a database
        why = self.attribute(step)
        replay["why"] = why["why"]
        replay["attribution"] = why
        if why["isolation"]:
            self.new_failures.append(replay)
        else:
            self.disagreements.append(replay)
        return False

    def switch_on(self, sh):
        return {"evalsha-db0": "evalshaDb0", "script-dbcmds-db0": "scriptDbCmdsDb0", "select-in-multi": "execSelectNoop"}.get(sh) is None or \
            self.s.switches.get({"evalsha-db0": "evalshaDb0", "script-dbcmds-db0": "scriptDbCmdsDb0", "select-in-multi": "execSelectNoop"}[sh], False)

    def attribute(self, step):
        """impl differs from the code variant: was a database other than the selected one read or written?"""
        s = self.s
        op = step["op"]
        out = {"isolation": False, "why": "reply differs from the code variant of the connection machine"}
        if step.get("name") == "selcheck":
            out.update({"isolation": True, "why": "the selections of the connections (CLIENT LIST db=) are not the prescribed ones: server %s, Spec %s"
                        % (step["impl"], step["spec"])})
            return out
        if step.get("name") == "dumpcheck":
            prev = next((st for st in reversed(s.steps[:-1]) if st.get("name") not in ("selcheck", "dumpcheck", "notwoken")), None)
            out.update({"isolation": True, "dump_diff": step.get("dump_diff"),
                        "why": "after %s databases %s are not what the Spec prescribes (dump of all 16)" % (prev["text"] if prev else "the history", sorted(step.get("dump_diff", {})))})
            return out
        if step.get("name") == "SELECT" and not step.get("in_multi") and op["k"] == "plain" and not step.get("died"):
            # SELECT is the property itself: refused or accepted is judged against the Spec directly
            i_ok, s_ok = step["impl"] == "( s 4f4b )", step["spec"] == "( s 4f4b )"
            if i_ok != s_ok or (step["impl"] != "( e )" and not i_ok):
                arg = unhx(op["args"][1]).decode("latin-1") if len(op["args"]) == 2 else "<%d arguments>" % (len(op["args"]) - 1)
                out.update({"isolation": True, "why": "SELECT %r was %s, the Spec %s it (selectArg: one unsigned decimal below 16)"
                            % (arg, "accepted" if i_ok else "answered %s" % step["impl"], "accepts" if s_ok else "refuses")})
                return out
        ud = step.get("unexpected_delivery")
        if ud:
            used = {int(a.split(":")[1]) for a in step["accesses"].split(",")} if step.get("accesses", ".") != "." else {step["pre_sel"]}
            if ud["blocked_in_db"] not in used:
                out.update({"isolation": True, "delivered_across": {"pushed_in": sorted(used), "client_blocked_in": ud["blocked_in_db"]},
                            "why": "%s ran with database(s) %s, and connection c%d — which issued its blocking pop on %s with database %d selected — "
                                   "was handed %s" % (step["text"], sorted(used), ud["conn"], [unhx(k).decode("latin-1") for k in ud["keys"]],
                                                      ud["blocked_in_db"], ud["frame"])})
                di, dm = s.dump_impl_all(), s.dump_model_all()
                out["dump_diff"] = {str(d): {"impl": di[d], "code": dm[d]} for d in range(16) if di[d] != dm[d]}
                return out
            out["why"] = "a blocked client was served in its own database although the code variant serves nobody (C13's subject): %s" % ud
        if step.get("name") in ("timeout", "close"):
            out["why"] = "time-out / hang-up of a blocked client: model %s, server %s (C13's subject)" % (step.get("code"), step.get("impl"))
            return out
        if step.get("name") == "notwoken":
            out.update({"isolation": True, "why": "a push in ANOTHER database woke / unregistered / served a client blocked in database %d" % op["db"]})
            return out
        if step.get("died"):
            out["why"] = "connection closed / server died: " + step["died"]
            return out
        sel = step["pre_sel"]
        used = set()
        if step.get("accesses", ".") != ".":
            used = {int(a.split(":")[1]) for a in step["accesses"].split(",")}
        used.add(sel)
        if step.get("name") == "EXEC" and step.get("in_multi") and not step.get("died"):
            it, st_ = parse_tree(step["impl"]), parse_tree(step["spec"])
            if it[0] == "a" and st_[0] == "a" and len(it[1]) == len(st_[1]) == len(step.get("queue_ops", [])):
                refused = None
                for o, x, y in zip(step["queue_ops"], it[1], st_[1]):
                    if o["k"] == "plain" and o["args"] and upname(o["args"][0]) == "SELECT":
                        if (x == ("e",)) != (y == ("e",)):
                            out.update({"isolation": True, "why": "the queued %s was %s by EXEC, the Spec %s it"
                                        % (op_text(o), "refused" if x == ("e",) else "accepted", "refuses" if y == ("e",) else "accepts")})
                            return out
                        if y == ("e",):
                            refused = o
                    elif refused is not None and o["k"] == "plain" and not same_reply(upname(o["args"][0]) if o["args"] else "", x, y):
                        out.update({"isolation": True, "why": "a refused SELECT keeps the current selection, but after the refused queued %s the queued %s answered %s "
                                    "where the Spec (database %d still selected) answers %s" % (op_text(refused), op_text(o), show_tree(x), step["pre_sel"], show_tree(y))})
                        return out
        # (a) reads: the same command on every database (post-state of the model; meaningful for commands that do not write)
        if op["k"] == "plain" and not step["in_multi"] and step.get("name") not in ("EXEC", "MULTI", "DISCARD", "SELECT", "BLPOP", "BRPOP"):
            pr = s.probe(op["args"])
            impl = parse_tree(step["impl"])
            name = step.get("name", "")
            if pr and not same_reply(name, impl, pr[sel]):
                others = [j for j in range(16) if j not in used and same_reply(name, impl, pr[j]) and not same_reply(name, pr[j], pr[sel])]
                if others:
                    out.update({"isolation": True, "read_from": others,
                                "why": "with database %d selected the reply is the one database %s would give" % (sel, others)})
        # (b) writes: per-database dump diff
        di, dm = s.dump_impl_all(), s.dump_model_all()
        diff = [d for d in range(16) if di[d] != dm[d]]
        out["dump_diff"] = {str(d): {"impl": di[d], "code": dm[d]} for d in diff}
        foreign = [d for d in diff if d not in used]
        if foreign:
            out.update({"isolation": True, "wrote": foreign,
                        "why": "databases %s differ from the model although the request ran with database(s) %s" % (foreign, sorted(used))})
        if step.get("post_state_differs_from_code"):
            out.update({"isolation": True, "why": "the post-state (databases / selections) is not the code variant's"})
        if out["isolation"] and not step.get("died"):
            # judged against the code variant so far; the judge is the Spec: replay the history on the switch-free machine
            try:
                spec = lean_driver(FAMILY)
                try:
                    spec.ask("switches evalshaDb0=0 scriptDbCmdsDb0=0 execSelectNoop=0")
                    last = None
                    for st in s.steps:
                        if st.get("line"):
                            last = spec.ask(st["line"])
                            for xl in st.get("extra_lines", []):
                                spec.ask(xl)
                    ds = (spec.ask("dumpall %d" % s.now()) or "").split(" || ")
                    ss = (spec.ask("sels " + " ".join(str(c) for c in sorted(s.cl))) or "").split(" ")
                finally:
                    spec.close()
                si = s.selections_impl()
                sel_ok = si is None or all(c in s.blocked or str(si.get(c)) == x for c, x in zip(sorted(s.cl), ss))
                if ds == di and sel_ok and last and step.get("line") and same_out(s.names_of_step(step), parse_tree(step["impl"]), parse_tree(last.split(" # ")[0])):
                    out.update({"isolation": False, "follows_spec": True,
                                "why": "the implementation follows the Spec (switch-free machine) where the code variant deviates: the model switches are stale"})
            except (InternalError, OSError, ValueError):
                pass
        if step.get("served", ".") != step.get("delivered", "."):
            if "nothing-delivered" in step.get("delivered", ""):
                out.update({"isolation": True, "why": "a blocked client was not served by a push in its own database: model %s, got %s"
                            % (step.get("served"), step.get("delivered"))})
            elif not out["isolation"]:
                out["why"] = ("a blocked client was served in its own database, but not what the code variant delivers (order of pops/wake-ups: C13's subject): model %s, got %s"
                              % (step.get("served"), step.get("delivered")))
        return out

    # ---- SELECT at the boundaries, on every path, followed by a data command and a look at the selections
    def select_probe(self, r, c, gen):
        s = self.s
        arg = gen._enc(r.choice(SELECT_BOUNDARY))
        path = r.choice(["direct", "direct", "exec", "exec", "script", "pipe"])
        self.rep.count("selprobe.%s.%s" % (path, "valid" if arg.strip(b"+").isdigit() and arg.strip() == arg and arg != b"" and int(arg) < 16 and not arg.startswith(b"-") else "invalid"))
        sel = [r.choice([b"SELECT", b"select", b"Select"]), arg]
        if r.chance(1, 4):
            # refused for its arity, with a perfectly valid-looking first argument (another database than the selected one)
            d = str(self.bdb(r, avoid=s.sel[c])).encode()
            sel = [sel[0], d, r.choice([b"junk", str(self.bdb(r)).encode(), b""])]
            arg = d + b"+extra"
            self.rep.count("selprobe.%s.wrong-arity-valid-first-argument" % path)
        marker = [b"SET", b"selprobe", arg or b"empty"]
        if path == "direct":
            seq = [("req", op_plain(c, sel))]
        elif path == "exec":
            seq = [("req", op_plain(c, x)) for x in ([b"MULTI"], sel, marker, [b"APPEND", b"selprobe", b"!"], [b"EXEC"])] + [("dump", None)]
        elif path == "script":
            seq = [("req", op_script(c, r.chance(1, 2), [[b"SELECT", arg], marker], r.choice(["pc", "pp", "pc"])) if r.chance(1, 2)
                    else op_script(c, r.chance(1, 2), [[b"SELECT", arg]], r.choice("cp")))]   # refused inside scripts, selection kept
        else:
            seq = [("pipe", op_pipe(c, [sel, [b"GET", b"selprobe"]]))]
        seq += [("req", op_plain(c, marker)), ("req", op_plain(c, [b"GET", b"selprobe"]))]
        for kind, x in seq:
            if kind == "req":
                if not self.judge(s.request(c, x)):
                    return False
            elif kind == "dump":
                if not self.judge(s.dumpcheck()):
                    return False
            else:
                ok = True
                for st in s.pipeline(c, x):
                    ok = self.judge(st) and ok
                if not ok:
                    return False
        if not self.judge(s.selcheck()):
            return False
        # where did the data commands that followed the SELECT land? all 16 databases, right away
        if path == "exec" or r.chance(1, 3):
            return self.judge(s.dumpcheck())
        return True

    # ---- FLUSHDB / FLUSHALL on every path with keys present in several other databases; all 16 dumped afterwards
    def flush_scenario(self, r, c, gen):
        s = self.s
        others = [x for x in s.cl if x != c and x not in s.blocked and x not in s.dead and s.multi[x] is None]
        seeder = r.choice(others) if others else c
        if s.multi[seeder] is not None:
            return True
        for d in {self.bdb(r) for _ in range(r.range(2, 4))}:
            if not self.do(seeder, [b"SELECT", str(d).encode()]):
                return False
            for x in r.choice([[[b"SET", b"k1", b"f%d" % d]], [[b"RPUSH", b"l", b"f"], [b"SET", b"k2", b"x"]], [[b"SADD", b"s", b"m"]], [[b"HSET", b"h", b"f1", b"v"]]]):
                if not self.do(seeder, x):
                    return False
        if r.chance(1, 2):
            if not self.do(c, [b"SELECT", str(self.bdb(r)).encode()]):
                return False
        cmd = [r.choice([b"FLUSHALL", b"FLUSHALL", b"FLUSHDB", b"flushall"])]
        path = r.choice(["direct", "exec", "eval", "evalsha", "script-in-exec"])
        self.rep.count("flush.%s.%s%s" % (cmd[0].decode().upper(), path, ".sel-boundary" if s.sel[c] in (0, 1, 14, 15) else ""))
        if path == "direct":
            seq = [op_plain(c, cmd)]
        elif path == "exec":
            seq = [op_plain(c, [b"MULTI"]), op_plain(c, [b"SET", b"k1", b"pre"]), op_plain(c, cmd), op_plain(c, [b"EXEC"])]
        elif path in ("eval", "evalsha"):
            seq = [gen.script_op(c, path == "evalsha", r.choice([[cmd], [[b"SET", b"k1", b"pre"], cmd], [cmd, [b"DBSIZE"]]]))]
        else:
            seq = [op_plain(c, [b"MULTI"]), gen.script_op(c, None, [[x.upper() for x in cmd]]), op_plain(c, [b"EXEC"])]
        for x in seq:
            if x["k"] == "script":
                x["cmds"] = [[hx(a.upper()) if i == 0 else hx(a) for i, a in enumerate([unhx(h) for h in cmdl])] for cmdl in x["cmds"]]
                self.rep.count("flush.via-%s" % ("pcall" if any(f == "p" and upname(cmdl[0]).startswith("FLUSH") for f, cmdl in zip(x["forms"], x["cmds"])) else "call"))
            if not self.judge(s.request(c, x)):
                return False
        return self.judge(s.dumpcheck())

    # ---- blocking sessions
    BKEYS = [b"bq", b"bq2", b"l", b"bq", b"k1", b"miss"]       # a small pool, reused under every selection

    def bdb(self, r, avoid=None):
        """database indexes weighted to the boundaries"""
        for _ in range(20):
            d = r.choice([0, 1, 14, 15, 15, 14, 0, 1, r.below(16), r.below(16)])
            if d != avoid:
                return d
        return (avoid + 1) % 16

    def do(self, c, args):
        return self.judge(self.s.request(c, op_plain(c, args)))

    def pusher_to(self, r, b, db, push, path=None):
        """connection b pushes `push` with database `db` selected, directly, from a transaction, or from a script;
        returns False when the history has to stop"""
        s = self.s
        if s.multi[b] is not None:
            if not self.do(b, [r.choice([b"EXEC", b"DISCARD"])]):
                return False
        if s.sel[b] != db:
            if not self.do(b, [b"SELECT", str(db).encode()]):
                return False
        path = r.below(8) if path is None else path
        if path < 4:
            self.rep.count("push.direct")
            return self.do(b, push)
        if path < 6:
            self.rep.count("push.exec")
            extra = [[b"LLEN", push[1]]] if r.chance(1, 2) else []
            for x in [[b"MULTI"], push] + extra + [[b"EXEC"]]:
                if not self.do(b, x):
                    return False
            return True
        self.rep.count("push.script")
        return self.judge(s.request(b, op_script(b, r.chance(1, 2), [push], r.choice("ccp"))))

    def blocking_scenario(self, r, a, gen):
        """connection a goes through 1-3 blocking calls, changing its selection in between and reusing key names: single and
        multi-key BLPOP/BRPOP that really block, served through any of the keys (direct / EXEC / script pushes by the other
        connections), timed out, or abandoned by closing the socket; while it waits, pushes to the same key names in OTHER
        databases — preferably those where somebody waited before — must serve nobody; a second connection may wait on the same
        key name in another database at the same time; afterwards every (db, key) anybody ever waited on is pushed to."""
        s = self.s
        rounds = r.range(1, 3)
        for rnd in range(rounds):
            if a in s.blocked or a in s.dead:
                return True
            others = [c for c in s.cl if c != a and c not in s.blocked and c not in s.dead]
            if not others:
                return True
            resel = False
            if rnd > 0 or r.chance(1, 2):
                d = self.bdb(r, avoid=s.sel[a] if rnd > 0 else None)
                if not self.do(a, [b"SELECT", str(d).encode()]):
                    return False
                resel = rnd > 0
            nk = r.choice([1, 1, 2, 2, 2, 3])
            keys = [r.choice(self.BKEYS) for _ in range(nk)]
            # prefer key names this or another connection waited on before, under another selection
            old = [k for (d, k) in s.ever if d != s.sel[a]]
            if old and r.chance(2, 3):
                keys[r.below(nk)] = r.choice(old)
            mode = r.choice(["served"] * 9 + ["timeout", "close", "close"])
            left = r.chance(1, 2)
            name = b"BLPOP" if left else b"BRPOP"
            if r.chance(1, 20):
                if not self.do(a, r.choice([[name, keys[0]], [name] + keys + [b"-1"], [name] + keys + [b"abc"]])):
                    return False
                continue
            op = op_plain(a, [name] + keys + [r.choice([b"0.05", b"0.05", b"0.1"]) if mode == "timeout" else r.choice([b"0", b"300", b"600"])])
            if mode == "timeout":
                op["fires"] = True
            st = s.request(a, op)
            st["reselected"] = resel
            if not self.judge(st):
                return False
            if a not in s.blocked:
                continue                      # answered at once (an element was there, or an error)
            db = s.sel[a]
            if resel:
                self.rep.count("block.after-reselect")
            if mode == "timeout" and a in s.blocked:
                if not self.judge(s.fire_timeout(a)):
                    return False
                continue
            # a second waiter on the same key name under another selection
            second = None
            if len(others) >= 2 and r.chance(1, 3):
                c2 = r.choice(others)
                d2 = self.bdb(r, avoid=db)
                if s.multi[c2] is not None and not self.do(c2, [b"DISCARD"]):
                    return False
                if not self.do(c2, [b"SELECT", str(d2).encode()]):
                    return False
                if not self.do(c2, [r.choice([b"BLPOP", b"BRPOP"]), r.choice(keys), b"0"]):
                    return False
                if c2 in s.blocked:
                    second = c2
                    self.rep.count("block.second-waiter-same-key-other-db")
                others = [c for c in others if c not in s.blocked]
            if not others:
                return True
            # pushes that must serve nobody: the same key names in other databases
            for _ in range(r.range(0, 3)):
                if a not in s.blocked:
                    break
                k = r.choice(keys)
                cand = [d for (d, kk) in s.ever if kk == k and d != db and not (second and s.blocked.get(second, (None,))[0] == d)]
                if cand and r.chance(3, 4):
                    d = r.choice(cand)
                    self.rep.count("push.to-ever-waited-(db,key)-while-waiting-elsewhere")
                else:
                    d = self.bdb(r, avoid=db)
                    if second and s.blocked.get(second, (None,))[0] == d:
                        continue
                    self.rep.count("push.same-key-other-db")
                if not self.pusher_to(r, r.choice(others), d, [r.choice([b"RPUSH", b"LPUSH"]), k, r.choice(ksgen.ELEMS)]):
                    return False
                if a in s.blocked and not self.judge(s.check_not_woken(a, db, k)):
                    return False
            if a not in s.blocked:
                continue
            if mode == "close" and (s.bcfg.get("noticeHangup") or len(keys) == 1):
                st = s.hangup(a)
                if not self.judge(st):
                    return False
                a = st["new_conn"]
            # the serving push: to any of the keys, in the database where the call was issued
            k = r.choice(keys)
            push = [r.choice([b"RPUSH", b"LPUSH"]), k] + [r.choice(ksgen.ELEMS) for _ in range(r.range(1, 2))]
            if not self.pusher_to(r, r.choice(others), db, push):
                return False
            for c in [x for x in list(s.blocked) if s.blocked[x][0] == db and k in s.blocked[x][1]]:
                # the key holds another type there (the push was refused): make room and serve
                b = r.choice(others)
                for x in ([b"DEL", k], [b"RPUSH", k, b"v"]):
                    if c not in s.blocked:
                        break
                    if not self.pusher_to(r, b, db, x, path=0):
                        return False
            if second is not None and second in s.blocked:
                d2, k2 = s.blocked[second]
                b = r.choice([c for c in others if c != second] or others)
                for x in ([b"DEL", k2[0]], [b"RPUSH", k2[0], b"w"]):
                    if second not in s.blocked:
                        break
                    if not self.pusher_to(r, b, d2, x, path=0):
                        return False
        # nobody waits any more: every (db, key) a connection ever waited on is pushed to — nobody may be served, the
        # elements stay where they were pushed
        others = [c for c in s.cl if c not in s.blocked and c not in s.dead]
        if others and not s.blocked:
            todo = list(s.ever)
            r.shuffle(todo)
            for d, k in todo[:6]:
                self.rep.count("push.to-ever-waited-(db,key)-afterwards")
                if not self.pusher_to(r, r.choice(others), d, [b"RPUSH", k, b"after"], path=r.choice([0, 0, 4])):
                    return False
        return True

    def run_history(self, r, n_ops, profile, tag):
        s = self.s
        s.fresh()
        gen = HistGen(r, s, profile)
        # the same key names with different contents in several databases
        for d in r.choice([[0, 1, 15], [0, 3], [2, 7, 9, 15], [0], [5, 6]]):
            c = r.choice(list(s.cl))
            if not self.judge(s.request(c, op_plain(c, [b"SELECT", str(d).encode()]))):
                return False
            for a in gen.gd.setup():
                if not self.judge(s.request(c, op_plain(c, a))):
                    return False
        done = 0
        while done < n_ops:
            u = gen.unit()
            if u is None:
                break
            for kind, x in u:
                done += 1
                if kind == "req":
                    ok = self.judge(s.request(x["c"], x))
                elif kind == "pipe":
                    ok = True
                    for st in s.pipeline(x["c"], x):
                        ok = self.judge(st) and ok
                elif kind == "selprobe":
                    ok = self.select_probe(r, x, gen)
                    done += 3
                elif kind == "flush":
                    ok = self.flush_scenario(r, x, gen)
                    done += 6
                else:
                    ok = self.blocking_scenario(r, x, gen)
                    done += 4
                if not ok:
                    return False
        # close open transactions half of the time, then compare everything
        for c in list(s.cl):
            if c not in s.blocked and s.multi[c] is not None and r.chance(1, 2):
                if not self.judge(s.request(c, op_plain(c, [b"EXEC"]))):
                    return False
        return self.finish_history()

    def finish_history(self):
        s = self.s
        self.rep.evaluations += 17
        self.rep.traces_validated += 1
        probs = s.final_checks()
        stale = [p for p in probs if p["kind"] == "stale-registration"]
        if stale:
            # a registration without a waiting client is C13's subject (registry <-> blocked clients); here it is remembered (it is
            # the precursor of a delivery across databases) and the server is restarted so that it cannot leak into the next history
            self.stale_registrations.append({"family": FAMILY, "ops": list(s.ops), "problems": stale,
                                             "why": "registrations left behind by clients that are not waiting: %s" % stale[:3]})
            self.rep.count("stale-registration-after-history")
            s.ghosts["stale"] = stale
            probs = [p for p in probs if p["kind"] != "stale-registration"]
        if probs:
            used_dbs = set()
            for st in s.steps:
                if st.get("accesses", ".") != ".":
                    used_dbs |= {int(a.split(":")[1]) for a in st["accesses"].split(",")}
            replay = {"family": FAMILY, "ops": list(s.ops), "failing_step": "final-dump", "problems": probs, "switches": s.switches,
                      "why": "after the history %s differ from what the Spec prescribes although every reply agreed: %s"
                             % (", ".join(sorted({"database %d" % p["db"] if p["kind"] == "dump" else ("the selection of c%d" % p["conn"] if p["kind"] == "selection" else p["kind"]) for p in probs})),
                                json.dumps(probs)[:300])}
            # every reply agreed, so a differing database is a write (or a selection) that went somewhere it should not
            self.new_failures.append(replay)
            return False
        return True

    def run_ops(self, ops):
        """re-execute recorded operations (replay, corpus, shrinking); returns the steps"""
        s = self.s
        s.fresh()
        for op in ops:
            if op["k"] in ("plain", "script"):
                if op["c"] in s.blocked or op["c"] in s.dead or op["c"] not in s.cl:
                    continue
                if not self.judge(s.request(op["c"], op)):
                    return s.steps
            elif op["k"] == "pipe":
                ok = True
                for st in s.pipeline(op["c"], op):
                    ok = self.judge(st) and ok
                if not ok:
                    return s.steps
            elif op["k"] == "notwoken":
                if op["c"] in s.blocked and not self.judge(s.check_not_woken(op["c"], op["db"], unhx(op["key"]))):
                    return s.steps
            elif op["k"] == "selcheck":
                if not self.judge(s.selcheck()):
                    return s.steps
            elif op["k"] == "dumpcheck":
                if not self.judge(s.dumpcheck()):
                    return s.steps
            elif op["k"] == "timeout":
                if op["c"] in s.blocked and not self.judge(s.fire_timeout(op["c"])):
                    return s.steps
            elif op["k"] == "close":
                if op["c"] in s.cl and op["c"] not in s.dead and not self.judge(s.hangup(op["c"])):
                    return s.steps
        self.finish_history()
        return s.steps


# ------------------------------------------------------------------ corpus: witnesses of the listed findings and of the Lean witness lemmas
def T(*words):
    return [w if isinstance(w, bytes) else str(w).encode() for w in words]


def corpus():
    P, S = op_plain, op_script
    return {
        "evalsha-db0": [P(1, T("SELECT", 3)), S(1, 1, [T("SET", "k", "v")]), P(1, T("GET", "k")), P(2, T("GET", "k"))],
        "script-dbcmds-db0": [P(2, T("SET", "zero", "1")), P(1, T("SELECT", 3)), P(1, T("SET", "three", "1")), S(1, 0, [T("DBSIZE")]),
                              S(1, 0, [T("KEYS", "*")]), S(1, 0, [T("FLUSHDB")]), P(1, T("DBSIZE")), P(2, T("DBSIZE"))],
        "select-in-multi": [P(1, T("MULTI")), P(1, T("SELECT", 1)), P(1, T("SET", "k", "v")), P(1, T("EXEC")), P(1, T("GET", "k")),
                            P(2, T("SELECT", 1)), P(2, T("GET", "k"))],
        # no finding: must pass as they are
        "clean-eval": [P(1, T("SELECT", 3)), S(1, 0, [T("SET", "k", "v"), T("GET", "k")]), P(2, T("GET", "k")), P(2, T("SELECT", 3)), P(2, T("GET", "k"))],
        "clean-evalsha-db0": [S(1, 1, [T("SET", "k", "v"), T("RPUSH", "l", "a", "b"), T("LLEN", "l")]), P(2, T("GET", "k"))],
        "clean-select": [P(1, T("SELECT", 16)), P(1, T("SET", "k", "a")), P(1, T("SELECT", "+5")), P(1, T("SET", "k", "b")), P(1, T("SELECT", "abc")),
                         P(1, T("SELECT", "-1")), P(1, T("SELECT")), P(1, T("APPEND", "k", "c")), P(2, T("GET", "k")), P(3, T("SELECT", "005")), P(3, T("GET", "k"))],
        "clean-flush": [P(1, T("SET", "k", "0")), P(1, T("SELECT", 9)), P(1, T("SET", "k", "9")), P(2, T("SELECT", 15)), P(2, T("SET", "k", "15")),
                        P(1, T("FLUSHDB")), P(3, T("GET", "k")), P(2, T("GET", "k")), P(2, T("FLUSHALL")), P(3, T("GET", "k"))],
        "clean-select-boundaries": [P(1, T("SELECT", 15)), P(1, T("SET", "selprobe", "15")), P(1, T("SELECT", 16)), P(1, T("SET", "selprobe", "16")),
                                    {"k": "selcheck"}, P(1, T("SELECT", "016")), P(1, T("SELECT", 17)), P(1, T("SELECT", "-0")), P(1, T("SELECT", "+1")),
                                    P(1, T("GET", "selprobe")), {"k": "selcheck"},
                                    P(2, T("MULTI")), P(2, T("SELECT", 16)), P(2, T("SET", "selprobe", "q16")), P(2, T("SELECT", 15)), P(2, T("SELECT", "256")),
                                    P(2, T("APPEND", "selprobe", "+")), P(2, T("EXEC")), {"k": "selcheck"},
                                    S(3, 0, [T("SELECT", 16)]), S(3, 1, [T("SELECT", 3)]), P(3, T("SET", "selprobe", "3")), {"k": "selcheck"}, {"k": "dumpcheck"}],
        "clean-flush-every-path": [P(1, T("SELECT", 15)), P(1, T("SET", "k1", "a")), P(1, T("SELECT", 1)), P(1, T("RPUSH", "l", "x")), P(2, T("SELECT", 14)),
                                   P(2, T("SET", "k1", "b")), P(3, T("SELECT", 7)), P(3, T("SET", "k1", "c")), S(3, 0, [T("FLUSHDB")]), {"k": "dumpcheck"},
                                   P(3, T("SET", "k1", "c")), S(3, 0, [T("FLUSHALL")]), {"k": "dumpcheck"},
                                   P(1, T("SET", "k1", "a")), P(2, T("SET", "k1", "b")), P(3, T("SET", "k1", "c")), S(2, 1, [T("SET", "k2", "z"), T("FLUSHALL")]), {"k": "dumpcheck"},
                                   P(1, T("SET", "k1", "a")), P(2, T("SET", "k1", "b")), P(3, T("MULTI")), S(3, 0, [T("FLUSHALL")]), P(3, T("EXEC")), {"k": "dumpcheck"},
                                   P(1, T("SET", "k1", "a")), P(2, T("SET", "k1", "b")), P(3, T("MULTI")), P(3, T("FLUSHDB")), P(3, T("EXEC")), {"k": "dumpcheck"},
                                   P(3, T("MULTI")), P(3, T("FLUSHALL")), P(3, T("EXEC")), {"k": "dumpcheck"}],
        "clean-pcall": [P(2, T("SET", "zero", "1")), P(1, T("SELECT", 9)), P(1, T("SET", "nine", "1")),
                        S(1, 0, [T("SET", "k", "v"), T("DBSIZE")], "pp"), S(1, 1, [T("GET"), T("APPEND", "k", "w"), T("GET", "k")], "ppc"), {"k": "dumpcheck"},
                        S(1, 0, [T("LPUSH", "k", "x"), T("FLUSHDB")], "pp"), {"k": "dumpcheck"}, P(1, T("SET", "nine", "2")),
                        P(1, T("MULTI")), S(1, 1, [T("SELECT", 3), T("SET", "q", "1")], "pp"), S(1, 0, [T("FLUSHALL")], "p"), P(1, T("EXEC")), {"k": "dumpcheck"}],
        "clean-queued-refused-select": [P(1, T("SELECT", 5)), P(1, T("MULTI")), P(1, T("SELECT", 3, "junk")), P(1, T("SET", "k", "a")), P(1, T("SELECT", 3, 4)),
                                        P(1, T("APPEND", "k", "b")), P(1, T("SELECT", 99)), P(1, T("APPEND", "k", "c")), P(1, T("SELECT", "7x")),
                                        P(1, T("APPEND", "k", "d")), P(1, T("EXEC")), {"k": "dumpcheck"}, {"k": "selcheck"}, P(1, T("GET", "k"))],
        "clean-exec": [P(1, T("SELECT", 4)), P(1, T("MULTI")), P(1, T("RPUSH", "l", "a")), P(2, T("SELECT", 4)), P(2, T("RPUSH", "l", "z")),
                       P(1, T("LRANGE", "l", 0, -1)), P(1, T("EXEC")), P(3, T("LRANGE", "l", 0, -1))],
    }


# ------------------------------------------------------------------ shrinking
def shrink(sess, findings, ops, want_kind):
    """ddmin over the operations: keep failing in the same way (a new oracle failure / a disagreement)"""
    def fails(cand):
        run = Runner(Report(PID, "shrink", 0), sess, findings)
        try:
            run.run_ops(cand)
        except InternalError:
            return False
        return bool(run.new_failures) if want_kind == "oracle" else bool(run.disagreements)
    try:
        if not fails(ops):
            return ops
        return shrink_list(ops, fails, max_steps=80)
    except (InternalError, OSError):
        return ops


# ------------------------------------------------------------------ main
def main(tier, seed):
    rep = Report(PID, tier, seed)
    rep.rule = ("histories of 25-70 requests by 3 connections over 16 databases with the same 11 key names everywhere: SELECT with valid "
                "(0..15, +5, 007) and invalid (16, 2^32, 2^64, -1, '', ' 1', abc, 1.0, wrong arity) arguments; the C01/C03 vocabulary (61 commands, "
                "malformed share included) sent directly, queued in MULTI..EXEC/DISCARD (with SELECTs and scripts in the queue, other connections "
                "interleaved), through EVAL and EVALSHA of one wrapper script performing 1-3 redis.calls, pipelined SELECT+command segments, and "
                "BLPOP/BRPOP on an empty list served later by a push of another connection (direct and EXEC path) after pushes to the same key name in "
                "other databases that must not wake it (sequenced with VERIF BLOCKED / VERIF LOOP); blocking sessions (1-3 single/multi-key BLPOP/BRPOP per connection with "
                "re-selection between them, key names reused, database indexes weighted to 0/1/14/15, served through any key by direct/EXEC/script pushes, timed "
                "out, or abandoned by closing the socket, a second waiter on the same key name in another database, pushes to every (db, key) anybody ever "
                "waited on); SELECT boundary probes (15, 16, 17, 255, 256, 2^31, 2^63-1, 2^63, 2^64-1, 2^64, -1, -0, +1, +16, 016, ' 1', '', abc ...) sent directly, "
                "queued in EXEC, pipelined and from a script, each followed by a data command and a CLIENT LIST comparison; FLUSHDB/FLUSHALL sent directly, from "
                "EXEC, from EVAL/EVALSHA and from a script inside EXEC with keys present in several other databases, all 16 databases dumped right afterwards. Every reply is compared with the Lean connection machine "
                "(code variant: switches read off the regenerated dispatch table; Spec variant from the same pre-state); after each history all 16 databases "
                "are dumped through point reads and compared with the model's 16 dumps and CLIENT LIST db= with the model's selections. "
                "distinct = (path, command, reply class, selection != 0, used another database, served a blocked client) tuples reached")
    rep.assumptions = [
        "the Spec is the connection machine with every switch off: each path uses the connection's selection at that moment; a queued SELECT takes effect for the commands queued after it and stays (what Redis does)",
        "a script is the list of redis.calls it performs (one fixed wrapper script); the reply conversion of the script path is C12's model (Model/Lua.lean respToLua/luaToResp) with the switches C12's translator regenerates from lua_engine.rs (Gen.luaQuirksSeen), applied by the driver outside the connection machine",
        "through scripts only well-formed commands whose executor.rs implementation agrees with the client-facing handler are used (C12's subject otherwise)",
        "SELECT's argument syntax is Rust's str::parse::<usize> (accepts +5 and 007); error replies are compared as 'an error' only",
        "blocking: single-key waits with integer timeouts that never fire (30 s / 0); multi-key leftovers, timeouts and pushes from scripts are C13's subject and are not generated; a blocking pop queued in MULTI never blocks (fast path or null array)",
        "WATCH, pub/sub, AUTH are not part of this machine; TTLs are >= 100 s so that nothing expires during a history",
    ]
    force = os.environ.get("C18_FORCE_SWITCHES")          # e.g. "evalshaDb0=0": sanity-testing only
    try:
        ok, log, errs = proof_phase(rep, families=[FAMILY])
    except InternalError as e:
        # the translator no longer recognises the source, or the model/driver no longer builds against the regenerated tables:
        # the search still runs — with the last driver that did build and every switch off, i.e. with the Spec as the oracle —
        # before anything is reported without a failing input
        if not os.path.exists(os.path.join(LEAN_BIN, "drv_" + FAMILY)):
            raise
        ok, log, errs = False, str(e)[-6000:], [str(e)[-1500:]]
        rep.obligations = rep.obligations or theorem_names(PID)
        rep.extra["proof_phase_broke"] = str(e)[:600]
        force = force or "evalshaDb0=0 scriptDbCmdsDb0=0 execSelectNoop=0"
    build_server()
    findings = load_findings()
    if os.environ.get("C18_IGNORE_FINDING"):              # sanity-testing of the violation path only
        findings = [f for f in findings if f["id"] != os.environ["C18_IGNORE_FINDING"]]
    sess = Sess(rep, "c18", force_switches=force)
    rep.extra["tree_switches"] = sess.switches
    rep.extra["lua_conversion_switches"] = sess.luaq
    rep.extra["blocking_config"] = sess.bcfg
    run = Runner(rep, sess, findings)
    r = Rng(seed)
    t_start = time.time()
    try:
        # corpus first: witnesses of the listed findings (must still deviate) and clean histories (must pass)
        for name, ops in corpus().items():
            dev_before = run.dev_steps
            run.run_ops(ops)
            rep.count("corpus." + name)
            if name.startswith("clean") and run.dev_steps != dev_before:
                run.disagreements.append({"family": FAMILY, "ops": ops, "why": "clean corpus history %s deviates from the Spec" % name})
            # (the three witness histories of the repaired findings run the same way: a deviation on them is judged by the
            #  oracle like any other and, with no finding listed, is a violation — a regression is caught on the first history)
        corpus_known = set(run.known_seen)
        n_hist = 600 if tier == "quick" else 12000
        budget = 40 if tier == "quick" else 600
        for h in range(n_hist):
            if run.new_failures or len(run.disagreements) > 3 or time.time() - t_start > budget:
                break
            hr = r.fork("h%d" % h)
            profile = hr.choice(["mixed", "mixed", "mixed", "noblock"])
            run.run_history(hr, hr.range(25, 70), profile, "h%d" % h)
            if h < 2:
                rep.sample({"history": [st["text"] + " -> " + st.get("impl", "") for st in sess.steps[:30]]})
        rep.extra["histories"] = h + 1
        rep.extra["server_restarts"] = sess.restarts
        # ---- verdict (DESIGN 2.5)
        for sh, replay in run.known_seen.items():
            f = run.by_shape[sh]
            rep.known(f["id"], f["what"])
        for f in findings:
            if f["match"] not in run.known_seen:
                rep.violation("known finding %s no longer reproduces on its witness: the model switches / findings list are stale" % f["id"],
                              {"finding": f, "obligation": f.get("lean_witness"), "switches": sess.switches}, no_input=True)
        if run.new_failures:
            det = min(run.new_failures, key=lambda d: len(d["ops"]))
            small = shrink(sess, findings, det["ops"], "oracle")
            n0 = len(det["ops"])
            if len(small) < n0:
                rr = Runner(Report(PID, "shrink", 0), sess, findings)
                rr.run_ops(small)
                if rr.new_failures:
                    det = rr.new_failures[0]
            det = dict(det)
            det["ops_unshrunk"] = n0
            det["ops"] = small
            det["ops_text"] = [op_text(o) for o in small]
            rep.violation("C18 isolation oracle fails on the implementation: %s" % det.get("why", "")[:160],
                          {"replay": det, "family": FAMILY, "others": [d.get("why") for d in run.new_failures[1:6]], "lean_errors": errs[:5]})
        elif not ok:
            rep.violation("proof obligations of C18 no longer check against the regenerated tables",
                          {"theorem_errors": errs[:10], "log_tail": log[-3000:]}, no_input=True)
        elif run.disagreements:
            det = min(run.disagreements, key=lambda d: len(d["ops"]))
            small = shrink(sess, findings, det["ops"], "disagree")
            det = dict(det)
            det["ops"] = small
            det["ops_text"] = [op_text(o) for o in small]
            rep.violation("correspondence Ferrous.Dbs.exec (code variant) vs server broke (%d disagreements) although no database other than the selected one was touched"
                          % len(run.disagreements), {"replay": det, "correspondence": "Ferrous.Dbs.exec vs ferrous over TCP",
                                                     "more": [d.get("why") for d in run.disagreements[1:6]]}, no_input=True)
        if not rep.violations and run.stale_registrations:
            det = min(run.stale_registrations, key=lambda d: len(d["ops"]))
            det = dict(det)
            det["ops_text"] = [op_text(o) for o in det["ops"]]
            rep.violation("blocking registry out of step with the blocked clients (%d histories): %s" % (len(run.stale_registrations), det["why"][:200]),
                          {"replay": det, "correspondence": "registry of Ferrous.Dbs.exec vs VERIF BLOCKED"}, no_input=True)
        rep.extra["model_disagreements"] = len(run.disagreements)
        rep.extra["oracle_failures"] = len(run.new_failures)
        rep.extra["requests_deviating_from_spec"] = run.dev_steps
    finally:
        sess.close()
    return rep.finish()


def replay(path):
    """Re-execute a replay file against the server built from the current tree; prints impl / code / spec per step."""
    obj = json.load(open(path))
    rp = obj.get("replay") or obj
    ops = rp["ops"]
    rep = Report(PID, "replay", obj.get("seed", 0))
    run_translator()
    build_driver(FAMILY)
    build_server()
    findings = load_findings()
    sess = Sess(rep, "c18r")
    run = Runner(rep, sess, findings)
    try:
        steps = run.run_ops(ops)
        print("switches (from the current source): %s" % sess.switches)
        for i, st in enumerate(steps):
            print("%3d  %s" % (i, st["text"]))
            if st.get("skipped"):
                print("       (connection is blocked: not sent)")
                continue
            print("       impl: %s%s" % (st["impl"], "" if st.get("delivered", ".") == "." else "   delivered " + st["delivered"]))
            if not st["agree"]:
                print("       CODE: %s   served %s   <-- model disagrees" % (st["code"], st.get("served")))
            if st["dev"]:
                print("       SPEC: %s   served %s   post-state %s   (accesses of the code variant: %s)"
                      % (st["spec"], st.get("spec_served"), "same" if st["same"] else "DIFFERS", st.get("accesses")))
        for d in run.new_failures:
            print("ORACLE-FAILURE: %s %s" % (d.get("why"), json.dumps(d.get("problems") or d.get("attribution") or "")[:600]))
        for d in run.disagreements:
            print("MODEL-DISAGREEMENT: %s" % d.get("why"))
        for sh in run.known_seen:
            print("KNOWN-FINDING: property=%s %s %s" % (PID, run.by_shape[sh]["id"], run.by_shape[sh]["what"]))
        if run.new_failures:
            print("VIOLATION property=%s replay=%s" % (PID, path))
            return 1
        if run.disagreements:
            print("VIOLATION property=%s replay=%s no-failing-input-found" % (PID, path))
            return 1
        print("replay: no oracle failure outside the listed findings, no model disagreement")
        return 0
    finally:
        sess.close()
