"""C10 — the dump on disk is always complete, loadable and per-key consistent.

Deciding artefact: lean/FerrousSpec/Props/C10.lean (a save failing at ANY write call leaves the dump
untouched; the dump name only ever holds completely written files, for every schedule of saves;
per-key consistency of the save loop for every interleaving, with `_partial` + witnesses for the
tree as it is; the loader is total and — with a bounded read — allocation-bounded on every byte string).

This module ties the models to the real server (TCP, `VERIF` hooks) and the real loader (in-process):

  A  fail-the-n-th-write for EVERY n of sample datasets: the dump file must be byte-identical to the
     previous complete dump (or still absent), the tmp file is what the model says (the calls before
     the failing one), SAVE answers an error / BGSAVE clears its flag, a clean SAVE afterwards works;
     `VERIF RDBWRITES` must equal the number of calls of the model (`cSnapshot`);
  B  BGSAVE parked between its reads of a key (`rdb.after_value`, `rdb.zset.after_len`) while a client
     grows / shrinks / deletes / expires / persists / replaces the key: the produced file is loaded by
     the real loader; oracle: the key's (value, TTL) in it is a state the key had during the save;
     correspondence: the model (`krun`) predicts the very same file content;
  C  SAVE while a BGSAVE is parked: oracle: after SAVE answered OK the dump holds the current dataset;
     correspondence: the model (`fsrun`) predicts the final bytes of the dump;
  D  every prefix and single-byte corruption of small valid dumps through the REAL loader: a panic, a
     hang, or an allocation above 64 MiB for a file of < 1 KiB is a failure; correspondence: model
     loader (ok/err, result, allocation trace).
"""
import select
import struct
import time

from common import *
import c09 as R

FAMILY = "rdbsave"
PENDING = os.path.join(VERIF, "pending_repo_patches", "C10_findings.json")
TOL = R.TOL
ALLOC_LIMIT = 64 << 20
LONG = 100000


# ------------------------------------------------------------------ source facts -> model switches
def fn_body(text, name):
    m = re.search(r"\bfn\s+" + name + r"\b[^{;]*\{", text)
    if not m:
        return None
    i, depth = m.end(), 1
    while i < len(text) and depth:
        depth += {"{": 1, "}": -1}.get(text[i], 0)
        i += 1
    return text[m.end():i - 1]


def source_facts():
    facts = R.source_facts()
    rdb = re.sub(r"//[^\n]*", "", open(os.path.join(REPO, "src", "storage", "rdb.rs"), encoding="utf-8", errors="replace").read())
    srv = re.sub(r"//[^\n]*", "", open(os.path.join(REPO, "src", "network", "server.rs"), encoding="utf-8", errors="replace").read())
    ws, wkv, rs, hs = fn_body(rdb, "write_snapshot"), fn_body(rdb, "write_key_value"), fn_body(rdb, "read_string"), fn_body(srv, "handle_save")
    if None in (ws, wkv, rs, hs):
        raise InternalError("rdb.rs/server.rs: write_snapshot / write_key_value / read_string / handle_save not found")
    facts.update({
        # SAVE refuses while a background save is in progress
        "exclusive": bool(re.search(r"is_bgsave_in_progress\s*\(", hs)),
        # value and TTL come from one storage call: the save loop no longer calls storage.ttl on its own
        "atomic": not re.search(r"storage\s*\.\s*ttl\s*\(", ws),
        # sorted-set items are materialised before the length is written
        "itemsFirst": bool(re.search(r"write_length\s*\(\s*items\s*\.\s*len\s*\(\s*\)\s*\)", wkv)),
        # every saver holds one lock from opening the temporary file to renaming it (b09a77b): the guard is bound to a NAMED
        # variable (lives to the end of `save`) before write_snapshot is called
        "saveLock": bool((lambda b: b and re.search(r"let\s+_\w+\s*=\s*self\s*\.\s*save_lock\s*\.\s*lock\s*\(\)", b) and
                          re.search(r"save_lock\s*\.\s*lock\s*\(\)[\s\S]*write_snapshot\s*\([\s\S]*rename\s*\(", b))(fn_body(rdb, "save"))),
        # read_string reads in bounded chunks instead of vec![0u8; len]
        "bounded": bool(re.search(r"read_to_end|\.take\s*\(", rs)) and not re.search(r"vec!\s*\[\s*0u8\s*;\s*len\s*\]", rs),
    })
    return facts


# ------------------------------------------------------------------ helpers
def wait_until(pred, what, timeout=15.0):
    t0 = time.time()
    while time.time() - t0 < timeout:
        if pred():
            return
        time.sleep(0.003)
    raise Stuck(what)


class Stuck(Exception):
    """something the server must get done did not happen within the time allowed (a background save that never ends,
    a gate never reached): an outcome of the code under test, reported as an oracle failure of the part that waited"""


def score_text(bits):
    x = struct.unpack("<d", struct.pack("<Q", bits))[0]
    return "inf" if x == float("inf") else "-inf" if x == float("-inf") else repr(x)


def fbits(x):
    return struct.unpack("<Q", struct.pack("<d", float(x)))[0]


def send_entry(c, e):
    """create one key through commands"""
    k, t, v = e["key"], e["ty"], e["val"]

    def ok(r, what):
        if r[0] == "e":
            raise InternalError("%s refused: %r" % (what, r[1][:80]))
    if t == "S":
        ok(c.cmd("SET", k, v), "SET")
    elif t == "L":
        ok(c.cmd("RPUSH", k, *v), "RPUSH")
    elif t == "T":
        ok(c.cmd("SADD", k, *v), "SADD")
    elif t == "H":
        ok(c.cmd("HSET", k, *[x for p in v for x in p]), "HSET")
    elif t == "Z":
        for m, b in v:
            ok(c.cmd("ZADD", k, score_text(b), m), "ZADD")
    elif t == "X":
        for ms, sq, fs in v:
            ok(c.cmd("XADD", k, "%d-%d" % (ms, sq), *[x for p in fs for x in p]), "XADD")
    if e["dl"] is not None:
        ok(c.cmd("PEXPIRE", k, e["dl"]), "PEXPIRE")


def send_dataset(c, ds):
    for db, es in ds:
        c.cmd("SELECT", db)
        for e in es:
            send_entry(c, e)
    c.cmd("SELECT", 0)


def same_modulo_time(got, want, chunks):
    """byte equality, except that an expiry stamp (the 8-byte call after a 0xFC call) may differ by a few ms:
    every save computes `now_ms + ttl_ms` anew"""
    if got is None or len(got) != len(want):
        return False
    off, prev = 0, b""
    for ch in chunks:
        if off >= len(want):
            break
        if prev == b"\xfc" and len(ch) == 8 and off + 8 <= len(want):
            a, b = struct.unpack("<Q", got[off:off + 8])[0], struct.unpack("<Q", want[off:off + 8])[0]
            if abs(a - b) > 5:
                return False
        elif got[off:off + len(ch)] != want[off:off + len(ch)]:
            return False
        off, prev = off + len(ch), ch
    return True


def rank_order(zs):
    """skip-list order: score, then member bytes (finite scores only here)"""
    return sorted(zs, key=lambda p: (struct.unpack("<d", struct.pack("<Q", p[1]))[0], p[0]))


def val_tokens(t, v):
    e = {"key": b"", "dl": None, "ty": t, "val": v}
    return R.tokens([(0, [e])]).split(" ", 5)[5]          # "D 0 K - - <type> <value…>" -> "<type> <value…>"


class C10:
    def __init__(self, rep, facts):
        self.rep, self.facts = rep, facts
        bindir = os.environ.get("VERIF_IMPL_BIN", IMPL_BIN)
        self.impl_argv = [os.path.join(bindir, "impl_rdb")]
        self.impl = LineProc(self.impl_argv, "impl-rdb-c10")
        self.impl_loads = 0
        # the same loader built like a plain `cargo build` (overflow checks on): part D runs every file through it as well
        self.implc_argv = [os.path.join(CACHE, "target-harness-checked", "debug", "impl_rdb")]
        self.implc = LineProc(self.implc_argv, "impl-rdb-c10-checked") if os.path.exists(self.implc_argv[0]) else None
        self.implc_loads = 0
        self.model = LineProc(["sh", "-c", "ulimit -s 2000000 2>/dev/null || ulimit -s unlimited 2>/dev/null; exec " + os.path.join(LEAN_BIN, "drv_" + FAMILY)], "lean-" + FAMILY)
        if self.model.ask(R.cfg_line(facts)) != "ok":
            raise InternalError("Lean driver refused cfg")
        self.oracle_failures = []      # (what, replay dict)
        self.known_hits = {}
        self.disagreements = []
        self.notes = {}
        self.srv = None

    def close(self):
        self.impl.close()
        self.model.close()
        # an impl driver that was killed or aborted (allocation refused) cannot remove its scratch directory itself
        rd = os.path.join(CACHE, "run")
        for d in (os.listdir(rd) if os.path.isdir(rd) else []):
            m = re.match(r"rdb-(\d+)$", d)
            if m and not os.path.exists("/proc/" + m.group(1)):
                shutil.rmtree(os.path.join(rd, d), ignore_errors=True)
        if self.srv is not None:
            self.srv.stop()

    # -- processes ---------------------------------------------------------------
    def mask(self, line):
        a = self.model.ask(line)
        if a is None:
            raise InternalError("Lean driver died on: %s … (%s)" % (line[:100], self.model.stderr_tail[-200:]))
        if a == "bad-op":
            raise InternalError("Lean driver answered bad-op to: " + line[:200])
        return a

    def impl_ask(self, line, timeout=8.0):
        """answer | None (process died) | 'HANG'"""
        p = self.impl
        try:
            p.p.stdin.write(line + "\n")
            p.p.stdin.flush()
        except (BrokenPipeError, OSError):
            pass
        r, _, _ = select.select([p.p.stdout], [], [], timeout)
        if not r:
            p.p.kill()
            p.p.wait()
            p._close_err()
            p.start()
            return "HANG"
        ans = p.p.stdout.readline()
        if ans == "":
            p.p.wait()
            p.errf.seek(0)
            p.stderr_tail = p.errf.read()[-400:]
            p._close_err()
            p.start()
            return None
        return ans.rstrip("\n")

    def real_load(self, f):
        """real loader in-process: (status, max_alloc, canonical dataset or None, now)"""
        self.impl_loads += 1
        if self.impl_loads % 1500 == 0:           # every load leaves a sweeper thread behind: renew the process
            self.impl.close()
            self.impl = LineProc(self.impl_argv, "impl-rdb-c10")
        a = self.impl_ask("load " + hx(f))
        if a is None:
            return ("died", None, None, 0, self.impl.stderr_tail)
        if a == "HANG":
            return ("hang", None, None, 0, "")
        if a.startswith("panic"):
            return ("panic", None, None, 0, "")
        w = a.split(" ")
        now = (int(w[1]) + int(w[2])) // 2
        ds = None
        if w[0] in ("ok", "err"):                 # after a refused file: what the failed load left in the engine
            d = self.impl_ask("dump")
            dw = d.split(" ")
            ds = R.canon(R.parse(dw[2:] if len(dw) > 2 else ["."]))
        return (w[0], int(w[3]), ds, now, "")

    def checked_load(self, f):
        """the loader with the arithmetic of the default build: 'panic' | 'died' | 'hang' | other"""
        if self.implc is None:
            return "absent"
        self.implc_loads += 1
        if self.implc_loads % 1500 == 0:
            self.implc.close()
            self.implc = LineProc(self.implc_argv, "impl-rdb-c10-checked")
        try:
            a = self.implc.ask("load " + hx(f))
        except DriverHang:
            self.implc.close()
            self.implc = LineProc(self.implc_argv, "impl-rdb-c10-checked")
            return "hang"
        if a is None:
            return "alloc" if "ALLOC-REFUSED" in (self.implc.stderr_tail or "") else "died"
        return "panic" if a.startswith("panic") else a.split(" ")[0]

    def lean_dec(self, now, f):
        w = self.mask("decsnap %d %s" % (now, hx(f))).split(" ")
        if w[0] == "ok":
            return ("ok", int(w[2]), R.parse(w[3:]))
        return ("err", int(w[3]), w[1])

    def server(self):
        import server
        from server import Server
        if os.environ.get("VERIF_SERVER_BIN"):      # only for sanity tests against a deliberately different build
            server.SERVER_BIN = os.environ["VERIF_SERVER_BIN"]
        if self.srv is None or not self.srv.alive():
            self.srv = Server("c10")
            self.cli = self.srv.client(timeout=40.0)
        return self.srv, self.cli

    def fresh_server(self):
        if self.srv is not None:
            self.srv.stop()
            self.srv = None
        return self.server()

    def file(self, name):
        try:
            return open(os.path.join(self.srv.dir, name), "rb").read()
        except FileNotFoundError:
            return None

    def known(self, match, what, detail):
        self.known_hits.setdefault(match, (what, detail))
        self.rep.count("known." + match)

    def fail(self, what, replay):
        self.oracle_failures.append((what, replay))

    # ============================================================ A: fail the n-th write
    def part_a(self, name, ds, quick, start_absent=False):
        rep = self.rep
        srv, c = self.fresh_server()
        send_dataset(c, ds)
        replay = {"kind": "failnth", "dataset": R.tokens(ds)}
        if start_absent:
            prev = None
        else:
            if c.cmd("SAVE") != ("s", b"OK"):
                raise InternalError("clean SAVE failed")
            prev = self.file("dump.rdb")
        # number of write calls of a clean save
        c.cmd("VERIF", "RDBFAIL", "0")
        if c.cmd("SAVE") != ("s", b"OK"):
            raise InternalError("clean SAVE failed")
        W = c.cmd("VERIF", "RDBWRITES")[1]
        full = self.file("dump.rdb")
        if start_absent:
            os.unlink(os.path.join(srv.dir, "dump.rdb"))
        else:
            prev = full
        # the model's calls for the same dataset in the file's own key order
        dec = self.lean_dec(0, full)
        ct = R.ctime_of(full)
        if dec[0] != "ok" or ct is None:
            raise InternalError("model cannot decode a clean dump")
        mw = self.mask("chunks %d %s" % (ct * 1000, R.tokens(dec[2]))).split(" ")
        chunks = [unhx(x) for x in mw[1].split("|")]
        rep.evaluations += 1
        if int(mw[0]) != W or b"".join(chunks) != full:
            self.disagreements.append({"what": "write calls: VERIF RDBWRITES says %d, the model's cSnapshot has %d calls (or different bytes)" % (W, int(mw[0])), "case": name})
            return
        rep.count("A.datasets")
        rep.nontrivial(("A", name, W.bit_length()))
        ctoff = full.find(b"\xfa\x05ctime") + 8
        ns = list(range(1, W + 1))
        for n in ns:
            bg = (n % 4 == 0) if quick else (n % 2 == 0)
            c.cmd("VERIF", "RDBFAIL", str(n))
            if bg:
                r = c.cmd("BGSAVE")
                wait_until(lambda: c.cmd("VERIF", "BGSAVING") == ("i", 0), "BGSAVE to end")
                failed = c.cmd("VERIF", "RDBWRITES")[1] == n
            else:
                r = c.cmd("SAVE")
                failed = r[0] == "e"
            rep.evaluations += 1
            rep.count("A.failed-save" + (".bg" if bg else ""))
            now_dump, tmp = self.file("dump.rdb"), self.file("dump.tmp")
            rp = dict(replay, n=n, bgsave=bg)
            if not failed:
                self.fail("the %d-th write was made to fail but %s reported success" % (n, "BGSAVE" if bg else "SAVE"), rp)
            if now_dump != prev:
                self.fail("a save failing at write %d of %d changed the dump file (%s -> %s)" % (
                    n, W, "absent" if prev is None else "%d bytes" % len(prev), "absent" if now_dump is None else "%d bytes" % len(now_dump)), rp)
            if c.cmd("VERIF", "BGSAVING") != ("i", 0):
                self.fail("bgsave_in_progress still set after the background save ended (failure at write %d)" % n, rp)
            # model: same run on the file-system machine
            want_tmp = b"".join(chunks[:n - 1])
            if tmp is not None and len(tmp) >= ctoff + 10:
                want_tmp = want_tmp[:ctoff] + tmp[ctoff:ctoff + 10] + want_tmp[ctoff + 10:]     # this run's own ctime digits
            m = self.mask("fsrun %d %s %s %d %s %s" % (self.facts["exclusive"], "none" if prev is None else hx(prev), "B" if bg else "S", n,
                                                       "|".join(hx(x) for x in chunks), " ".join(["T 0"] * (W + 2))))
            mm = dict(x.split("=", 1) for x in m.split(" "))
            if mm["dump"] != ("none" if prev is None else hx(prev)) or unhx(mm["tmp"]) != b"".join(chunks[:n - 1]) or mm["flag"] != "0" or not mm["log"].startswith("failed"):
                self.disagreements.append({"what": "fs model disagrees with its own theorem shape?", "answer": m[:200]})
            if not same_modulo_time(tmp, want_tmp, chunks):
                self.disagreements.append({"what": "tmp file after a failure at write %d: real %s, model %s" % (n, "absent" if tmp is None else hx(tmp[-24:]), hx(want_tmp[-24:])), "case": name})
            if n % 40 == 0 or n == W:
                c.cmd("VERIF", "RDBFAIL", "0")
                if c.cmd("SAVE") != ("s", b"OK"):
                    self.fail("a clean SAVE after failed saves does not work", dict(rp, then="SAVE"))
                prev = self.file("dump.rdb")
                st = self.real_load(prev)
                want = R.canon(R.parse(R.tokens(ds).split(" ")))
                if st[0] != "ok" or R.diff({k: (None,) + v[1:] for k, v in st[2].items()}, {k: (None,) + v[1:] for k, v in want.items()}):
                    self.fail("the dump written by a clean SAVE after failed saves does not load back to the dataset", dict(rp, then="SAVE"))
                rep.count("A.clean-save-after-failures")
        c.cmd("VERIF", "RDBFAIL", "0")

    # ============================================================ B: BGSAVE parked between its reads
    def key_state(self, c, key):
        """(type, canonical value, deadline ms | None) | None, through point reads"""
        ty = c.cmd("TYPE", key)[1]
        if ty == b"none":
            return None
        p = c.cmd("PTTL", key)
        dl = int(time.time() * 1000) + p[1] if p[0] == "i" and p[1] >= 0 else None
        if ty == b"string":
            return ("S", c.cmd("GET", key)[1], dl)
        if ty == b"list":
            return ("L", tuple(x[1] for x in c.cmd("LRANGE", key, 0, -1)[1]), dl)
        if ty == b"zset":
            flat = [x[1] for x in c.cmd("ZRANGE", key, 0, -1, "WITHSCORES")[1]]
            return ("Z", tuple(sorted((flat[i], fbits(flat[i + 1].decode())) for i in range(0, len(flat), 2))), dl)
        if ty == b"stream":
            es = c.cmd("XRANGE", key, "-", "+")[1]
            return ("X", tuple((int(e[1][0][1].split(b"-")[0]), int(e[1][0][1].split(b"-")[1]), tuple(sorted(R.pairs([x[1] for x in e[1][1][1]])))) for e in es), dl)
        if ty == b"hash":
            flat = [x[1] for x in c.cmd("HGETALL", key)[1]]
            return ("H", tuple(sorted(R.pairs(flat))), dl)
        return (ty.decode(), None, dl)

    def part_b_case(self, case):
        """case = {name, init: entry, gate, cmds: [[args]], model: [model events between the reads]}"""
        rep = self.rep
        srv, c = self.server()
        key = case["init"]["key"]
        c.cmd("FLUSHALL")
        c.cmd("VERIF", "RDBFAIL", "0")
        send_entry(c, case["init"])
        states = [self.key_state(c, key)]
        gate = case["gate"]
        c.cmd("VERIF", "GATE", "ARM", gate)
        if c.cmd("BGSAVE")[0] == "e":
            raise InternalError("BGSAVE refused")
        try:
            wait_until(lambda: c.cmd("VERIF", "GATE", "REACHED", gate) == ("i", 1), "gate " + gate)
            for args in case["cmds"]:
                r = c.cmd(*args)
                if r[0] == "e":
                    raise InternalError("case %s: %r refused: %r" % (case["name"], args[0], r[1][:60]))
                states.append(self.key_state(c, key))
        finally:
            c.cmd("VERIF", "GATE", "RELEASE", gate)
        wait_until(lambda: c.cmd("VERIF", "BGSAVING") == ("i", 0), "BGSAVE to end")
        f = self.file("dump.rdb")
        rep.evaluations += 1
        rep.count("B.cases")
        st = self.real_load(f)
        replay = {"kind": "gate", "case": {"name": case["name"], "init": R.tokens([(0, [case["init"]])]), "gate": gate,
                                           "cmds": [[a.hex() if isinstance(a, bytes) else str(a) for a in args] for args in case["cmds"]]},
                  "states": [repr(s)[:200] for s in states], "file": hx(f)}
        # ---- oracle: the key in the file is one of the states it had during the save
        verdict = "consistent"
        if st[0] != "ok":
            verdict = "unloadable"
        else:
            got = st[2].get((0, key))
            ok = False
            for s in states:
                if s is None and got is None:
                    ok = True
                elif s is not None and got is not None and got[1] == s[0] and got[2] == s[1] and (
                        (got[0] is None) == (s[2] is None)) and (got[0] is None or abs(got[0] - s[2]) <= TOL + 30):
                    ok = True
            if not ok:
                verdict = "inconsistent"
            replay["loaded"] = R.describe(got)
        if verdict != "consistent" and not case.get("_second_run"):
            # the gate forces the SAME interleaving every time: a snapshot that really mixes two instants does so again.  A verdict
            # that comes from the client-side reconstruction of a deadline (PTTL reply + the client's clock, read one scheduling
            # delay later — seen once on a cold, loaded machine) does not.  Run the case once more and judge that run.
            rep.count("B.second-run-after-%s" % verdict)
            return self.part_b_case(dict(case, _second_run=True))
        rep.nontrivial(("B", case["init"]["ty"], case["cls"], gate, verdict))
        if verdict != "consistent":
            z = case["init"]["ty"] == "Z" and gate == "rdb.zset.after_len"
            m = "zset-length-items" if z else "value-ttl-two-instants"
            fixed = self.facts["atomic"] or (z and self.facts["itemsFirst"])
            if fixed:
                self.fail("BGSAVE with a concurrent %s on a %s produced a %s snapshot of the key although the save loop looks repaired" % (case["cls"], case["init"]["ty"], verdict), replay)
            else:
                self.known(m, "%s: %s" % (case["name"], verdict), replay)
        # ---- correspondence: the model's record for the same interleaving
        init = states[0]
        if init is None:
            return
        t0 = int(time.time() * 1000)
        ist = "%s %s" % ("-" if init[2] is None else init[2], val_tokens(init[0], self.uncanon(init)))
        pre, post = (["s"], ["s", "s", "s"]) if gate == "rdb.after_value" else (["s", "s", "s"], ["s"])
        evs = pre + case["model"](states) + post
        a = self.mask("krun %d %d %d %s %s ; %s" % (self.facts["atomic"], self.facts["itemsFirst"], t0 - 5000, hx(key), ist, " ; ".join(evs)))
        w = a.split(" ")
        if w[0] != "rec":
            self.disagreements.append({"what": "B: model wrote nothing for the key", "case": case["name"], "model": a[:100]})
            return
        mcons = w[1] == "1"
        mf = unhx(w[4])
        md = self.lean_dec(t0, mf)
        rd = self.lean_dec(t0, f)
        same = md[0] == rd[0] and (md[0] == "err" or not R.diff(R.canon(md[2]), R.canon(rd[2])))
        if not same:
            self.disagreements.append({"what": "B: the model's record differs from the real file", "case": case["name"], "real": hx(f[40:]), "model": hx(mf[40:])})
        if mcons != (verdict == "consistent"):
            self.disagreements.append({"what": "B: model says consistent=%s, oracle on the real file says %s" % (mcons, verdict), "case": case["name"]})
        if (rd[0] == "ok") != (st[0] == "ok"):
            self.disagreements.append({"what": "B: model loader and real loader disagree on the produced file", "case": case["name"], "file": hx(f)})

    def uncanon(self, s):
        t, v = s[0], s[1]
        if t == "S":
            return v
        if t in "LT":
            return list(v)
        if t == "Z":
            return rank_order(list(v))
        if t == "H":
            return list(v)
        return [(a, b, list(fs)) for a, b, fs in v]

    def part_b(self, r, quick):
        E = lambda key, ty, val, dl=None: {"key": key, "dl": dl, "ty": ty, "val": val}

        def m_set(states):      # the key got a new object: whatever it is now
            s = states[-1]
            return ["del"] if s is None else ["set %s %s" % ("-" if s[2] is None else s[2], val_tokens(s[0], self.uncanon(s)))]

        def m_mut(states):      # in-place change of a non-zset
            s = states[-1]
            return ["mut " + val_tokens(s[0], self.uncanon(s))]

        def m_zmut(states):     # in-place change of the sorted set
            s = states[-1]
            zs = [] if s is None else rank_order(list(s[1]))
            return ["zmut " + R.hexlist([x for m, b in zs for x in (m, struct.pack("<Q", b))])]

        def m_ttl(states):
            s = states[-1]
            return ["ttl %s" % ("-" if s[2] is None else s[2])]

        Z3 = [(b"a", fbits(1)), (b"b", fbits(2)), (b"c", fbits(3))]
        X2 = [(1, 0, [(b"f", b"v")]), (2, 0, [(b"g", b"w")])]
        inits = {
            "S": lambda dl: E(b"k", "S", b"value-1", dl), "L": lambda dl: E(b"k", "L", [b"a", b"b", b"c"], dl),
            "Z": lambda dl: E(b"k", "Z", Z3, dl), "X": lambda dl: E(b"k", "X", X2, dl), "H": lambda dl: E(b"k", "H", [(b"f", b"v"), (b"g", b"w")], dl),
        }
        grow = {"S": [["APPEND", b"k", b"-more"]], "L": [["RPUSH", b"k", b"d"]], "Z": [["ZADD", b"k", "0.5", b"0"]], "X": [["XADD", b"k", "3-0", b"h", b"x"]], "H": [["HSET", b"k", b"h", b"x"]]}
        shrink = {"L": [["LPOP", b"k"]], "Z": [["ZREM", b"k", b"c"]], "X": [["XDEL", b"k", "2-0"]], "H": [["HDEL", b"k", b"g"]]}
        cases = []
        types = ["S", "L", "Z", "X"] + ([] if quick else ["H"])
        for t in types:
            inplace = m_zmut if t == "Z" else m_mut
            for dl in (LONG, None):
                tag = "ttl" if dl else "nottl"
                g = "rdb.after_value"
                cases.append({"name": "%s-%s-grow" % (t, tag), "cls": "grow", "init": inits[t](dl), "gate": g, "cmds": grow[t], "model": inplace})
                if t in shrink:
                    cases.append({"name": "%s-%s-shrink" % (t, tag), "cls": "shrink", "init": inits[t](dl), "gate": g, "cmds": shrink[t], "model": inplace})
                cases.append({"name": "%s-%s-delete" % (t, tag), "cls": "delete", "init": inits[t](dl), "gate": g, "cmds": [["DEL", b"k"]], "model": m_set})
                cases.append({"name": "%s-%s-replace" % (t, tag), "cls": "replace", "init": inits[t](dl), "gate": g, "cmds": [["SET", b"k", b"other"]], "model": m_set})
                cases.append({"name": "%s-%s-replace-px" % (t, tag), "cls": "replace", "init": inits[t](dl), "gate": g, "cmds": [["SET", b"k", b"other", "PX", "50000"]], "model": m_set})
                cases.append({"name": "%s-%s-delete-recreate" % (t, tag), "cls": "replace", "init": inits[t](dl), "gate": g,
                              "cmds": [["DEL", b"k"], ["RPUSH", b"k", b"new"]], "model": lambda st: ["del"] + m_set(st)})
                if dl:
                    cases.append({"name": "%s-%s-persist" % (t, tag), "cls": "persist", "init": inits[t](dl), "gate": g, "cmds": [["PERSIST", b"k"]], "model": m_ttl})
                cases.append({"name": "%s-%s-expire" % (t, tag), "cls": "expire", "init": inits[t](dl), "gate": g, "cmds": [["PEXPIRE", b"k", "70000"]], "model": m_ttl})
        # TWO changes inside the window, one to the time to live and one in place to the value: a snapshot that took the TTL at one
        # instant and reads the (shared) value later produces a pair the key never had — a single change cannot show that
        g = "rdb.after_value"
        for t in types:
            inplace = m_zmut if t == "Z" else m_mut
            cases.append({"name": "%s-ttl-persist-then-grow" % t, "cls": "ttl+grow", "init": inits[t](LONG), "gate": g, "cmds": [["PERSIST", b"k"]] + grow[t],
                          "model": (lambda f: lambda st: m_ttl(st[:2]) + f(st))(inplace)})
            cases.append({"name": "%s-nottl-grow-then-expire" % t, "cls": "grow+ttl", "init": inits[t](None), "gate": g, "cmds": grow[t] + [["PEXPIRE", b"k", "70000"]],
                          "model": (lambda f: lambda st: f(st[:2]) + m_ttl(st))(inplace)})
            if t in shrink:
                cases.append({"name": "%s-ttl-shrink-then-persist" % t, "cls": "shrink+ttl", "init": inits[t](LONG), "gate": g, "cmds": shrink[t] + [["PERSIST", b"k"]],
                              "model": (lambda f: lambda st: f(st[:2]) + m_ttl(st))(inplace)})
        g = "rdb.zset.after_len"
        for dl in (None, LONG):
            tag = "ttl" if dl else "nottl"
            zc = [("grow-first", "grow", [["ZADD", b"k", "0.5", b"0"]], m_zmut), ("grow-last", "grow", [["ZADD", b"k", "9", b"z"]], m_zmut),
                  ("shrink", "shrink", [["ZREM", b"k", b"c"]], m_zmut), ("shrink-first", "shrink", [["ZREM", b"k", b"a"]], m_zmut),
                  ("shrink-all", "shrink", [["ZREM", b"k", b"a"], ["ZREM", b"k", b"b"], ["ZREM", b"k", b"c"]], lambda st: ["zmut ."]),
                  ("reorder", "reorder", [["ZINCRBY", b"k", "10", b"a"]], m_zmut), ("delete", "delete", [["DEL", b"k"]], m_set),
                  ("replace", "replace", [["DEL", b"k"], ["ZADD", b"k", "7", b"n"]], lambda st: ["del"] + m_set(st)),
                  ("grow-shrink", "grow", [["ZADD", b"k", "0.5", b"0"], ["ZREM", b"k", b"c"]], m_zmut)]
            for nm, cls, cmds, mod in zc:
                cases.append({"name": "Z-%s-afterlen-%s" % (tag, nm), "cls": cls, "init": inits["Z"](dl), "gate": g, "cmds": cmds, "model": mod})
        for case in cases:
            self.part_b_case(case)

    # ============================================================ C: SAVE while BGSAVE is parked
    def part_c(self):
        rep = self.rep
        srv, c = self.fresh_server()
        gate = "rdb.zset.after_len"
        c.cmd("ZADD", b"z", "1", b"a")
        c.cmd("ZADD", b"z", "2", b"b")
        before = [(0, [{"key": b"z", "dl": None, "ty": "Z", "val": [(b"a", fbits(1)), (b"b", fbits(2))]}])]
        c.cmd("VERIF", "GATE", "ARM", gate)
        c.cmd("BGSAVE")
        try:
            wait_until(lambda: c.cmd("VERIF", "GATE", "REACHED", gate) == ("i", 1), "gate " + gate)
            c.cmd("DEL", b"z")                    # SAVE (on the command thread) must not meet the armed gate
            val = b"x" * 150
            c.cmd("SET", b"s", val)
            after = [(0, [{"key": b"s", "dl": None, "ty": "S", "val": val}])]
            r = c.cmd("SAVE")
            after_save = self.file("dump.rdb")
        finally:
            c.cmd("VERIF", "GATE", "RELEASE", gate)
        wait_until(lambda: c.cmd("VERIF", "BGSAVING") == ("i", 0), "BGSAVE to end")
        final = self.file("dump.rdb")
        rep.evaluations += 1
        rep.count("C.save-during-bgsave")
        replay = {"kind": "concurrent", "save_reply": repr(r), "dump_after_save": hx(after_save) if after_save else None, "dump_final": hx(final) if final else None}
        rep.nontrivial(("C", r[0], final == after_save))
        if r[0] == "e":
            # repaired: the SAVE is refused; the background save must then complete with ITS snapshot
            st = self.real_load(final) if final else ("absent",)
            if st[0] != "ok" or R.diff(st[2], R.canon(before)):
                self.fail("SAVE was refused during a BGSAVE, but the dump is not the background save's snapshot afterwards", replay)
            if not self.facts["exclusive"]:
                self.disagreements.append({"what": "C: SAVE refused during BGSAVE although handle_save does not test the flag (source scan)"})
            mdl = "fsrun 1"
        else:
            st = self.real_load(final) if final else ("absent",)
            if st[0] != "ok" or R.diff(st[2], R.canon(after)):
                what = "SAVE answered OK while a BGSAVE was running; afterwards the dump does not hold the dataset SAVE saw (it holds %s)" % (
                    "nothing loadable" if st[0] != "ok" else ", ".join(sorted("%s" % k[1].decode() for k in st[2])) or "an empty dataset")
                if self.facts["exclusive"]:
                    self.fail(what, replay)
                else:
                    self.known("save-during-bgsave", what, replay)
            mdl = "fsrun 0"
        # model: B opens, S opens/writes/renames, then B's (buffered) writes reach the file, B's rename
        if after_save is None or final is None:
            return
        ctS, ctB = R.ctime_of(after_save), R.ctime_of(final)
        cB = self.mask("chunks %d %s" % (ctB * 1000, R.tokens(before))).split(" ")[1]
        cS = self.mask("chunks %d %s" % (ctS * 1000, R.tokens(after))).split(" ")[1]
        nB, nS = cB.count("|") + 1, cS.count("|") + 1
        evs = "B - %s T 0 S - %s %s %s" % (cB, cS, " ".join(["T 1"] * (nS + 2)), " ".join(["T 0"] * (nB + 1)))
        m = dict(x.split("=", 1) for x in self.mask("%s none %s" % (mdl, evs)).split(" "))
        if m["dump"] != hx(final):
            self.disagreements.append({"what": "C: final dump differs from the file-system model's prediction", "real": hx(final), "model": m["dump"], "log": m["log"]})

    # ============================================================ F: two savers at once (SHUTDOWN's save during a background save)
    def part_f(self, quick):
        """SHUTDOWN saves without looking at the background-save flag.  A background save is started on a dataset big enough
        to take a while, SHUTDOWN follows when it is well under way, and the server is KILLED at the instant the dump name
        changes its file for the first time: "at every instant the dump file is either absent or a complete snapshot" —
        the file found then must load and hold the whole dataset."""
        import signal
        rep = self.rep
        n = 120000
        for attempt in range(2 if quick else 5):
            srv, c = self.fresh_server()
            c.timeout = 60.0
            val = b"v" * 48
            for base in range(0, n, 4000):
                c.send_raw(b"".join(c.encode([b"SET", b"f:%07d" % i, val]) for i in range(base, base + 4000)))
                for _ in range(4000):
                    c.read_reply(timeout=60.0)
            t0 = time.time()
            if c.cmd("SAVE", timeout=120.0) != ("s", b"OK"):
                raise InternalError("part F: clean SAVE failed")
            t_save = time.time() - t0
            path = os.path.join(srv.dir, "dump.rdb")
            ino0 = os.stat(path).st_ino
            c.cmd("SET", b"marker", b"after-first-save")
            c.send(b"BGSAVE")
            c.read_reply(timeout=10.0)
            time.sleep(t_save * (0.55 + 0.1 * attempt))
            c.send(b"SHUTDOWN")
            t1 = time.time()
            changed = False
            while time.time() - t1 < 60.0:
                try:
                    if os.stat(path).st_ino != ino0:
                        changed = True
                        break
                except FileNotFoundError:
                    pass
                if srv.p.poll() is not None:
                    break
            try:
                os.kill(srv.p.pid, signal.SIGKILL)
            except ProcessLookupError:
                pass
            srv.p.wait()
            rep.evaluations += 1
            rep.count("F.shutdown-during-bgsave.%s" % ("killed-at-first-rename" if changed else "no-rename-seen"))
            f = open(path, "rb").read() if os.path.exists(path) else None
            replay = {"kind": "two-savers", "keys": n, "save_seconds": round(t_save, 3), "shutdown_sent_after": round(t_save * (0.55 + 0.1 * attempt), 3)}
            if f is None:
                self.fail("the dump is absent after BGSAVE + SHUTDOWN although a complete dump existed before", replay)
            else:
                st = self.real_load(f)
                keys = None if st[2] is None else len(st[2])
                rep.nontrivial(("F", changed, st[0], keys == n + 1))
                if st[0] != "ok" or keys != n + 1:
                    what = ("at the instant the dump name first pointed to a new file after BGSAVE + SHUTDOWN that file (%d bytes) %s — two savers wrote the one temporary file at once"
                            % (len(f), "does not load (%s)" % st[0] if st[0] != "ok" else "holds %s of %d keys" % (keys, n + 1)))
                    if self.facts["saveLock"]:
                        self.fail(what, replay)
                    else:
                        self.fail(what + " (RdbEngine::save holds no lock: source scan)", replay)
                    self.srv = None
                    srv.stop()
                    return
            self.srv = None
            srv.stop()
        if not self.facts["saveLock"]:
            self.disagreements.append({"what": "F: RdbEngine::save does not hold save_lock from open to rename (source scan), yet the two-saver scenario left a complete dump every time: "
                                               "the locked file-system model (runL) no longer describes the code"})

    # ============================================================ D: corrupted files through the real loader
    def part_d(self, r, files, quick):
        rep = self.rep
        bounded = self.facts["bounded"]

        def one(name, f, kind, whole=None):
            rep.evaluations += 1
            lm = self.mask("allocs %d 0 %s" % (bounded, hx(f)))
            mal = max([int(x) for x in lm.split(",")] if lm != "." else [0])
            if not bounded and mal > (900 << 20):
                # the real loader would ask for ~1 GiB or more: the harness allocator refuses such requests by aborting the process; do it once only
                if self.notes.get("huge_alloc_runs", 0) >= 1:
                    rep.count("D.skipped(model says >900 MiB would be requested)")
                    self.known("alloc-by-length-field", "a %d-byte file makes the loader request %d bytes" % (len(f), mal), {"kind": "file", "file": hx(f)})
                    return
                self.notes["huge_alloc_runs"] = self.notes.get("huge_alloc_runs", 0) + 1
            st = self.real_load(f)
            if not (not bounded and mal > (900 << 20)):
                cst = self.checked_load(f)
                rep.count("D.checked-arithmetic.%s" % cst)
                if cst in ("panic", "died", "hang") and st[0] not in ("panic", "died", "hang"):
                    self.fail("the loader %s on a %d-byte corrupted file when built like a plain `cargo build` (overflow checks on); with wrapping arithmetic it answers '%s'" % (
                        {"panic": "panics", "died": "dies", "hang": "hangs"}[cst], len(f), st[0]), {"kind": "file", "file": hx(f), "name": name, "build": "overflow-checks"})
                    return
            rep.count("D.%s.%s" % (kind, st[0]))
            rep.nontrivial(("D", kind, st[0], min(mal, 1 << 40).bit_length() // 4, len(f) // 32))
            replay = {"kind": "file", "file": hx(f), "name": name}
            if st[0] in ("panic", "hang"):
                self.fail("the loader %s on a %d-byte corrupted file" % ("panicked" if st[0] == "panic" else "hung (> 8 s)", len(f)), replay)
                return
            if st[0] == "died":
                if "ALLOC-REFUSED" in (st[4] or "") or mal > (900 << 20):
                    if bounded:
                        self.fail("allocation above 1 GiB for a %d-byte file although read_string looks bounded" % len(f), replay)
                    else:
                        self.known("alloc-by-length-field", "a %d-byte file makes the loader request %d bytes (process aborted by the harness allocator limit)" % (len(f), mal), replay)
                else:
                    self.fail("the loader process died on a %d-byte corrupted file: %s" % (len(f), (st[4] or "")[-120:]), replay)
                return
            if st[1] > ALLOC_LIMIT and len(f) < 1024:
                if bounded:
                    self.fail("allocation of %d bytes for a %d-byte file although read_string looks bounded" % (st[1], len(f)), replay)
                else:
                    self.known("alloc-by-length-field", "a %d-byte file makes the loader allocate %d bytes" % (len(f), st[1]), replay)
            # "… or a clean partial load": whatever a cut file leaves in the engine, each key it leaves is a key of the whole
            # file with the whole value and its deadline — never the first k elements of a list / sorted set / stream, and never
            # a key that lost its time to live because the record ended before the deadline was applied
            if whole is not None and st[2] is not None:
                rep.count("D.prefix.keys-left-by-%s-load=%s" % (st[0], min(len(st[2]), 3) if len(st[2]) < 3 else "3+"))
                for k, v in sorted(st[2].items()):
                    wv = whole.get(k)
                    if wv is None or wv[1:] != v[1:] or (wv[0] is None) != (v[0] is None) or (wv[0] is not None and abs(wv[0] - v[0]) > TOL):
                        self.fail("a dump cut after %d of its bytes leaves key %r of db %d as %s; in the whole file it is %s (a failed or partial load must not "
                                  "leave a key with a value or time to live it never had)" % (len(f), k[1], k[0], R.describe_canon(v) if hasattr(R, "describe_canon") else repr(v)[:160],
                                                                                              "absent" if wv is None else (R.describe_canon(wv) if hasattr(R, "describe_canon") else repr(wv)[:160])), replay)
                        break
            # correspondence with the model loader
            md = self.lean_dec(st[3], f)
            if md[0] != st[0]:
                self.disagreements.append({"what": "D: real loader %s, model %s" % (st[0], md[0]), "file": hx(f)})
            elif st[0] == "ok":
                cm = R.canon(md[2])
                near = set(k for k in set(cm) | set(st[2]) for x in (cm.get(k), st[2].get(k)) if x and x[0] is not None and abs(x[0] - st[3]) <= TOL)
                df = R.diff(st[2], cm, near)
                if df:
                    # a disagreement on a fixed file is deterministic; one that comes from a deadline passing between the load,
                    # the dump and the model's single `now` is not: load once more before recording it
                    st2 = self.real_load(f)
                    md2 = self.lean_dec(st2[3], f) if st2[0] == "ok" else None
                    if md2 is not None and md2[0] == "ok":
                        cm2 = R.canon(md2[2])
                        near2 = set(k for k in set(cm2) | set(st2[2]) for x in (cm2.get(k), st2[2].get(k)) if x and x[0] is not None and abs(x[0] - st2[3]) <= TOL)
                        df2 = R.diff(st2[2], cm2, near2)
                    else:
                        df2 = df
                    if df2:
                        self.disagreements.append({"what": "D: accepted by both, results differ", "file": hx(f), "load_ms": st[3], "diff": repr(df[:3])[:600], "diff_second_load": repr(df2[:3])[:600]})
                    else:
                        rep.count("D.differed-once-not-twice(deadline passing during the comparison)")
                        self.notes.setdefault("differed_once", []).append({"file": hx(f)[:400], "load_ms": st[3], "diff": repr(df[:3])[:400]})
            if mal >= (1 << 20) and st[1] < mal and not bounded:
                self.disagreements.append({"what": "D: model trace has an allocation of %d bytes, the real loader's largest request was %d" % (mal, st[1]), "file": hx(f)})

        # the witness of the Lean lemma and its relatives first
        hdr = b"REDIS0009"

        def bs(x):
            return bytes([len(x)]) + x
        for cnt in (b"9223372036854775807", b"9223372036854775808", b"18446744073709551615", b"18446744073709551614", b"6148914691236517205", b"4611686018427387904"):
            # a stream record whose field count (a decimal string of the file) makes `entry_idx + count * 2` overflow
            rec = b"\x01" + bs(b"st") + bytes([7]) + bs(R.MARKER) + bs(b"1-1") + bs(cnt) + bs(b"f") + bs(b"v") + bs(b"g") + bs(b"w")
            one("stream-field-count-" + cnt.decode(), hdr + b"\xfe\x00" + rec + b"\xff" + b"\0" * 8, "handmade")
        for declared, cnt in ((b"\x80\xff\xff\xff\xff", b"1000000000"), (b"\x80\x7f\xff\xff\xff", b"900000000"), (b"\x80\x10\x00\x00\x00", b"100000000")):
            # a stream record that declares billions of elements and an entry with a huge pair count that still passes the
            # "enough elements left" guard: nothing may be sized by either number
            rec = b"\x01" + bs(b"st") + declared + bs(R.MARKER) + bs(b"1-1") + bs(cnt) + bs(b"f") + bs(b"v")
            one("stream-pairs-sized-by-count-" + cnt.decode(), hdr + b"\xfe\x00" + rec + b"\xff" + b"\0" * 8, "handmade")
        for name, f in [("witness-4GiB", hdr + b"\xfa\x80\xff\xff\xff\xff"), ("alloc-256MiB", hdr + b"\xfa\x90\x00\x00\x00"), ("alloc-100MiB-key", hdr + b"\x00\x86\x40\x00\x00"),
                        ("alloc-65MiB-member", hdr + b"\x03\x01z\x01\x84\x10\x00\x00")]:
            one(name, f, "handmade")
        for fi, f in enumerate(files):
            whole = self.real_load(f)
            if whole[0] != "ok":
                raise InternalError("part D: the server's own dump does not load: %r" % (whole[0],))
            for i in range(len(f) + 1):
                one("prefix-%d-%d" % (fi, i), f[:i], "prefix", whole=whole[2])
            if quick:
                for _ in range(500):
                    i = r.below(len(f))
                    b = r.choice([0x00, 0x01, 0x3F, 0x40, 0x7F, 0x80, 0xBF, 0xC0, 0xFA, 0xFC, 0xFD, 0xFE, 0xFF]) if r.chance(1, 2) else r.below(256)
                    if b != f[i]:
                        one("subst-%d-%d-%02x" % (fi, i, b), f[:i] + bytes([b]) + f[i + 1:], "subst")
            else:
                for i in range(len(f)):
                    for b in range(256):
                        if b != f[i]:
                            one("subst-%d-%d-%02x" % (fi, i, b), f[:i] + bytes([b]) + f[i + 1:], "subst")
                self.rep.exhaustive = True

    # ============================================================ run
    # ============================================================ E: the operating system refuses the write
    def part_e(self, quick):
        """Real I/O failure instead of the hook in front of write_raw: the server runs with SIGXFSZ ignored and its
        RLIMIT_FSIZE is lowered from outside (prlimit) so that the file cannot grow beyond L bytes — whichever write
        reaches the limit (a spill of the buffered writer, or its LAST flush) fails with EFBIG.  For every L below the
        size of the new snapshot: SAVE must answer an error and dump.rdb must be byte for byte what it was."""
        import resource
        import signal
        from server import Server
        rep = self.rep
        if self.srv is not None:
            self.srv.stop()
            self.srv = None
        srv = Server("c10e", quiet=True, preexec_fn=lambda: signal.signal(signal.SIGXFSZ, signal.SIG_IGN))
        c = srv.client(timeout=40.0)
        INF = resource.RLIM_INFINITY
        try:
            c.cmd("SET", "small", "v")
            if c.cmd("SAVE") != ("s", b"OK"):
                raise InternalError("part E: clean SAVE failed")
            prev = open(os.path.join(srv.dir, "dump.rdb"), "rb").read()
            for size_tag, nkeys in (("below-one-buffer", 40), ("several-buffers", 400)):
                for i in range(nkeys):
                    c.cmd("SET", "e:%s:%d" % (size_tag, i), "x" * 100)
                # size of the snapshot that a successful save would write now
                r0 = c.cmd("SAVE")
                if r0 != ("s", b"OK"):
                    # a clean save that does not work after earlier (failed) saves is the property's own failure
                    self.fail("a clean SAVE (no limit in force) answered %r after earlier saves were cut by the OS" % (r0,),
                              {"kind": "fsize", "then": "SAVE", "leftover_files": sorted(os.listdir(srv.dir))})
                    return
                full = len(open(os.path.join(srv.dir, "dump.rdb"), "rb").read())
                # put the old dump back as 'the dump before'
                open(os.path.join(srv.dir, "dump.rdb"), "wb").write(prev)
                limits = sorted(set(x for x in (0, 1, len(prev) - 1, len(prev), len(prev) + 1, 3000, 4096, 8191, 8192, 8193, 16384, full // 2, full - 1)
                                    if 0 <= x < full))
                if quick:
                    limits = limits[::2] + [full - 1]
                for L in limits:
                    for bg in (False, True):
                        resource.prlimit(srv.p.pid, resource.RLIMIT_FSIZE, (L, INF))
                        try:
                            if bg:
                                r = c.cmd("BGSAVE")
                                wait_until(lambda: c.cmd("VERIF", "BGSAVING") == ("i", 0), "BGSAVE to end")
                            else:
                                r = c.cmd("SAVE")
                        finally:
                            resource.prlimit(srv.p.pid, resource.RLIMIT_FSIZE, (INF, INF))
                        rep.evaluations += 1
                        rep.count("E.limited-save" + (".bg" if bg else ""))
                        rep.nontrivial(("E", size_tag, "bg" if bg else "fg", min(L, 8193).bit_length()))
                        now_dump = open(os.path.join(srv.dir, "dump.rdb"), "rb").read() if os.path.exists(os.path.join(srv.dir, "dump.rdb")) else None
                        rp = {"kind": "fsize", "limit": L, "snapshot_bytes": full, "previous_dump_bytes": len(prev), "bgsave": bg,
                              "recipe": "server started with SIGXFSZ ignored; SET small v; SAVE; %d x SET e:* <100 bytes>; prlimit RLIMIT_FSIZE=%d; %s" % (nkeys, L, "BGSAVE" if bg else "SAVE")}
                        if not bg and r[0] != "e":
                            self.fail("SAVE answered %r although the file could not grow beyond %d of %d bytes (the write error was lost)" % (r, L, full), rp)
                        if now_dump != prev:
                            self.fail("a save that the OS cut at %d of %d bytes replaced the dump (%d bytes before, %s now)" % (
                                L, full, len(prev), "absent" if now_dump is None else "%d bytes" % len(now_dump)), rp)
                        if c.cmd("VERIF", "BGSAVING") != ("i", 0):
                            self.fail("bgsave_in_progress still set after a save cut by the OS at %d bytes" % L, rp)
                # and a save without the limit works again and is complete
                if c.cmd("SAVE") != ("s", b"OK"):
                    self.fail("a clean SAVE after saves cut by the OS does not work", {"kind": "fsize", "then": "SAVE"})
                prev = open(os.path.join(srv.dir, "dump.rdb"), "rb").read()
                if len(prev) != full:
                    self.fail("the dump written by a clean SAVE after saves cut by the OS has %d bytes, expected %d" % (len(prev), full), {"kind": "fsize", "then": "SAVE"})
                st = self.real_load(prev)
                if st[0] != "ok":
                    self.fail("the dump written by a clean SAVE after saves cut by the OS does not load", {"kind": "fsize", "then": "SAVE"})
        finally:
            c.close()
            srv.stop()

    def samples(self, r):
        E = lambda key, ty, val, dl=None: {"key": key, "dl": dl, "ty": ty, "val": val}
        d1 = [(0, [E(b"s", "S", b"v1", LONG), E(b"l", "L", [b"a", b"", b"c"]), E(b"t", "T", [b"m"]), E(b"h", "H", [(b"f", b"v")], LONG),
                   E(b"z", "Z", [(b"a", fbits(1.5)), (b"b", fbits(-2))]), E(b"x", "X", [(5, 1, [(b"f", b"v")]), (6, 0, [(b"g", b"w"), (b"h", b"y")])])])]
        d2 = [(i, [E(b"k%d" % i, "S", b"db%d" % i, LONG if i % 2 else None)]) for i in (0, 3, 15)] + []
        d2 = sorted(d2)
        d3 = [(2, [E(r.bytes(70), "S", r.bytes(300)), E(b"big", "L", [r.bytes(5) for _ in range(70)], LONG)])]
        return [("all-types", d1), ("three-dbs", d2), ("long-strings", d3)]

    def run(self, seed, tier):
        quick = tier == "quick"
        r = Rng(seed)
        samples = self.samples(r.fork("samples"))
        files = []
        def part(label, fn):
            try:
                return fn()
            except Stuck as e:
                self.fail("part %s: timed out waiting for %s (a save that fails or is disturbed must still end and clear bgsave_in_progress)" % (label, e),
                          {"kind": "stuck", "part": label, "waiting_for": str(e)})
                self.rep.count("stuck." + label.split(":")[0])
                if self.srv is not None:
                    self.srv.stop()
                    self.srv = None
        for i, (name, ds) in enumerate(samples):
            part("A:" + name, lambda: self.part_a(name, ds, quick))
            files.append(self.file("dump.rdb") if self.srv is not None else None)
        part("A:no-previous-dump", lambda: self.part_a("no-previous-dump", samples[1][1], quick, start_absent=True))
        part("B", lambda: self.part_b(r.fork("B"), quick))
        part("C", lambda: self.part_c())
        part("E", lambda: self.part_e(quick))
        part("F", lambda: self.part_f(quick))
        # three small valid dumps: three databases, all six types, and one string key with a TTL
        srv, c = self.fresh_server()
        c.cmd("SET", b"k", b"v", "PX", str(LONG))
        c.cmd("SAVE")
        small = [self.file("dump.rdb"), files[1], files[0]]
        self.part_d(r.fork("D"), [f for f in small if f and len(f) < 1024][:3], quick)


def all_findings():
    fs = [f for f in load_known_findings()["open"] if f.get("property") == "C10"]
    if os.path.exists(PENDING):
        have = set(f["id"] for f in fs)
        have_m = set(f.get("match") for f in fs)
        for f in json.load(open(PENDING)):
            if f.get("property") == "C10" and f["id"] not in have and f.get("match") not in have_m:
                fs.append(f)
    return fs


def main(tier, seed):
    rep = Report("C10", tier, seed)
    rep.rule = ("A: for 4 sample servers every write call of a save (all n = 1..RDBWRITES; SAVE and BGSAVE) is made to fail in turn over TCP and the dump/tmp files are "
                "compared byte for byte with the previous dump / the model's prefix; B: BGSAVE is parked at rdb.after_value / rdb.zset.after_len while grow, shrink, "
                "delete, replace, persist, expire commands run on string/list/zset/stream(/hash) keys with and without TTL, the produced file is loaded by the real "
                "loader and compared with the set of states of the key and with the model's record; C: SAVE during a parked BGSAVE, final dump bytes vs the file-system "
                "model; D: every prefix and sampled (thorough: all) single-byte substitutions of 3 small dumps through the real loader with allocation tracking; "
                "E: real I/O failure - the server's RLIMIT_FSIZE is lowered from outside (SIGXFSZ ignored) to every boundary below the snapshot size (0, 1, old dump size +-1, "
                "4096, 8191..8193, 16384, half, size-1) so that a buffer spill or the LAST flush fails with EFBIG: SAVE must answer an error, the dump must stay byte-identical, a later clean save must be complete. "
                "distinct = (part, type, class, gate, verdict / outcome, size bucket) tuples reached")
    rep.assumptions = [
        "BufWriter is not modelled: it delays writes inside one save run only; the schedules compared with the real server are those in which a parked run's writes all happen after it is released (its output is below the 8 KiB buffer)",
        "a panic inside the BGSAVE thread (which would leave the in-progress flag set) is outside the model",
        "fsync / power loss / atomicity of rename(2) are the operating system's",
        "the save loop is modelled for one key; keys are independent (each is read by its own storage calls)",
        "deadlines do not pass during a save in the model (an expiring key is a `del` step)",
        "the harness allocator aborts the loader process on a request above 1 GiB: such inputs are run once and otherwise judged on the model's allocation trace",
    ]
    facts = source_facts()
    rep.extra["source_facts"] = facts
    ok, log, errs = proof_phase(rep, families=[FAMILY])
    build_harness("rdb")
    build_harness("rdb", checked=True)
    if os.environ.get("VERIF_SERVER_BIN"):
        pass          # sanity test against a separately built server: never build into the shared cache from another source tree
    elif os.path.realpath(REPO) != "/repo" and not os.environ.get("VERIF_CACHE"):
        raise InternalError("FERROUS_REPO is overridden: set VERIF_CACHE too (isolated run) or VERIF_SERVER_BIN to a server built elsewhere (the shared cache is for /repo only)")
    else:
        build_server()
    c = C10(rep, facts)
    try:
        c.run(seed, tier)
        rep.traces_validated = rep.evaluations
        findings = all_findings()
        by_match = {f.get("match"): f for f in findings}
        for m, (what, det) in c.known_hits.items():
            if m in by_match:
                rep.known(by_match[m]["id"], by_match[m]["what"])
            else:
                c.oracle_failures.append(("%s (shape '%s' is not a listed finding)" % (what, m), det))
        fixed_by_source = {"value-ttl-two-instants": facts["atomic"], "zset-length-items": facts["atomic"] or facts["itemsFirst"],
                           "save-during-bgsave": facts["exclusive"], "alloc-by-length-field": facts["bounded"]}
        for f in findings:
            if f.get("match") not in c.known_hits and not fixed_by_source.get(f.get("match"), False):
                rep.violation("known finding %s no longer reproduces although the source still looks unfixed: model/known-findings file is stale" % f["id"],
                              {"finding": f, "obligation": f.get("lean_witness")}, no_input=True)
        if c.oracle_failures:
            what, det = min(c.oracle_failures, key=lambda x: len(json.dumps(x[1])))
            rep.violation("C10: " + what, {"replay": det, "family": FAMILY, "others": [w for w, _ in c.oracle_failures[:8]], "lean_errors": errs[:5]})
        elif not ok:
            rep.violation("proof obligations of C10 no longer check", {"theorem_errors": errs[:10], "log_tail": log[-3000:]}, no_input=True)
        elif c.disagreements:
            rep.violation("correspondence Ferrous.RdbSave (cSnapshot / run / krun / loaderAllocs) vs the real server and loader broke (%d disagreements) but the oracles hold on everything explored" % len(c.disagreements),
                          {"disagreements": c.disagreements[:10]}, no_input=True)
    finally:
        c.close()
    rep.extra["model_disagreements"] = len(c.disagreements)
    rep.extra["oracle_failures"] = len(c.oracle_failures)
    rep.extra["notes"] = c.notes
    return rep.finish()


def replay(path):
    obj = json.load(open(path))
    rp = obj.get("replay")
    if not rp:
        print("replay file names no input (broken proof obligation / correspondence): re-running ./check C10")
        return main(obj.get("tier", "quick"), obj.get("seed", 1))
    rep = Report("C10", "quick", obj.get("seed", 1))
    facts = source_facts()
    build_harness("rdb")
    if not os.environ.get("VERIF_SERVER_BIN") and (os.path.realpath(REPO) == "/repo" or os.environ.get("VERIF_CACHE")):
        build_server()
    build_driver(FAMILY)
    c = C10(rep, facts)
    try:
        if rp["kind"] == "file":
            c.part_d(Rng(1), [], True) if False else None
            st = c.real_load(unhx(rp["file"]))
            print("real loader on %d bytes: %s, largest allocation %s" % (len(unhx(rp["file"])), st[0], st[1]))
            bad = st[0] in ("panic", "hang", "died") or (st[1] or 0) > ALLOC_LIMIT
        elif rp["kind"] == "failnth":
            c.part_a("replay", R.parse(rp["dataset"].split(" ")), True)
            bad = bool(c.oracle_failures)
        elif rp["kind"] == "concurrent":
            c.part_c()
            bad = bool(c.oracle_failures) or "save-during-bgsave" in c.known_hits
        else:
            c.part_b(Rng(1), True)
            bad = bool(c.oracle_failures)
        for w, _ in c.oracle_failures[:5]:
            print("FAIL " + w)
        for m, (w, _) in c.known_hits.items():
            print("known-shape %s: %s" % (m, w))
    finally:
        c.close()
    if bad:
        print("VIOLATION property=C10 replay=%s" % path)
        return 1
    print("OK property=C10 replay no longer fails")
    return 0
