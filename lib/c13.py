"""C13 — blocking pops never lose, duplicate or strand.

Deciding artefact: lean/FerrousSpec/Props/C13.lean — the event machine `Ferrous.Blk` (registry, wake
queue, connection states, lists, loop phases), the accounting identity and FIFO service for ALL event
sequences, the `_partial` theorems (conservation, no stranded client, registry <-> blocked, no leftover
registration, never an early nil) for all `Allowed` histories by induction with the invariant `Inv`,
and one witness lemma per excluded class.

This module ties the machine to the real server over TCP.  A history is a list of actions of 2-3
clients over 2 keys (a batch sent in one write, a wait for the next deadline, a hang-up).  After every
action the harness waits for >= 3 event-loop iterations (`VERIF LOOP`, no sleeping), then compares with
the Lean driver `drv_blk` (the code variant, switches read from the source by translator/blocking_consts.py):
every client's reply stream, the registry dump (`VERIF BLOCKED`), the wake-queue length and both lists.
The registry / wake-queue part is also driven in-process (harness/src/bin/impl_blk.rs: the real
`BlockingManager`; bursts of more than 32 requests exercise the drain bound of `process_wakeups`).
Independently of the model it evaluates the FULL statements on what the implementation showed:
the multiset equation over all replies + LRANGE, stranded clients, registry = set of waiting clients,
FIFO order, nil never before the timeout (200/400 ms, harness monotonic clock; +300 ms lateness allowed).
An oracle failure is a known finding iff the history agrees with the code model throughout and the model
marks an event of the history as outside `Allowed` with a reason that matches an open finding; anything
else is reported as a VIOLATION with a minimised replay.

Developer switches (environment; none is needed for a normal run):
  C13_FINDINGS_OVERRIDE=none|id,id   ignore all / some listed findings (sanity test of the VIOLATION path)
  C13_MODEL_SWITCHES=a,b,c,d,e         force the model's quirk switches (sanity test of the correspondence-break path)
  C13_DEV_REPO=<tree> C13_SERVER_BIN=<binary>   correspondence only (no proof phase, no build) against a patched
                                     scratch tree: switches are read from <tree>, the server is <binary>
"""
import itertools
import socket
import time

from common import *
from server import Server, Client, Closed, ProtocolError

sys.path.insert(0, os.path.join(VERIF, "translator"))
import blocking_consts  # noqa: E402
import extract as _extract  # noqa: E402

PID = "C13"
PENDING = os.path.join(VERIF, "pending_repo_patches", "C13_findings.json")

# reason tag printed by the Lean driver -> `match` of the finding that explains it
TAG_TO_MATCH = {
    "multi-key": "multi-key-leftover",
    "multi-push": "one-wake-per-push",
    "pop-while-wake": "pipelined-push-pop",
    "exec-conn0": "exec-conn0",
    "second-bpop": "pipelined-second-bpop",
    "hangup-blocked": "disconnect-while-blocked",
    "big-push": "wake-batch-overflow",
    "batch-before-hangup-noticed": "disconnect-in-flight",
    "hangup-behind-bytes": "hangup-behind-unread-bytes",
    "kill-blocked": "stale-head-leftover-wake",
}
FIVE = ("notify_per_element", "wake_at_push", "unregister_all", "refuse_in_tx", "dedup_keys")
# which source switch closes which finding (None = no local repair proposed)
MATCH_TO_SWITCH = {
    "multi-key-leftover": "unregister_all",
    "pipelined-second-bpop": "defer_batch",
    "one-wake-per-push": "notify_per_element",
    "pipelined-push-pop": "wake_at_push",
    "exec-conn0": "refuse_in_tx",
    "disconnect-while-blocked": "notice_blocked_hangup",
    "wake-batch-overflow": "drain_all",
    "exec-not-atomic": "exec_atomic",
    "hangup-during-stall": "wake_checks_client",
    "hangup-behind-unread-bytes": "probe_reads_input",
    "stale-head-leftover-wake": "serve_drains",
    "push-by-script": "serve_after_script",
    "rename-onto-waited-key": "serve_after_script",
}
GUARD_MS = 100      # no action starts when a deadline is closer than this
MARGIN_MS = 60      # a deadline counts as passed this long after it
LATE_MS = 300       # a nil may be this late


SWITCHES = ("notify_per_element", "wake_at_push", "unregister_all", "refuse_in_tx", "dedup_keys", "drain_all", "notice_blocked_hangup", "defer_batch", "exec_atomic", "wake_checks_client",
            "serve_drains", "probe_reads_input")


def cfg_line(facts):
    return "cfg " + " ".join("1" if facts[k] else "0" for k in SWITCHES)


def repaired(facts):
    return all(facts[k] for k in FIVE)


def source_facts():
    dev = os.environ.get("C13_DEV_REPO")
    if dev:
        def src(rel):
            with open(os.path.join(dev, "src", rel), encoding="utf-8", errors="replace") as f:
                return f.read()
        return blocking_consts.facts(src, _extract.strip_comments, _extract.fn_body)
    return blocking_consts.facts(_extract.src, _extract.strip_comments, _extract.fn_body)


def load_findings():
    fs = [f for f in load_known_findings().get("open", []) if f.get("property") == PID]
    have = {f["id"] for f in fs}
    fixed = {f.get("id") for f in load_known_findings().get("fixed", []) if isinstance(f, dict)}
    if os.path.exists(PENDING):
        for f in json.load(open(PENDING)):
            if f["id"] not in have and f["id"] not in fixed:
                fs.append(f)
    ov = os.environ.get("C13_FINDINGS_OVERRIDE")          # sanity test of the violation path: "none" or a comma list of ids to drop
    if ov == "none":
        return []
    if ov:
        fs = [f for f in fs if f["id"] not in ov.split(",")]
    return fs


# --------------------------------------------------------------------------------------------
# flat RESP reader: one token per RESP value; an EXEC reply is `h<n>` followed by its elements
# (the real server cuts the array short when a queued BLPOP blocked, so nested reading would hang)
# --------------------------------------------------------------------------------------------
class Flat:
    def __init__(self, client):
        self.c = client
        self.s = client.s
        self.buf = b""
        self.closed = False

    def _fill(self, timeout):
        if self.closed:
            return False
        try:
            self.s.settimeout(max(timeout, 0.0005))
            d = self.s.recv(65536)
        except socket.timeout:
            return False
        except OSError:
            self.closed = True
            return False
        if not d:
            self.closed = True
            return False
        self.buf += d
        return True

    def _parse(self, header):
        """(token, consumed) or None when the buffer holds no complete token; `header`: read `*n` as `h<n>`"""
        b = self.buf
        i = b.find(b"\r\n")
        if i < 0:
            return None
        t, rest = b[:1], b[1:i]
        if t == b"+":
            return ({b"OK": "ok", b"QUEUED": "q"}.get(rest, "s:" + rest.hex()), i + 2)
        if t == b"-":
            return ("e", i + 2)
        if t == b":":
            return ("i%d" % int(rest), i + 2)
        if t == b"$":
            n = int(rest)
            if n < 0:
                return ("n", i + 2)
            if len(b) < i + 2 + n + 2:
                return None
            return ("b=" + hx(b[i + 2:i + 2 + n]), i + 2 + n + 2)
        if t == b"*":
            n = int(rest)
            if n < 0:
                return ("na", i + 2)
            if header or n != 2:
                return ("h%d" % n, i + 2)
            # a two-element array of bulk strings = a served blocking pop
            j, parts = i + 2, []
            for _ in range(2):
                k = b.find(b"\r\n", j)
                if k < 0:
                    return None
                if b[j:j + 1] != b"$":
                    return ("h2", i + 2)
                ln = int(b[j + 1:k])
                if ln < 0:
                    return ("h2", i + 2)
                if len(b) < k + 2 + ln + 2:
                    return None
                parts.append(b[k + 2:k + 2 + ln])
                j = k + 2 + ln + 2
            return ("p=%s=%s" % (hx(parts[0]), hx(parts[1])), j)
        return ("?" + b[:i].hex(), i + 2)

    def read(self, timeout, header=False):
        """next token or None (nothing complete within `timeout`)"""
        end = time.monotonic() + timeout
        while True:
            r = self._parse(header)
            if r:
                self.buf = self.buf[r[1]:]
                return r[0]
            left = end - time.monotonic()
            if left <= 0 or self.closed:
                return None
            self._fill(left)

    def drain(self):
        """every complete token already on the wire (no waiting beyond a millisecond)"""
        out = []
        while True:
            self._fill(0.001)
            r = self._parse(False)
            if not r:
                if not self.buf or not self._fill(0.003):
                    return out
                continue
            self.buf = self.buf[r[1]:]
            out.append(r[0])


def norm_model_token(t):
    """model prints `b=<key>=<value>` (the key is an annotation): the wire shows the value only"""
    if t.startswith("b="):
        return "b=" + t.split("=")[2]
    if t.startswith("p="):
        _, k, v = t.split("=")
        return "p=%s=%s" % (hx(unhx(k).split(b"/", 1)[1]), v)
    return t


# --------------------------------------------------------------------------------------------
# one server + one Lean driver; histories run on fresh keys and fresh client connections
# --------------------------------------------------------------------------------------------
class Session:
    def __init__(self, rep, facts):
        self.rep = rep
        self.facts = facts
        self.repaired = repaired(facts)
        self.model = lean_driver("blk")
        cfg = cfg_line(facts)
        if self.model.ask(cfg) != "ok":
            raise InternalError("drv_blk refused: " + cfg)
        self.srv = None
        self.hist_no = 0
        self.on_server = 0
        self.start_server()

    def start_server(self):
        if self.srv:
            self.srv.stop()
        self.srv = Server("c13")
        self.ctl = self.srv.client()
        self.ctl_db = 0
        self.on_server = 0

    def close(self):
        try:
            self.model.close()
        finally:
            if self.srv:
                self.srv.stop()          # kills the server: no stuck client can outlive the check

    # ---- server side helpers
    def loops(self):
        r = self.ctl.cmd("VERIF", "LOOP", timeout=5)
        return r[1]

    def wait_loops(self, n=3):
        a = self.loops()
        t0 = time.monotonic()
        while self.loops() < a + n:
            if time.monotonic() - t0 > 5:
                raise InternalError("event loop of the server does not advance")

    def select(self, db):
        if self.ctl_db != db:
            r = self.ctl.cmd("SELECT", str(db), timeout=5)
            if r[0] != "s":
                raise InternalError("SELECT %d refused: %r" % (db, r))
            self.ctl_db = db

    def impl_blocked(self, keys, db=0):
        """registry of database `db` restricted to `keys` (wire names), and the (global) wake-queue length"""
        self.select(db)
        r = self.ctl.cmd("VERIF", "BLOCKED", timeout=5)
        items = r[1]
        wq = items[-1][1]
        reg = {}
        for i in range(0, len(items) - 1, 2):
            k = items[i][1]
            if k in keys:
                reg[k] = [x[1] for x in items[i + 1][1]]
        return reg, wq

    def impl_list(self, k, db=0):
        self.select(db)
        r = self.ctl.cmd("LRANGE", k, "0", "-1", timeout=5)
        if r[0] != "a":
            return None
        return [x[1] for x in r[1]]

    def stall(self, ms):
        """keep the only command thread busy for `ms` milliseconds (the server's own slow test command): no loop
        iteration, hence no deadline scan, happens meanwhile"""
        r = self.ctl.cmd("SLEEP", str(ms), timeout=ms / 1000.0 + 5)
        if r[0] != "s":
            raise InternalError("SLEEP refused: %r" % (r,))

    def ask(self, line):
        a = self.model.ask(line)
        if a is None or a == "bad-op":
            raise InternalError("drv_blk failed on %r: %r %s" % (line, a, self.model.stderr_tail[-300:]))
        return a


class Wait:
    """an unanswered top-level blocking pop of a client, as the harness (not the model) sees it"""
    def __init__(self, keys, t_send, timeout, seq):
        self.keys, self.t_send, self.timeout, self.seq = keys, t_send, timeout, seq
        self.late = False       # its deadline passed LATE_MS ago without an answer (reported once)
        self.deferred = False   # written behind a blocking pop that blocked, on a server that keeps such frames back


class HistoryRun:
    """Runs one history against server and model; collects oracle failures, disagreements, reason tags."""

    def __init__(self, sess, nclients, label, dbs=(0,), oracle_only=False):
        self.S = sess
        self.rep = sess.rep
        sess.hist_no += 1
        sess.on_server += 1
        if sess.on_server > 60 or not sess.srv.alive():
            sess.start_server()
        sfx = b":%d" % sess.hist_no
        self.dbs = list(dbs)                         # the databases of this history; a client is on dbs[cur_db[client]]
        self.names = [b"a" + sfx, b"b" + sfx, b"c" + sfx]        # the same three key names in every database
        # the model's keys are database-qualified: `15/a:7` is the key a:7 of database 15
        self.keys = [self.mk(db, n) for db in self.dbs for n in self.names]
        self.oracle_only = oracle_only               # search mode: no model, the property's oracles on the server alone
        self.label = label
        self.clients = [sess.srv.client() for _ in range(nclients)]
        self.flat = [Flat(c) for c in self.clients]
        self.ids = []
        self.cur_db = [0] * nclients
        for c in self.clients:
            r = c.cmd("CLIENT", "ID", timeout=5)
            if r[0] != "i":
                raise InternalError("CLIENT ID not supported: %r" % (r,))
            self.ids.append(r[1])
            if self.dbs[0] != 0:
                c.cmd("SELECT", str(self.dbs[0]), timeout=5)
        sess.ask("reset")
        self.t0 = time.monotonic()
        self.vcount = 0
        self.pushed = {}            # value -> key (written to the socket)
        self.accepted = set()       # … and acknowledged by the integer reply of its push (a deferred batch may never run)
        self.push_fifo = [[] for _ in range(nclients)]
        self.delivered = {}         # value -> count
        self.waits = [[] for _ in range(nclients)]     # per client: outstanding blocking pops (harness view)
        self.in_multi = [False] * nclients
        self.closed = [False] * nclients
        self.seq = 0
        self.steps = []             # executed actions (replayable)
        self.trace = []             # human readable
        self.tags = []              # (step, tag): reasons why the history left Allowed (AllowedFixed on a repaired tree)
        self.old_tags = []
        self.self_serve = None
        self.enc_client = None
        self.last_wait_db = {}
        self.oracle = []            # (kind, detail)
        self.disagree = []
        self.flagged = set()
        self.overrun = False
        self.m = None               # last model dump (parsed)
        self.refresh_model()

    # ---- time
    def now(self):
        return int((time.monotonic() - self.t0) * 1000)

    # ---- keys
    @staticmethod
    def mk(db, name):
        return b"%d/" % db + name

    def key_of(self, ci, ki):
        """model key and wire name of key number `ki` for client `ci` (on its currently selected database)"""
        return self.mk(self.dbs[self.cur_db[ci]], self.names[ki]), self.names[ki]

    @staticmethod
    def name_of(mkey):
        return mkey.split(b"/", 1)[1]

    def observe(self):
        """registry, wake-queue length and lists of every database of the history, keyed by model key"""
        reg, lists, wq = {}, {}, 0
        for db in self.dbs:
            r, wq = self.S.impl_blocked(self.names, db)
            for n, ids in r.items():
                reg[self.mk(db, n)] = ids
            for n in self.names:
                lists[self.mk(db, n)] = self.S.impl_list(n, db)
        return reg, wq, lists

    # ---- model
    def refresh_model(self):
        if self.oracle_only:
            # harness view stands in for the model: who has an unanswered blocking pop is blocked
            self.m = {"raw": "", "reg": {}, "deadlines": self.wait_deadlines(), "wq": [], "lists": {}, "lost": 0,
                      "stranded": [], "leftover": [], "unreg": [],
                      "conns": {cid: {"blocked": any(not w.deferred for w in self.waits[ci]), "closed": self.closed[ci], "gone": self.closed[ci],
                                      "tx": self.in_multi[ci], "deferred": False, "unread": False, "state": "?"} for ci, cid in enumerate(self.ids)}}
            return self.m
        line = self.S.ask("dump %s %s" % ("|".join(str(i) for i in [0] + self.ids), "|".join(hx(k) for k in self.keys)))
        d = dict(p.split("=", 1) for p in line.split(" "))
        m = {"raw": line, "reg": {}, "deadlines": [], "wq": [] if d["wq"] == "." else d["wq"].split(","), "lists": {}, "conns": {},
             "lost": int(d["lost"])}
        if d["reg"] != ".":
            for part in d["reg"].split(";"):
                k, ws = part.split(":")
                ids = []
                for w in ws.split("+"):
                    c, dl = w.split("~")
                    ids.append(int(c))
                    if dl != "inf":
                        m["deadlines"].append(int(dl))
                m["reg"][unhx(k)] = ids
        for part in d["lists"].split(";"):
            k, vs = part.split(":")
            m["lists"][unhx(k)] = [] if vs == "." else [unhx(v) for v in vs.split("|")]
        for part in d["conns"].split(";"):
            c, st = part.split(":", 1)
            flags = ""
            while st and st[-1] in "xgtdu":
                flags = st[-1] + flags
                st = st[:-1]
            m["conns"][int(c)] = {"blocked": st != "-", "closed": "x" in flags, "gone": "g" in flags, "tx": "t" in flags, "deferred": "d" in flags, "unread": "u" in flags, "state": st}
        for f in ("stranded", "leftover", "unreg"):
            m[f] = [] if d[f] == "." else d[f].split(",")
        self.m = m
        return m

    def model_event(self, line, step):
        if self.oracle_only:
            return {}
        a = self.S.ask("ev " + line)
        ok, tags, okf, ftags, outs = a.split(" ")
        if (ok == "1") != (tags == ".") or (okf == "1") != (ftags == "."):
            raise InternalError("driver: eventOk / eventOkF and reason tags disagree on %r: %r" % (line, a))
        if tags != ".":
            for t in tags.split(","):
                self.old_tags.append((step, t))
        # once the five repairs are in the source, only what `AllowedFixed` excludes can explain a failure
        use = ftags if self.S.repaired else tags
        if use != ".":
            for t in use.split(","):
                self.tags.append((step, t))
        res = {}
        if outs != ".":
            for o in outs.split(","):
                c, r = o.split(":", 1)
                res.setdefault(int(c), []).append(norm_model_token(r))
        return res

    # ---- encoding of a command for both sides
    def encode(self, cmd):
        """-> (wire args, model word)"""
        k = cmd[0]
        ci = self.enc_client
        if k == "bpop":
            _, op, kis, t = cmd
            pairs = [self.key_of(ci, i) for i in kis]
            name = "BLPOP" if op == "L" else "BRPOP"
            tsec = "0" if t == 0 else ("%d.%03d" % (t // 1000, t % 1000))
            return [name] + [w for _, w in pairs] + [tsec], "bpop:%s:%s:%d" % (op, "|".join(hx(m) for m, _ in pairs), t)
        if k == "push":
            _, op, ki, n = cmd
            mkey, wname = self.key_of(ci, ki)
            vals = []
            for _ in range(n):
                self.vcount += 1
                v = b"v%d" % self.vcount
                vals.append(v)
                self.pushed[v] = mkey
            self.push_fifo[ci].append(vals)
            name = "LPUSH" if op == "L" else "RPUSH"
            return [name, wname] + vals, "push:%s:%s:%s" % (op, hx(mkey), "|".join(hx(v) for v in vals))
        if k == "pop":
            _, op, ki = cmd
            mkey, wname = self.key_of(ci, ki)
            return ["LPOP" if op == "L" else "RPOP", wname], "pop:%s:%s" % (op, hx(mkey))
        if k == "multi":
            return ["MULTI"], "multi"
        if k == "exec":
            return ["EXEC"], "exec"
        raise ValueError(cmd)

    # ---- bookkeeping of what the implementation answered (harness view, model-free)
    def note_tokens(self, ci, toks, t_recv, step):
        for t in toks:
            if t.startswith("i") and self.push_fifo[ci]:
                self.accepted.update(self.push_fifo[ci].pop(0))
            if t.startswith("b="):
                v = unhx(t[2:])
                self.delivered[v] = self.delivered.get(v, 0) + 1
            elif t.startswith("p="):
                _, k, v = t.split("=")
                k, v = unhx(k), unhx(v)
                self.delivered[v] = self.delivered.get(v, 0) + 1
                if self.waits[ci]:
                    w = self.waits[ci].pop(0)
                    self.activate(ci, t_recv)
                    mk_ = next((x for x in w.keys if self.name_of(x) == k), None)
                    src = self.pushed.get(v)
                    if mk_ is None:
                        self.fail("wrong-key", "client %d waiting on %r was served from %r" % (ci, w.keys, k), step)
                    elif src is not None and src not in w.keys:
                        self.fail("wrong-key", "client %d waiting on %r was served %r, an element of %r (another database or key)" % (ci, w.keys, v, src), step)
                    self.served_now.append((ci, mk_ if mk_ is not None else k, w.seq))
            elif t == "na":
                if self.waits[ci]:
                    w = self.waits[ci].pop(0)
                    self.activate(ci, t_recv)
                    if w.timeout == 0:
                        self.fail("early-nil", "client %d asked to wait for ever (sent at %d ms) and was answered nil at %d ms" % (ci, w.t_send, t_recv), step)
                    elif t_recv < w.t_send + w.timeout:
                        self.fail("early-nil", "client %d: nil at %d ms, before %d + %d ms" % (ci, t_recv, w.t_send, w.timeout), step)
                    else:
                        self.rep.count("nil.lateness_ms<=%d" % (50 * ((t_recv - w.t_send - w.timeout) // 50 + 1)))

    def activate(self, ci, t):
        """the call kept back behind the one just answered is executed now"""
        if self.waits[ci] and self.waits[ci][0].deferred:
            self.waits[ci][0].deferred = False
            self.waits[ci][0].t_send = t
            self.seq += 1
            self.waits[ci][0].seq = self.seq         # it joins the queues now, behind whoever blocked meanwhile

    def fail(self, kind, why, step, key=None):
        if (kind, key) in self.flagged:
            return
        self.flagged.add((kind, key))
        self.oracle.append((kind, {"why": why, "step": step}))

    # ---- the full statements on the implementation's observables
    def oracles(self, step, reg, wq, lists):
        # conservation
        for v, k in self.pushed.items():
            if v not in self.accepted:
                continue
            n = self.delivered.get(v, 0) + sum(l.count(v) for l in lists.values() if l is not None)
            if n == 0:
                self.fail("lost", "element %r pushed to %r is in no list and was returned to no client" % (v, k), step, v)
            elif n > 1:
                self.fail("duplicated", "element %r exists %d times (replies + lists)" % (v, n), step, v)
        if wq == 0:
            waiting = set()
            for ci, ws in enumerate(self.waits):
                for w in ws:
                    if w.deferred:
                        continue
                    for k in w.keys:
                        waiting.add((k, self.ids[ci]))
                        if lists.get(k):
                            self.fail("stranded", "client %d (conn %d) is still blocked on %r which holds %r, wake queue empty" % (ci, self.ids[ci], k, lists[k]), step, (ci, k))
            registered = set((k, c) for k, cs in reg.items() for c in cs)
            for k, c in sorted(registered - waiting):
                self.fail("leftover-registration", "conn %d is registered on %r without waiting on it" % (c, k), step, (k, c))
            for k, c in sorted(waiting - registered):
                self.fail("blocked-unregistered", "conn %d waits on %r but is not in its registry queue" % (c, k), step, (k, c))
        # FIFO: someone was served from k by a wake-up while an earlier waiter on k is still waiting
        for ci, k, seq in self.served_now:
            for cj, ws in enumerate(self.waits):
                for w in ws:
                    if k in w.keys and w.seq < seq and not w.deferred:
                        self.fail("fifo", "client %d (blocked later) was served from %r before client %d" % (ci, k, cj), step, (k, ci, cj))

    # ---- comparison with the code model + oracles, after an action has settled
    def settle_and_compare(self, step, expect, t_start, finite_pending):
        S = self.S
        S.wait_loops(3)
        if self.oracle_only:
            return self.settle_oracle_only(step)
        # the next iteration's process_wakeups
        n = 0
        while self.refresh_model()["wq"] and n < 4:
            for c, toks in self.model_event("wakeups", step).items():
                expect.setdefault(c, []).extend(toks)
            n += 1
        # a closed, unblocked connection is read (EOF) and cleaned up within one iteration
        for c, st in self.refresh_model()["conns"].items():
            if st["closed"] and not st["gone"] and (not st["blocked"] or self.S.facts["notice_blocked_hangup"]):
                self.model_event("reap %d" % c, step)
        # frames kept behind a blocking pop are executed as soon as the client is unblocked (next iteration) — also for a
        # client that closed behind bytes the server has not read: that read finds the bytes, not yet the end-of-file
        for _ in range(4):
            again = False
            for c, st in self.refresh_model()["conns"].items():
                if not st["blocked"] and not st["gone"] and ((st["deferred"] and not st["closed"]) or (st["closed"] and st["unread"])):
                    for c2, toks in self.model_event("conn %d %d" % (c, self.now()), step).items():
                        expect.setdefault(c2, []).extend(toks)
                    again = True
            if not again:
                break
            while self.refresh_model()["wq"]:
                for c2, toks in self.model_event("wakeups", step).items():
                    expect.setdefault(c2, []).extend(toks)
        for c, st in self.refresh_model()["conns"].items():
            if st["closed"] and not st["gone"] and (not st["blocked"] or self.S.facts["notice_blocked_hangup"]):
                self.model_event("reap %d" % c, step)         # … and the read (or, blocked again, the probe) after it finds the end-of-file
        m = self.refresh_model()
        got = {}
        for ci, f in enumerate(self.flat):
            cid = self.ids[ci]
            want = expect.get(cid, [])
            toks = []
            if self.closed[ci]:
                got[cid] = toks
                continue
            for w in want[len(self.pre.get(cid, [])):]:
                t = f.read(1.0, header=w.startswith("h"))
                if t is None:
                    break
                toks.append(t)
            toks += f.drain()
            got[cid] = self.pre.get(cid, []) + toks
            self.note_tokens(ci, toks, self.now(), step)
        # registry, wake queue, lists — retried for a moment before a difference is believed
        for attempt in range(6):
            reg, wq, lists = self.observe()
            same = (wq == len(m["wq"]) and reg == m["reg"] and all(lists[k] == m["lists"][k] for k in self.keys))
            if same:
                break
            S.wait_loops(5)
            time.sleep(0.01 * attempt)
            for ci, f in enumerate(self.flat):
                if not self.closed[ci]:
                    more = f.drain()
                    if more:
                        got[self.ids[ci]] += more
                        self.note_tokens(ci, more, self.now(), step)
        elapsed = self.now() - t_start
        if finite_pending and elapsed > GUARD_MS - 20:
            self.overrun = True
        self.oracles(step, reg, wq, lists)
        dis = []
        for cid in self.ids:
            if got.get(cid, []) != expect.get(cid, []) and not self.closed[self.ids.index(cid)]:
                if cid == self.self_serve and sorted(got.get(cid, [])) == sorted(expect.get(cid, [])):
                    # a client served by a command of its own batch, pipelined behind its blocking pop: the server writes the
                    # wake-up reply into the socket buffer at once and the replies of the batch after the batch, the model in
                    # execution order.  Same replies, other order: reply ordering is C05's subject, not compared here.
                    self.rep.count("reply-order.self-serve-not-compared")
                    continue
                dis.append("replies of conn %d: impl %s, code %s" % (cid, got.get(cid, []), expect.get(cid, [])))
        if reg != m["reg"]:
            dis.append("registry: impl %s, code %s" % (show_reg(reg), show_reg(m["reg"])))
        if wq != len(m["wq"]):
            dis.append("wake queue length: impl %d, code %d" % (wq, len(m["wq"])))
        for k in self.keys:
            if lists[k] != m["lists"][k]:
                dis.append("list %r: impl %r, code %r" % (k, lists[k], m["lists"][k]))
        self.trace.append("   -> replies %s | registry %s wq=%d | lists %s" % (
            {c: t for c, t in got.items() if t}, show_reg(reg), wq, {k.decode(): [v.decode() for v in (l or [])] for k, l in lists.items()}))
        if dis:
            self.disagree.append({"step": step, "what": dis})
        self.rep.evaluations += 1
        return not dis

    def settle_oracle_only(self, step):
        """search mode: no expectations — take what the server has written, look at its registry and lists, judge"""
        got = {}
        for _ in range(2):
            for ci, f in enumerate(self.flat):
                if not self.closed[ci]:
                    toks = f.drain()
                    if toks:
                        got.setdefault(self.ids[ci], []).extend(toks)
                        self.note_tokens(ci, toks, self.now(), step)
            self.S.wait_loops(2)
        reg, wq, lists = self.observe()
        self.oracles(step, reg, wq, lists)
        self.trace.append("   -> replies %s | registry %s wq=%d | lists %s" % (
            got, show_reg(reg), wq, {k.decode(): [v.decode() for v in (l or [])] for k, l in lists.items() if l}))
        self.rep.evaluations += 1
        return True

    # ---- actions
    def due(self, horizon):
        """model deadlines that pass before now + horizon"""
        t = self.now()
        return [d for d in self.m["deadlines"] if d <= t + horizon]

    def wait_deadlines(self):
        """harness view: deadlines of the unanswered blocking pops of live clients"""
        return [w.t_send + w.timeout for ci, ws in enumerate(self.waits) for w in ws if w.timeout and not w.late and not w.deferred and not self.closed[ci]]

    def overdue(self):
        """harness view: (client, wait) whose deadline passed MARGIN_MS ago, unanswered and not yet reported"""
        t = self.now()
        return [(ci, ws[0]) for ci, ws in enumerate(self.waits)
                if ws and not self.closed[ci] and ws[0].timeout and not ws[0].late and not ws[0].deferred and ws[0].t_send + ws[0].timeout + MARGIN_MS <= t]

    def tick(self, step, forced=False, at_now=False):
        """wait until the deadlines that are due have passed by MARGIN_MS, then run the deadline scan in the model;
        a forced tick goes to the next deadline, or — when only overdue unanswered waits are left — to the moment
        their lateness bound runs out"""
        self.refresh_model()
        ds = sorted(set(self.m["deadlines"]) | set(self.wait_deadlines()))
        if not ds:
            return True
        now = self.now()
        if at_now:
            target = now                 # right after a stall: everything that expired meanwhile is found by ONE scan
        elif forced:
            future = [d for d in ds if d + MARGIN_MS > now]
            if future:
                target = future[0] + MARGIN_MS
            else:
                target = min([w.t_send + w.timeout + LATE_MS for _, w in self.overdue()] + [now + LATE_MS])
        else:
            target = max(self.due(GUARD_MS)) + MARGIN_MS
        merged = False
        while True:
            near = [d for d in ds if target - MARGIN_MS < d <= target + MARGIN_MS]
            if not near:
                break
            target = max(near) + MARGIN_MS
            merged = True
        if merged and not at_now and not self.oracle_only and any(st["deferred"] for st in self.m["conns"].values()):
            # two deadlines too close to be scanned apart, and a client that has frames kept back: on the server the first
            # time-out runs those frames BEFORE the second deadline passes, in the model's single scan after it: inconclusive
            self.overrun = True
        while self.now() < target:
            time.sleep(min(0.02, (target - self.now()) / 1000.0 + 0.001))
        t = self.now()
        self.trace.append("%d ms: deadline scan" % t)
        self.served_now = []
        self.pre = {}
        expect = self.model_event("timeouts %d" % t, step)
        nxt = min([d for d in self.refresh_model()["deadlines"] if d > t] + [10 ** 9])     # no read may run into the next deadline

        def budget(until):
            return max(min(until, nxt - GUARD_MS) - self.now(), 1) / 1000.0
        # a nil may be up to LATE_MS late: wait for the expected ones before comparing
        for cid, toks in expect.items():
            ci = self.ids.index(cid)
            if self.closed[ci]:
                continue
            got = []
            for w in toks:
                x = self.flat[ci].read(budget(t + LATE_MS), header=w.startswith("h"))
                if x is None:
                    break
                got.append(x)
            self.note_tokens(ci, got, self.now(), step)
            self.pre[cid] = got
        # harness view, model-free: a wait whose deadline has passed must be answered within LATE_MS
        for ci, w in self.overdue():
            if self.pre.get(self.ids[ci]):
                continue
            limit = w.t_send + w.timeout + LATE_MS
            x = self.flat[ci].read(budget(limit))
            if x is not None:
                self.note_tokens(ci, [x], self.now(), step)
                self.pre.setdefault(self.ids[ci], []).append(x)
            elif self.now() >= limit:
                w.late = True
                self.fail("late-nil", "client %d: BLPOP sent at %d ms with timeout %d ms has no answer at %d ms" % (ci, w.t_send, w.timeout, self.now()), step, (ci, w.seq))
        ok = self.settle_and_compare(step, expect, t, False)
        if self.now() > nxt - MARGIN_MS:
            self.overrun = True         # the comparison ran into the next deadline (machine under load): inconclusive, re-run
        return ok

    def do(self, action):
        """execute one action on both sides; False = stop this history (states diverged or action not applicable)"""
        step = len(self.steps)
        kind = action[0]
        if self.due(30 if kind == "stall" else GUARD_MS):
            if not self.tick(step):
                return False
        self.refresh_model()
        self.served_now = []
        self.pre = {}
        self.self_serve = None
        if kind == "tick":
            if not self.m["deadlines"] and not self.wait_deadlines():
                return None
            self.steps.append(action)
            return self.tick(step, forced=True)
        if kind == "stall":
            # the event loop is kept busy until `action[1]` of the pending deadlines have passed: they are all found
            # expired by the same deadline scan
            ds = sorted(set(self.m["deadlines"]) | set(self.wait_deadlines()))
            t = self.now()
            ds = [d for d in ds if d > t + 20]
            if not ds:
                return None
            self.steps.append(action)
            end = ds[min(action[1], len(ds)) - 1] + MARGIN_MS
            while any(end - MARGIN_MS < d <= end + MARGIN_MS for d in ds if d != ds[min(action[1], len(ds)) - 1]):
                end += MARGIN_MS
            ms = min(max(end - t, 30), 900)
            covered = len([d for d in ds if d <= t + ms - MARGIN_MS])
            self.rep.count("feature.stall.covering-%d-deadlines" % min(covered, 4))
            self.trace.append("%d ms: event loop stalled for %d ms (%d deadline(s) pass meanwhile)" % (t, ms, covered))
            self.S.stall(ms)
            return self.tick(step, at_now=True)
        ci = action[1]
        cid = self.ids[ci]
        st = self.m["conns"][cid]
        if kind == "hangup":
            if self.closed[ci]:
                return None
            self.steps.append(action)
            t = self.now()
            self.trace.append("%d ms: client %d (conn %d) hangs up%s" % (t, ci, cid, " while blocked" if st["blocked"] else ""))
            self.clients[ci].close()
            self.closed[ci] = True
            self.waits[ci] = []          # harness view: a client that left waits for nothing
            expect = self.model_event("hangup %d" % cid, step)
            for c, toks in self.model_event("reap %d" % cid, step).items():
                expect.setdefault(c, []).extend(toks)
            self.rep.nontrivial(("hangup", st["blocked"]))
            return self.settle_and_compare(step, expect, t, bool(self.m["deadlines"]))
        if kind == "dirty":
            # the blocked client writes something (not read by the server: it is blocked) and closes: end-of-file behind unread bytes
            if self.closed[ci] or not st["blocked"] or st["gone"]:
                return None
            self.steps.append(action)
            t = self.now()
            self.trace.append("%d ms: client %d (conn %d), blocked, writes PING and closes its socket" % (t, ci, cid))
            try:
                self.clients[ci].send_raw(Client.encode(["PING"]))
            finally:
                self.clients[ci].close()
            self.closed[ci] = True
            self.waits[ci] = []
            self.rep.count("feature.bytes-then-close-while-blocked")
            regs = [k for k, v in self.m["reg"].items() if v and v[0] == cid and len(v) > 1]
            if regs:
                self.rep.count("feature.bytes-then-close-while-blocked.head-of-multi-waiter-queue")
            expect = self.model_event("dirty %d" % cid, step)
            for c, toks in self.model_event("reap %d" % cid, step).items():
                expect.setdefault(c, []).extend(toks)
            self.rep.nontrivial(("dirty", bool(regs)))
            return self.settle_and_compare(step, expect, t, bool(self.m["deadlines"]))
        if kind == "killsend":
            # ONE write of client ci: CLIENT KILL ID <target>, then a batch — the killed connection is Closing at once but stays in
            # the table, and in the registries, until the end of the loop iteration that runs this batch
            _, _, tj, cmds = action
            if self.closed[ci] or st["blocked"] or st["gone"] or self.in_multi[ci] or tj == ci or tj >= len(self.clients) or self.closed[tj]:
                return None
            tid = self.ids[tj]
            tst = self.m["conns"][tid]
            if tst["gone"]:
                return None
            self.steps.append(action)
            head_of = [k for k, v in self.m["reg"].items() if v and v[0] == tid and len(set(v)) > 1]
            shape = "+".join(c_[0] for c_ in cmds) or "nothing"
            self.rep.count("feature.client-kill.%s" % ("waiter.stale-head-of-multi-waiter-queue" if head_of else "waiter" if tst["blocked"] else "unblocked-client"))
            if tst["blocked"]:
                self.rep.count("feature.client-kill.waiter.then." + shape)
            for f in features(("send", ci, cmds), self.m):
                self.rep.count("feature." + f)
            t = self.now()
            self.enc_client = ci
            self.push_fifo[ci].append([])            # the integer reply of CLIENT KILL acknowledges no push
            wire, words = [Client.encode(["CLIENT", "KILL", "ID", str(tid)])], []
            for cmd in cmds:
                args, word = self.encode(cmd)
                wire.append(Client.encode(args))
                words.append(word)
            self.enc_client = None
            self.trace.append("%d ms: client %d (conn %d) sends CLIENT KILL ID %d (client %d%s) ; %s" % (
                t, ci, cid, tid, tj, ", blocked" if tst["blocked"] else "", " ; ".join(" ".join(a.decode() if isinstance(a, bytes) else a for a in self.encode_peek(cmd)) for cmd in cmds)))
            expect = self.model_event("kill %d" % tid, step)
            for c, toks in self.model_event("conn %d %d %s" % (cid, t, " ".join(words)), step).items():
                expect.setdefault(c, []).extend(toks)
            expect[cid] = ["i1"] + expect.get(cid, [])
            self.clients[ci].send_raw(b"".join(wire))
            self.closed[tj] = True
            self.waits[tj] = []
            inm = False
            for cmd in cmds:
                inm = True if cmd[0] == "multi" else False if cmd[0] == "exec" else inm
            self.in_multi[ci] = inm
            ok = self.settle_and_compare(step, expect, t, bool(self.m["deadlines"]))
            self.clients[tj].close()
            self.rep.nontrivial(("killsend", tst["blocked"], bool(head_of), shape, tuple(sorted(set(t_ for s_, t_ in self.tags if s_ == step)))))
            return ok
        if kind == "select":
            if self.closed[ci] or st["blocked"] or st["gone"] or action[2] >= len(self.dbs) or self.in_multi[ci]:
                return None
            self.steps.append(action)
            self.cur_db[ci] = action[2]
            r = self.clients[ci].cmd("SELECT", str(self.dbs[action[2]]), timeout=5)
            self.trace.append("%d ms: client %d (conn %d) selects database %d -> %r" % (self.now(), ci, cid, self.dbs[action[2]], r))
            self.rep.count("feature.select-between-calls")
            return r[0] == "s"
        if kind == "send":
            if self.closed[ci] or st["blocked"] or st["gone"]:
                return None          # a blocked client cannot send: the server would not read it
            self.steps.append(action)
            waiters_on = set(k for k, v in self.m["reg"].items() if v)
            for f in features(action, self.m):
                self.rep.count("feature." + f)
            self.rep.count("feature.db.%d" % self.dbs[self.cur_db[ci]])
            for cmd in action[2]:
                if cmd[0] == "push" and self.key_of(ci, cmd[2])[0] in waiters_on:
                    mk_ = self.key_of(ci, cmd[2])[0]
                    self.rep.count("feature.push-to-key-with-%d-waiters.%s" % (min(len(self.m["reg"][mk_]), 3), "multi-elem" if cmd[3] > 1 else "1elem"))
                    if cmd[3] > 1 and len(set(self.m["reg"][mk_])) < len(self.m["reg"][mk_]):
                        self.rep.count("feature.multi-elem-push-to-key-registered-twice-by-one-client")
                if cmd[0] == "pop" and any(c2[0] == "push" and c2[2] == cmd[2] for c2 in action[2]) and self.key_of(ci, cmd[2])[0] in waiters_on:
                    self.rep.count("feature.race.push-pop-same-batch-with-waiter")
            wire, words = [], []
            t = self.now()
            tops = [c_[0] for c_ in action[2]]
            if "bpop" in tops and tops.index("bpop") < len(tops) - 1 and "multi" not in tops[:tops.index("bpop")]:
                self.self_serve = cid
            inm = self.in_multi[ci]
            self.enc_client = ci
            for cmd in action[2]:
                args, word = self.encode(cmd)
                wire.append(Client.encode(args))
                words.append(word)
            self.trace.append("%d ms: client %d (conn %d, db %d) sends %s" % (t, ci, cid, self.dbs[self.cur_db[ci]], " ; ".join(" ".join(a.decode() if isinstance(a, bytes) else a for a in self.encode_peek(cmd)) for cmd in action[2])))
            expect = self.model_event("conn %d %d %s" % (cid, t, " ".join(words)), step)
            self.clients[ci].send_raw(b"".join(wire))
            # harness view of what this client is now waiting for (top-level blocking pops only)
            newwaits = []
            for cmd in action[2]:
                if cmd[0] == "multi":
                    inm = True
                elif cmd[0] == "exec":
                    inm = False
                elif cmd[0] == "bpop" and not inm:
                    self.seq += 1
                    w_ = Wait([self.key_of(ci, i)[0] for i in cmd[2]], t, cmd[3], self.seq)
                    if self.S.facts["defer_batch"] and (newwaits or self.waits[ci]):
                        w_.deferred = True      # executed only after the earlier call is answered
                    newwaits.append(w_)
            self.enc_client = None
            self.in_multi[ci] = inm
            self.waits[ci].extend(newwaits)
            if newwaits and len(self.dbs) > 1 and self.last_wait_db.get(ci, self.cur_db[ci]) != self.cur_db[ci]:
                self.rep.count("feature.blocking-call-after-select-to-another-db")
            if newwaits:
                self.last_wait_db[ci] = self.cur_db[ci]
            ok = self.settle_and_compare(step, expect, t, bool(self.m["deadlines"]) or any(c[0] == "bpop" and c[3] for c in action[2]))
            self.rep.nontrivial(("send", tuple(c[0] + (str(len(c[2])) if c[0] == "bpop" else str(c[3]) if c[0] == "push" else "") for c in action[2]),
                                 tuple(sorted(set(t for s_, t in self.tags if s_ == step)))))
            return ok
        raise ValueError(action)

    def encode_peek(self, cmd):
        k = cmd[0]
        if k == "bpop":
            return ["BLPOP" if cmd[1] == "L" else "BRPOP"] + [self.names[i] for i in cmd[2]] + ["%d ms" % cmd[3]]
        if k == "push":
            return ["LPUSH" if cmd[1] == "L" else "RPUSH", self.names[cmd[2]], "<%d values>" % cmd[3]]
        if k == "pop":
            return ["LPOP" if cmd[1] == "L" else "RPOP", self.names[cmd[2]]]
        return [k.upper()]

    def finish(self):
        """final deadline scans (a nil must arrive, and on time), then hang up everything"""
        step = len(self.steps)
        n = 0
        while (self.refresh_model()["deadlines"] or self.wait_deadlines()) and n < 6 and not self.disagree:
            self.tick(step, forced=True)
            n += 1
        for c in self.clients:
            c.close()
        return self


def show_reg(reg):
    return "{" + ", ".join("%s:%s" % (k.decode(), v) for k, v in sorted(reg.items())) + "}"


# --------------------------------------------------------------------------------------------
# generators
# --------------------------------------------------------------------------------------------
def gen_action(r, h, mode, timed):
    """mode: 'allowed' = inside the old `Allowed` (single key, single element, …); 'fixed' = inside `AllowedFixed`
    (everything except a hang-up while blocked, a blocking pop behind a blocking pop in one batch, a push of more
    than 32 elements); 'free' = anything"""
    m = h.m
    free = [ci for ci in range(len(h.clients)) if not h.closed[ci] and not m["conns"][h.ids[ci]]["blocked"]]
    op = lambda: r.choice(["L", "R"])
    key = lambda: r.choice([0, 0, 1, 1, 2])
    tmo = lambda: (r.choice([200, 200, 300, 400]) if (timed and r.chance(1, 2)) else 0)
    # distinct keys, adjacent repeats, NON-adjacent repeats (a b a, a b b a, a b c a, …), three distinct keys
    keys_multi = lambda: r.choice([[0, 1], [1, 0], [0, 0], [0, 1, 0], [1, 1, 0], [0, 1, 1, 0], [1, 0, 1], [0, 1, 2], [2, 0, 2], [0, 1, 2, 0], [1, 2, 1, 0], [2, 1, 0, 1, 2]])
    allowed_only = mode == "allowed"
    x = r.below(100)
    F = h.S.facts
    blocked_live = [ci for ci in range(len(h.clients)) if not h.closed[ci] and m["conns"][h.ids[ci]]["blocked"]]
    if not allowed_only and blocked_live:
        z = r.below(100)
        # bytes, then close, while blocked: inside AllowedFixed only once the probe reads the pending input
        if z < 5 and (mode == "free" or (F["notice_blocked_hangup"] and F["wake_checks_client"] and F["probe_reads_input"])):
            return ("dirty", r.choice(blocked_live))
        # CLIENT KILL of a waiter and, in the same write, an element for its key by a way that goes through serve_key (EXEC) or
        # through the push arm, with or without a pop / a second transaction behind it: `free` only (AllowedFixed excludes it)
        if z < 13 and mode == "free" and free:
            tj = r.choice(blocked_live)
            heads = [c_ for c_ in blocked_live if any(v and v[0] == h.ids[c_] and len(set(v)) > 1 for v in m["reg"].values())]
            if heads and r.chance(2, 3):
                tj = r.choice(heads)
            names = [h.name_of(k_) for k_ in (h.waits[tj][0].keys if h.waits[tj] else [])]
            ks = [h.names.index(n_) for n_ in names if n_ in h.names] or [0]
            k = r.choice(ks)
            o = (k + 1) % 3
            same_db = [c_ for c_ in free if h.cur_db[c_] == h.cur_db[tj]]
            return ("killsend", r.choice(same_db or free), tj, r.choice([
                [("multi",), ("push", op(), k, 1), ("exec",)],
                [("multi",), ("push", op(), k, 1), ("exec",), ("pop", op(), k)],
                [("multi",), ("push", op(), k, 2), ("exec",), ("multi",), ("push", op(), o, 1), ("pop", op(), k), ("exec",)],
                [("multi",), ("push", op(), k, 1), ("exec",), ("push", op(), o, 1)],
                [("push", op(), k, r.range(1, 2))],
                [("push", op(), k, 1), ("pop", op(), k)],
                [],
            ]))
    if not allowed_only and len(free) >= 2 and r.below(100) < 2:
        a_, b_ = r.choice(free), r.choice(free)
        if a_ != b_:
            return ("killsend", a_, b_, r.choice([[], [("push", op(), key(), 1)]]))      # an unblocked client killed: inside AllowedFixed
    if not allowed_only and free:
        y = r.below(100)
        pending = sorted(set(m["deadlines"]))
        if len(pending) >= 2 and y < 25:
            return ("stall", r.range(2, 3))          # two or more deadlines found expired by ONE scan
        moved = [c_ for c_ in free if h.last_wait_db.get(c_) is not None and h.last_wait_db[c_] != h.cur_db[c_]]
        if moved and y < 60:
            # a client that blocked in one database, was answered, selected another one: it blocks again, on the same key names
            return ("send", r.choice(moved), [("bpop", op(), r.choice([[0], [1], [0, 1], [1, 0, 1]]), tmo())])
        if len(h.dbs) > 1 and y >= 82:
            answered = [c_ for c_ in free if h.last_wait_db.get(c_) == h.cur_db[c_]]
            ci_ = r.choice(answered or free)
            return ("select", ci_, (h.cur_db[ci_] + 1) % len(h.dbs))
    if not free:
        if m["deadlines"]:
            return ("tick",)
        cands = [ci for ci in range(len(h.clients)) if not h.closed[ci]]
        return ("hangup", r.choice(cands)) if cands and mode == "free" else None
    ci = r.choice(free)
    if x < 30:
        if allowed_only or r.chance(2, 5):
            return ("send", ci, [("bpop", op(), [key()], tmo())])
        return ("send", ci, [("bpop", op(), keys_multi(), tmo())])
    if x < 58:
        n = 1 if (allowed_only or r.chance(2, 5)) else r.choice([2, 2, 3, 3, 4, 5])
        ki = key()
        # half of the time, aim at a key of this client's database that has waiters
        waited = [i for i in range(3) if m["reg"].get(h.key_of(ci, i)[0])]
        if waited and not allowed_only and r.chance(1, 2):
            ki = r.choice(waited)
            n = r.choice([2, 2, 3, 4])
        return ("send", ci, [("push", op(), ki, n)])
    if x < 64:
        return ("send", ci, [("pop", op(), key())])
    if x < 80:
        k = key()
        if allowed_only:
            return ("send", ci, [("push", op(), k, 1), ("pop", op(), 1 - k)] if r.chance(1, 2) else [("pop", op(), k), ("push", op(), k, 1)])
        batches = [
            [("push", op(), k, 1), ("pop", op(), k)],
            [("push", op(), k, 1), ("pop", op(), k)],
            [("push", op(), k, r.range(2, 3)), ("pop", op(), k), ("pop", op(), k)],
            [("push", op(), k, 1), ("bpop", op(), [k], tmo())],
            [("push", op(), k, 2), ("bpop", op(), [1 - k, k], tmo())],
            [("push", op(), k, 1), ("push", op(), 1 - k, 2)],
            [("bpop", op(), [k], tmo()), ("push", op(), 1 - k, 1)],
            [("bpop", op(), keys_multi(), tmo()), ("push", op(), k, 2), ("pop", op(), k)],
            [("pop", op(), k), ("push", op(), k, 3), ("pop", op(), 1 - k)],
        ]
        if mode == "free":
            batches += [[("bpop", op(), [k], 0), ("bpop", op(), [1 - k], 0)], [("bpop", op(), [k], tmo()), ("bpop", op(), keys_multi(), 0)]]
        return ("send", ci, r.choice(batches))
    if x < 88:
        k = key()
        if allowed_only:
            return ("send", ci, [("multi",), ("push", op(), k, 1), ("pop", op(), 1 - k), ("exec",)])
        return ("send", ci, r.choice([
            [("multi",), ("bpop", op(), [k], 0), ("exec",)],
            [("multi",), ("push", op(), k, 1), ("bpop", op(), [k], 0), ("exec",)],
            [("multi",), ("push", op(), k, 2), ("exec",)],
            [("multi",), ("push", op(), k, 3), ("pop", op(), k), ("push", op(), 1 - k, 1), ("exec",)],
            [("multi",), ("bpop", op(), keys_multi(), 0), ("push", op(), 1 - k, 2), ("exec",)],
            [("multi",), ("pop", op(), k), ("push", op(), k, 1), ("exec",)],
        ]))
    if x < 94:
        if m["deadlines"]:
            return ("tick",)
        return ("send", ci, [("push", op(), key(), r.range(1, 3) if not allowed_only else 1)])
    if mode != "free":
        return ("hangup", ci)
    cands = [c for c in range(len(h.clients)) if not h.closed[c]]
    return ("hangup", r.choice(cands))


def gen_convoy(r):
    """>= 3 waiters queued on ONE key with staggered finite timeouts and one that waits for ever, the event loop stalled
    while two or three of the deadlines pass (one scan finds them all), then pushes: (clients, actions)"""
    k = r.below(3)
    other = (k + 1 + r.below(2)) % 3
    tmos = r.choice([[200, 300, 0, 400], [200, 200, 0], [300, 200, 0, 0], [200, 0, 300, 400], [0, 200, 300], [200, 300, 400, 0]])
    acts = []
    for ci, t in enumerate(tmos):
        ks = r.choice([[k], [k], [k, other], [other, k], [k, other, k]])
        acts.append(("send", ci, [("bpop", r.choice("LR"), ks, t)]))
    p = len(tmos)
    acts.append(("stall", r.range(2, 3)))
    acts.append(("send", p, [("push", r.choice("LR"), k, r.range(1, 3))]))
    acts.append(("tick",))
    acts.append(("send", p, [("push", r.choice("LR"), k, r.range(1, 2)), ("push", r.choice("LR"), other, 1)]))
    acts.append(("tick",))
    acts.append(("send", p, [("push", r.choice("LR"), k, 2)]))
    return p + 1, acts


def gen_stale_head(r):
    """two or three waiters queued on ONE key (single- and multi-key calls, with and without timeout); the HEAD waiter is killed
    (CLIENT KILL) in the same write that brings an element to the key through EXEC — or through the push arm — followed by a pop
    or by a second transaction; then more pushes: (clients, actions)"""
    k = r.below(3)
    o = (k + 1 + r.below(2)) % 3
    nw = r.range(2, 3)
    acts = []
    for ci in range(nw):
        ks = r.choice([[k], [k], [k, o], [o, k]]) if ci else r.choice([[k], [k], [k, o]])
        acts.append(("send", ci, [("bpop", r.choice("LR"), ks, r.choice([0, 0, 400]) if ci else 0)]))
    p = nw
    op = lambda: r.choice("LR")
    acts.append(("killsend", p, 0, r.choice([
        [("multi",), ("push", op(), k, 1), ("exec",)],
        [("multi",), ("push", op(), k, 1), ("exec",), ("pop", op(), k)],
        [("multi",), ("push", op(), k, 1), ("exec",), ("multi",), ("push", op(), o, 1), ("pop", op(), k), ("exec",)],
        [("multi",), ("push", op(), k, 2), ("pop", op(), k), ("exec",), ("pop", op(), k)],
        [("multi",), ("push", op(), k, 1), ("exec",), ("push", op(), o, 1)],
        [("push", op(), k, 1), ("pop", op(), k)],
    ])))
    acts.append(("send", p, [("push", op(), k, 1)]))
    acts.append(("tick",))
    acts.append(("send", p, [("push", op(), k, 2), ("push", op(), o, 1)]))
    return p + 1, acts


def gen_dirty_close(r):
    """waiters on one key; the head one writes bytes while blocked and closes (end-of-file behind unread input); pushes by the
    push arm and by EXEC: (clients, actions)"""
    k = r.below(3)
    o = (k + 1) % 3
    nw = r.range(1, 3)
    acts = []
    for ci in range(nw):
        acts.append(("send", ci, [("bpop", r.choice("LR"), r.choice([[k], [k], [k, o], [o, k]]), r.choice([0, 0, 400]))]))
    p = nw
    op = lambda: r.choice("LR")
    acts.append(("dirty", r.below(nw) if r.chance(1, 3) else 0))
    acts.append(("send", p, r.choice([[("push", op(), k, 1)], [("push", op(), k, 2)], [("multi",), ("push", op(), k, 2), ("exec",)],
                                      [("push", op(), k, 1), ("pop", op(), k)]])))
    acts.append(("tick",))
    acts.append(("send", p, [("push", op(), k, 1), ("push", op(), o, 1)]))
    return p + 1, acts


def features(action, model_before):
    """what a sent batch exercises (distribution printed into the evidence)"""
    fs = []
    if action[0] != "send":
        return [action[0]]
    cmds = action[2]
    in_multi = False
    pushed = set()
    for c in cmds:
        if c[0] == "multi":
            in_multi = True
        elif c[0] == "exec":
            in_multi = False
        elif c[0] == "bpop":
            ks = c[2]
            dup = ""
            if len(set(ks)) < len(ks):
                adjacent_only = all(ks.index(k_) + ks.count(k_) - 1 == len(ks) - 1 - ks[::-1].index(k_) for k_ in set(ks))
                dup = ".dup-adjacent" if adjacent_only else ".dup-NON-adjacent"
            fs.append("bpop.%s.%dkey%s%s%s" % ("BLPOP" if c[1] == "L" else "BRPOP", len(set(ks)), dup, ".timeout" if c[3] else "", ".in-exec" if in_multi else ""))
            if set(ks) & pushed:
                fs.append("race.push-then-bpop-same-batch")
        elif c[0] == "push":
            fs.append("push.%s%s" % ("1elem" if c[3] == 1 else "multi-elem", ".in-exec" if in_multi else ""))
            pushed.add(c[2])
        elif c[0] == "pop":
            fs.append("pop" + (".in-exec" if in_multi else ""))
            if c[2] in pushed:
                fs.append("race.push-then-pop-same-batch")
    if len(cmds) > 1 and not any(c[0] == "multi" for c in cmds):
        fs.append("pipeline")
    return fs


def guarded(h, body):
    """a server that stops answering in the middle of a history is an outcome of the history, not of the machinery"""
    try:
        return body()
    except (Closed, ProtocolError, TimeoutError, ConnectionError, BrokenPipeError) as e:
        alive = h.S.srv.alive()
        h.fail("server-stopped", "the server %s during this history (%s: %s); log tail: %s"
               % ("stopped answering" if alive else "process died", type(e).__name__, e, h.S.srv.log_tail(300)), len(h.steps))
        h.S.start_server()
        for c in h.clients:
            c.close()
        return h


def run_random(sess, r, n_actions, nclients, mode, timed, label, dbs=(0,)):
    h = HistoryRun(sess, nclients, label, dbs=dbs)

    def body():
        for _ in range(n_actions):
            a = gen_action(r, h, mode, timed)
            if a is None:
                break
            res = h.do(a)
            if res is False:
                break
        return h.finish()
    return guarded(h, body)


def run_fixed(sess, actions, nclients, label, lenient=False, dbs=(0,), oracle_only=False):
    """a given action list; None when an action is not applicable (its client is blocked or gone; nothing to wait for) —
    `lenient` skips such an action instead"""
    h = HistoryRun(sess, nclients, label, dbs=dbs, oracle_only=oracle_only)

    def body():
        for a in actions:
            res = h.do(a)
            if res is None and lenient:
                continue
            if res is None:
                h.finish()
                return None
            if res is False:
                break
        return h.finish()
    return guarded(h, body)


# the witnesses of Props/C13.lean as harness histories: (finding match, clients, actions, oracle kinds that must fail)
WITNESSES = [
    ("multi-key-leftover", 2, [("send", 0, [("bpop", "L", [0, 1], 0)]), ("send", 1, [("push", "R", 0, 1)]), ("send", 1, [("push", "R", 1, 1)])],
     {"lost", "leftover-registration"}),
    ("one-wake-per-push", 3, [("send", 0, [("bpop", "L", [0], 0)]), ("send", 1, [("bpop", "L", [0], 0)]), ("send", 2, [("push", "R", 0, 3)])],
     {"stranded"}),
    ("pipelined-push-pop", 2, [("send", 0, [("bpop", "L", [0], 200)]), ("send", 1, [("push", "R", 0, 1), ("pop", "L", 0)]),
                               ("send", 1, [("push", "R", 0, 1)]), ("tick",)],
     {"stranded", "blocked-unregistered"}),
    ("exec-conn0", 2, [("send", 0, [("multi",), ("bpop", "L", [0], 0), ("exec",)]), ("send", 1, [("push", "R", 0, 1)])],
     {"lost", "leftover-registration"}),
    ("disconnect-while-blocked", 2, [("send", 0, [("bpop", "L", [0], 0)]), ("hangup", 0), ("send", 1, [("push", "R", 0, 1)])],
     {"lost"}),
    ("pipelined-second-bpop", 2, [("send", 0, [("bpop", "L", [0], 0), ("bpop", "L", [1], 0)]), ("send", 1, [("push", "R", 0, 1)]),
                                  ("send", 1, [("push", "R", 1, 1)])],
     {"lost"}),
    # the leftover registration of a multi-key call keeps its deadline and cuts a later wait-for-ever short
    ("multi-key-leftover", 2, [("send", 0, [("bpop", "L", [0, 1], 400)]), ("send", 1, [("push", "R", 0, 1)]), ("send", 0, [("bpop", "L", [0], 0)]), ("tick",)],
     {"early-nil", "leftover-registration"}),
    # end-of-file behind unread bytes: the probe's peek does not see it
    ("hangup-behind-unread-bytes", 2, [("send", 0, [("bpop", "L", [0], 0)]), ("dirty", 0), ("send", 1, [("push", "R", 0, 1)])],
     {"lost"}),
    ("hangup-behind-unread-bytes", 3, [("send", 0, [("bpop", "R", [0], 0)]), ("send", 1, [("bpop", "L", [0], 0)]), ("dirty", 0),
                                       ("send", 2, [("multi",), ("push", "R", 0, 2), ("exec",)])],
     {"lost"}),
    # a stale head waiter (killed in the same write): serve_key leaves the wake-up request of the next waiter queued; the LPOP
    # behind the EXEC takes the element, the request is carried out on the empty list and dropped with the waiter
    ("stale-head-leftover-wake", 3, [("send", 0, [("bpop", "L", [0], 0)]), ("send", 1, [("bpop", "L", [0], 0)]),
                                     ("killsend", 2, 0, [("multi",), ("push", "R", 0, 1), ("exec",), ("pop", "L", 0)]),
                                     ("send", 2, [("push", "R", 0, 1)])],
     {"stranded", "blocked-unregistered"}),
]

# exhaustive small scope (thorough): all histories of <= 5 actions over this alphabet; clients 0,1 wait, client 2 pushes
ALPHABET = [
    ("send", 0, [("bpop", "L", [0], 0)]),
    ("send", 1, [("bpop", "L", [0, 1], 0)]),
    ("send", 2, [("push", "R", 0, 1)]),
    ("send", 2, [("push", "R", 1, 2)]),
    ("send", 2, [("push", "R", 0, 1), ("pop", "L", 0)]),
    ("send", 2, [("pop", "L", 0)]),
    ("hangup", 0),
]


def registry_phase(rep, r, facts, n_seq):
    """in-process: random operation sequences on the real BlockingManager vs the machine's registry / wake queue
    (registration through `dataCmd`, `notify`, the drain bound, unregister, the deadline scan); -> disagreements"""
    impl = impl_driver("blk")
    model = lean_driver("blk")
    dis = []
    oracle_fail = []
    try:
        model.ask(cfg_line(facts))
        keys = [b"a", b"b", b"c"]

        def canon(line):
            if line and line.startswith("reg="):
                reg, wq = line.split(" ")
                parts = reg[4:].split(";")
                return "reg=" + ";".join(sorted(parts)) + " " + wq
            return line
        for i in range(n_seq):
            spec = {}        # the registry as the property prescribes it: key -> FIFO of [conn, deadline class]
            ops = ["rnew"]
            burst = (i % 5 == 0)          # more than 32 requests queued: the drain bound of process_wakeups
            n = r.range(20, 60)
            if burst:
                nreg = r.range(34, 45)
                for cid in range(1, nreg + 1):
                    ops.append("rreg %d %s %s inf" % (cid + 10, r.choice("LR"), hx(keys[0])))
                ops += ["rnotify " + hx(keys[0])] * r.range(33, nreg)
            for j in range(n):
                x = r.below(100)
                if x < 35:
                    ks = [r.choice(keys) for _ in range(r.choice([1, 1, 1, 2, 2, 3]))]
                    if facts["dedup_keys"]:
                        ks = list(dict.fromkeys(ks))     # the handler de-duplicates before calling the manager
                    ops.append("rreg %d %s %s %s" % (r.range(1, 6), r.choice("LR"), "|".join(hx(k) for k in ks), r.choice(["inf", "inf", "past", "future"])))
                elif x < 60:
                    ops.append("rnotify " + hx(r.choice(keys)))
                elif x < 70:
                    ops.append("rwake")
                elif x < 80:
                    ops.append("runreg %d" % r.range(1, 6))
                elif x < 88:
                    ops.append("rexpire")
                elif x < 94:
                    ops.append("rhas " + hx(r.choice(keys)))
                else:
                    ops.append("rdump")
            if burst:
                ops += ["rdump", "rwake", "rdump", "rwake", "rdump"]
            ops.append("rdump")
            for k, op in enumerate(ops):
                a, b = impl.ask(op), model.ask(op)
                if b is None or b == "bad-op":
                    raise InternalError("drv_blk failed on %r" % op)
                rep.evaluations += 1
                rep.count("registry." + op.split(" ")[0])
                # the oracle, independent of the Lean model: who may be reported expired, what the queues must hold
                w = op.split(" ")
                if w[0] == "rnew":
                    spec = {}
                elif w[0] == "rreg":
                    for kk in w[3].split("|"):
                        spec.setdefault(kk, []).append([int(w[1]), w[4]])
                elif w[0] == "rnotify":
                    if spec.get(w[1]):
                        spec[w[1]].pop(0)
                elif w[0] == "runreg":
                    for kk in spec:
                        spec[kk] = [e for e in spec[kk] if e[0] != int(w[1])]
                elif w[0] == "rexpire":
                    want = sorted(set(e[0] for q_ in spec.values() for e in q_ if e[1] == "past"))
                    if len([q_ for q_ in spec.values() if len([e for e in q_ if e[1] == "past"]) >= 2]):
                        rep.count("registry.rexpire.two-or-more-expired-in-one-queue")
                    got_ = [] if a in (".", None) else [int(x) for x in a.split(",")] if a != "panic" else None
                    for kk in spec:
                        spec[kk] = [e for e in spec[kk] if e[1] != "past"]
                    if got_ != want:
                        oracle_fail.append({"ops": ops[:k + 1], "impl": a, "want": ",".join(map(str, want)) or ".",
                                            "why": "process_timeouts reported %s expired; the waiters whose deadline has passed are %s (a waiter that has not expired "
                                                   "must not be answered nil, one that has must be)" % (a, want)})
                        break
                elif w[0] == "rdump" and a and a.startswith("reg="):
                    want = ";".join(sorted("%s:%s" % (kk, "+".join(str(e[0]) for e in q_)) for kk, q_ in spec.items() if q_)) or "."
                    if canon(a).split(" ")[0] != "reg=" + want:
                        oracle_fail.append({"ops": ops[:k + 1], "impl": a, "want": "reg=" + want,
                                            "why": "the registry of the BlockingManager is not the FIFO of the registered, not yet notified / expired / unregistered waiters"})
                        break
                if op == "rwake" and a and a != ".":
                    rep.nontrivial(("rwake", min(a.count(",") + 1, 33)))
                if canon(a) != canon(b):
                    dis.append({"ops": ops[:k + 1], "impl": a, "code": b})
                    break
            rep.traces_validated += 1
    finally:
        impl.close()
        model.close()
    return dis, oracle_fail


PUSH_SCRIPT = "return redis.call('RPUSH', KEYS[1], ARGV[1])"
RENAME_SCRIPT = "return redis.call('RENAME', KEYS[1], KEYS[2])"

# how an element reaches the key a client is blocked on: name -> (commands of the other connection, given key, source key, sha)
ARRIVALS = {
    "LPUSH": lambda k, src, sha: [["LPUSH", k, "x"]],
    "RPUSH": lambda k, src, sha: [["RPUSH", k, "x"]],
    "EXEC[RPUSH]": lambda k, src, sha: [["MULTI"], ["RPUSH", k, "x"], ["EXEC"]],
    "EVAL": lambda k, src, sha: [["EVAL", PUSH_SCRIPT, "1", k, "x"]],
    "EVALSHA": lambda k, src, sha: [["EVALSHA", sha["push"], "1", k, "x"]],
    "EXEC[EVAL]": lambda k, src, sha: [["MULTI"], ["EVAL", PUSH_SCRIPT, "1", k, "x"], ["EXEC"]],
    "EXEC[EVALSHA]": lambda k, src, sha: [["MULTI"], ["EVALSHA", sha["push"], "1", k, "x"], ["EXEC"]],
    "RENAME": lambda k, src, sha: [["RPUSH", src, "x"], ["RENAME", src, k]],
    "RENAMENX": lambda k, src, sha: [["RPUSH", src, "x"], ["RENAMENX", src, k]],
    "EXEC[RENAME]": lambda k, src, sha: [["RPUSH", src, "x"], ["MULTI"], ["RENAME", src, k], ["EXEC"]],
    "EVAL[RENAME]": lambda k, src, sha: [["RPUSH", src, "x"], ["EVAL", RENAME_SCRIPT, "2", src, k]],
    "EVALSHA[RENAME]": lambda k, src, sha: [["RPUSH", src, "x"], ["EVALSHA", sha["rename"], "2", src, k]],
}


def probes(sess):
    """A client blocked on k; an element reaches k — by every way an element can get there (`ARRIVALS`), for BLPOP and
    BRPOP, for a single-key and a multi-key wait (k second), in database 0 and 15; and, the other way round, an element
    pushed by a script to the same key NAME in ANOTHER database, which must wake nobody.  Judged by the oracle alone
    (scripts and RENAME are outside the Lean machine): the waiter must be served, nothing may be lost.
    -> {finding match or probe name: None | detail of the first failure}"""
    out = {"push-by-script": None, "rename-onto-waited-key": None, "arrival": None, "other-database-push": None}
    sess.select(0)
    sha = {}
    for nm, src in (("push", PUSH_SCRIPT), ("rename", RENAME_SCRIPT)):
        r = sess.ctl.cmd("SCRIPT", "LOAD", src, timeout=5)
        if r[0] != "b":
            raise InternalError("SCRIPT LOAD refused: %r" % (r,))
        sha[nm] = r[1]
    n = 0
    for way, mk_cmds in ARRIVALS.items():
        for bop in ("BLPOP", "BRPOP"):
            for multi in (False, True):
                for db in ((0, 15) if way in ("EVAL", "EVALSHA", "RENAME", "LPUSH") else (0,)):
                    n += 1
                    sess.hist_no += 1
                    k = b"p%d:k" % sess.hist_no
                    other = b"p%d:o" % sess.hist_no
                    src = b"p%d:src" % sess.hist_no
                    a, b = sess.srv.client(), sess.srv.client()
                    try:
                        if db:
                            a.cmd("SELECT", str(db), timeout=5)
                            b.cmd("SELECT", str(db), timeout=5)
                        cid = a.cmd("CLIENT", "ID", timeout=5)[1]
                        a.send(*([bop] + ([other, k] if multi else [k]) + ["0"]))
                        sess.wait_loops(3)
                        cmds = mk_cmds(k, src, sha)
                        replies = [b.cmd(*c, timeout=5) for c in cmds]
                        sess.wait_loops(5)
                        got = Flat(a).read(0.3)
                        reg, wq = sess.impl_blocked([k, other], db)
                        lst = sess.impl_list(k, db)
                        sess.rep.count("probe.arrival.%s.%s.%s.db%d" % (way, bop, "multi-key" if multi else "single-key", db))
                        bad = None
                        if got is None and lst:
                            bad = "conn %d blocked in %s %s(db %d) is not served although %r holds %r after %s (registry %s, wake queue %d)" % (
                                cid, bop, "on [other, k] " if multi else "", db, k, lst, " ; ".join(c[0] for c in cmds), show_reg(reg), wq)
                        elif got is None:
                            bad = "the element sent by %s reached neither the client blocked on %r nor the list (replies %r)" % (way, k, replies)
                        elif got != "p=%s=%s" % (hx(k), hx(b"x")) or lst or reg:
                            bad = "after %s the waiter got %s, the list holds %r, the registry %s" % (way, got, lst, show_reg(reg))
                        if bad:
                            det = {"why": bad, "way": way, "commands": [[x.decode() if isinstance(x, bytes) else x for x in c]
                                                                        for c in [[bop] + ([other, k] if multi else [k]) + ["0"]] + cmds],
                                   "replies": [show_plain(r) for r in replies], "database": db}
                            slot = "push-by-script" if "EVAL" in way and "RENAME" not in way else ("rename-onto-waited-key" if "RENAME" in way else "arrival")
                            if out[slot] is None:
                                out[slot] = det
                    finally:
                        a.close()
                        b.close()
    # the other way round: the same key name in another database must wake nobody and lose nothing
    for way in ("EVAL", "EVALSHA", "RPUSH"):
        for wdb, pdb in ((0, 15), (15, 0), (14, 15)):
            sess.hist_no += 1
            k = b"p%d:k" % sess.hist_no
            a, b = sess.srv.client(), sess.srv.client()
            try:
                if wdb:
                    a.cmd("SELECT", str(wdb), timeout=5)
                if pdb:
                    b.cmd("SELECT", str(pdb), timeout=5)
                a.send("BLPOP", k, "0")
                sess.wait_loops(3)
                cmds = ARRIVALS[way](k, None, sha)
                replies = [b.cmd(*c, timeout=5) for c in cmds]
                sess.wait_loops(5)
                got = Flat(a).read(0.1)
                lst = sess.impl_list(k, pdb)
                reg, wq = sess.impl_blocked([k], wdb)
                sess.rep.count("probe.other-database.%s.waiter-db%d.push-db%d" % (way, wdb, pdb))
                if got is not None or lst != [b"x"] or not reg.get(k):
                    if out["other-database-push"] is None:
                        out["other-database-push"] = {"why": "an element pushed by %s to %r in database %d: the client blocked on that name in database %d got %s, the list of "
                                                             "database %d holds %r, the registry of database %d is %s (want: nothing, [x], the waiter)" % (
                                                                 way, k, pdb, wdb, got, pdb, lst, wdb, show_reg(reg)),
                                                      "commands": ["waiter (db %d): BLPOP k 0" % wdb] + [[x.decode() if isinstance(x, bytes) else x for x in c] for c in cmds],
                                                      "replies": [show_plain(r) for r in replies]}
            finally:
                a.close()
                b.close()
    sess.select(0)
    out["wake-batch-overflow"] = probe_batch_overflow(sess)
    out["exec-not-atomic"] = probe_exec_atomic(sess)
    out["hangup-during-stall"] = probe_hangup_during_stall(sess)
    out["hangup-behind-unread-bytes"] = probe_hangup_behind_bytes(sess)
    out["stale-head-leftover-wake"] = probe_stale_head(sess, sha)
    return out


def probe_hangup_behind_bytes(sess):
    """A blocked on k (alone, or with B queued behind it) writes something while blocked — a PING, half a frame, a second
    blocking pop — and closes: the end-of-file sits behind unread bytes.  An element then reaches k (RPUSH; MULTI RPUSH x y EXEC):
    it must be conserved — left in the list, or handed to B — never popped for A."""
    first = None
    junk = {"PING": Client.encode(["PING"]), "half-frame": b"*2\r\n$3\r\nGET\r\n", "inline": b"PING\r\n", "second-BLPOP": Client.encode(["BLPOP", "zz", "0"])}
    for bop in ("BLPOP", "BRPOP"):
        for what, raw in junk.items():
            for with_next in (False, True):
                for way in ("RPUSH", "EXEC[RPUSH x y]"):
                    if what != "PING" and (with_next or way != "RPUSH") and bop == "BRPOP":
                        continue
                    sess.hist_no += 1
                    k = b"p%d:hb" % sess.hist_no
                    a, b, p = sess.srv.client(), sess.srv.client(), sess.srv.client()
                    try:
                        a.send(bop, k, "0")
                        sess.wait_loops(3)
                        if with_next:
                            b.send(bop, k, "0")
                            sess.wait_loops(3)
                        a.send_raw(raw)
                        sess.wait_loops(2)
                        a.close()
                        sess.wait_loops(4)
                        if way == "RPUSH":
                            pr = [p.cmd("RPUSH", k, "x", timeout=5)]
                            vals = [b"x"]
                        else:
                            p.send_raw(Client.encode(["MULTI"]) + Client.encode(["RPUSH", k, "x", "y"]) + Client.encode(["EXEC"]))
                            pr = [p.read_reply(5) for _ in range(3)]
                            vals = [b"x", b"y"]
                        sess.wait_loops(5)
                        got_b = Flat(b).read(0.2) if with_next else None
                        lst = sess.impl_list(k)
                        reg, wq = sess.impl_blocked([k])
                        sess.rep.count("probe.bytes-then-close-while-blocked.%s.%s.%s.%s" % (bop, what, "with-next-waiter" if with_next else "alone", way))
                        if with_next:
                            served = vals[0] if bop == "BLPOP" else vals[-1]
                            rest = [v for v in vals if v != served]
                            conserved = got_b == "p=%s=%s" % (hx(k), hx(served)) and lst == rest
                        else:
                            conserved = lst == vals
                        if not conserved and first is None:
                            first = {"why": "A blocked in %s %r 0%s writes %s and closes; then %s (%s): the list holds %r, %s, registry %s — an element was popped for the "
                                            "client that had gone (its end-of-file sits behind unread bytes)" % (
                                                bop, k, ", B behind it" if with_next else "", what, way, [show_plain(x) for x in pr], lst,
                                                "B got %s" % got_b if with_next else "nobody else waits", show_reg(reg)),
                                     "commands": ["A: %s k 0" % bop] + (["B: %s k 0" % bop] if with_next else []) + ["A: raw %r, then close" % raw, "P: %s" % way]}
                    finally:
                        for c_ in (a, b, p):
                            c_.close()
    return first


def probe_stale_head(sess, sha):
    """A1, A2 blocked on k.  B, ONE write: CLIENT KILL ID A1; an element reaches k (every way that goes through serve_key, and the
    push arm); then either a transaction of three reads of k — which must agree with each other — or an LPOP.  Afterwards A2 must
    have been served, or still be served by the next push: no wake-up request may be left behind by the stale head waiter."""
    first = None
    for how in ("killed", "vanished-during-stall"):
      for way in ("EXEC[RPUSH]", "EVAL", "EVALSHA", "EXEC[EVAL]", "RENAME", "RENAMENX", "EXEC[RENAME]", "EVAL[RENAME]", "RPUSH"):
        for bop in ("BLPOP", "BRPOP"):
            for tail in ("exec-reads", "lpop"):
                if bop == "BRPOP" and way not in ("EXEC[RPUSH]", "EVAL", "RENAME"):
                    continue
                if how != "killed" and (way not in ("EXEC[RPUSH]", "EVAL", "RENAME") or bop != "BLPOP"):
                    continue
                sess.hist_no += 1
                k = b"p%d:sh" % sess.hist_no
                src = b"p%d:shsrc" % sess.hist_no
                a1, a2, z = sess.srv.client(), sess.srv.client(), sess.srv.client()
                b = sess.srv.client()           # connected last: handled after `z` in the iteration that ends the stall
                try:
                    id1 = a1.cmd("CLIENT", "ID", timeout=5)[1]
                    a1.send(bop, k, "0")
                    sess.wait_loops(3)
                    a2.send(bop, k, "0")
                    sess.wait_loops(3)
                    cmds = ([["CLIENT", "KILL", "ID", str(id1)]] if how == "killed" else []) + ARRIVALS[way](k, src, sha)
                    cmds += [["MULTI"], ["LLEN", k], ["LLEN", k], ["LRANGE", k, "0", "-1"], ["EXEC"]] if tail == "exec-reads" else [["LPOP", k]]
                    if how != "killed":
                        # A1 goes away AFTER this iteration's hang-up probe: the loop is stalled, A1 closes, B writes during the stall
                        z.send("SLEEP", "250")
                        time.sleep(0.05)
                        a1.close()
                        time.sleep(0.02)
                    b.send_raw(b"".join(Client.encode(c) for c in cmds))
                    if how != "killed":
                        z.read_reply(5)
                    replies = [b.read_reply(5) for _ in cmds]
                    sess.wait_loops(5)
                    got2 = Flat(a2).read(0.2)
                    sess.rep.count("probe.stale-head-waiter.%s.%s.%s.%s" % (how, way, bop, tail))
                    bad = None
                    if how == "killed" and replies[0] != ("i", 1):
                        raise InternalError("probe: CLIENT KILL ID answered %r" % (replies[0],))
                    if tail == "exec-reads":
                        ex = replies[-1]
                        if ex[0] != "a" or len(ex[1]) != 3:
                            raise InternalError("probe: EXEC of three reads answered %r" % (ex,))
                        l1, l2, lr = ex[1][0][1], ex[1][1][1], len(ex[1][2][1])
                        if not (l1 == l2 == lr):
                            bad = "the three queued reads of ONE transaction saw different states of %r: LLEN %r, LLEN %r, LRANGE of %d element(s) — the waiter behind the killed head was served (%s) between them" % (k, l1, l2, lr, got2)
                        elif got2 is None:
                            bad = "the waiter behind the killed head waiter was not served by %s (reads inside the next transaction: %r)" % (way, [l1, l2, lr])
                    else:
                        if got2 is None:
                            # the LPOP may legitimately have taken the element only if A2 is still properly queued: the next push must reach it
                            sess.ctl.cmd("RPUSH", k, "late", timeout=5)
                            sess.wait_loops(5)
                            got_late = Flat(a2).read(0.2)
                            lst = sess.impl_list(k)
                            reg, wq = sess.impl_blocked([k])
                            if got_late is None:
                                bad = "after %s ; LPOP (%s) the waiter behind the killed head waiter is blocked but in no queue: RPUSH %r late left %r in the list, registry %s, wake queue %d" % (
                                    way, show_plain(replies[-1]), k, lst, show_reg(reg), wq)
                    if bad and first is None:
                        first = {"why": "A1, A2 in %s %r 0; %sone write: %s -> %s" % (bop, k, "" if how == "killed" else "loop stalled (SLEEP 250), A1 closes, during the stall ", " ; ".join(" ".join(x.decode() if isinstance(x, bytes) else x for x in c)[:60] for c in cmds), bad),
                                 "way": way, "commands": [[x.decode() if isinstance(x, bytes) else x for x in c] for c in cmds], "replies": [show_plain(x) for x in replies]}
                finally:
                    for c_ in (a1, a2, b, z):
                        c_.close()
    return first


def probe_hangup_during_stall(sess):
    """A (and, in the second round, B behind it) blocked on k; the event loop is stalled; A closes its socket; a push to k
    arrives during the stall.  In the iteration that follows, the server's look at A's socket comes before the push is
    handled: the element must be conserved — left in the list, or handed to the next waiter — never popped for A."""
    for with_next in (False, True):
        for bop in ("BLPOP", "BRPOP"):
            sess.hist_no += 1
            k = b"p%d:hs" % sess.hist_no
            a, b, p, z = sess.srv.client(), sess.srv.client(), sess.srv.client(), sess.srv.client()
            try:
                a.send(bop, k, "0")
                sess.wait_loops(3)
                if with_next:
                    b.send(bop, k, "0")
                    sess.wait_loops(3)
                z.send("SLEEP", "300")
                time.sleep(0.05)
                a.close()
                time.sleep(0.02)
                p.send("RPUSH", k, "x")
                z.read_reply(5)
                pr = p.read_reply(5)
                sess.wait_loops(5)
                got_b = Flat(b).read(0.2) if with_next else None
                lst = sess.impl_list(k)
                reg, wq = sess.impl_blocked([k])
                sess.rep.count("probe.hangup-during-stall.%s.%s" % (bop, "with-next-waiter" if with_next else "alone"))
                if with_next:
                    conserved = got_b == "p=%s=%s" % (hx(k), hx(b"x")) and lst == []
                else:
                    conserved = lst == [b"x"]
                if not conserved:
                    return {"why": "A blocked in %s %r 0%s; loop stalled; A closes; RPUSH %r x during the stall (%r): the list holds %r, %s, registry %s — x was popped for the "
                                   "client that had gone" % (bop, k, ", B behind it" if with_next else "", k, pr, lst,
                                                             "B got %s" % got_b if with_next else "nobody else waits", show_reg(reg)),
                            "commands": ["A: %s k 0" % bop] + (["B: %s k 0" % bop] if with_next else []) + ["Z: SLEEP 300", "A closes", "P: RPUSH k x (during the stall)"]}
            finally:
                for c_ in (a, b, p, z):
                    c_.close()
    return None


def probe_batch_overflow(sess):
    """34 clients blocked on k; one write `RPUSH k v0..v33 ; LPOP k`: the drain after RPUSH carries out one batch of
    32 wake-ups, LPOP takes the element of the 33rd; is a waiter dropped from the registry for good?"""
    sess.hist_no += 1
    k = b"p%d:overflow" % sess.hist_no
    n = 34
    ws = [sess.srv.client() for _ in range(n)]
    p = sess.srv.client()
    try:
        for w in ws:
            w.send("BLPOP", k, "0")
        sess.wait_loops(4)
        reg, wq = sess.impl_blocked([k])
        if len(reg.get(k, [])) != n:
            raise InternalError("probe: %d of %d clients registered" % (len(reg.get(k, [])), n))
        p.send_raw(Client.encode(["RPUSH", k] + ["v%d" % i for i in range(n)]) + Client.encode(["LPOP", k]))
        f = Flat(p)
        r1, r2 = f.read(2.0), f.read(2.0)
        sess.wait_loops(6)
        served = sum(1 for w in ws if Flat(w).read(0.02) is not None)
        sess.ctl.cmd("RPUSH", k, "late", timeout=5)
        sess.wait_loops(6)
        served_late = sum(1 for w in ws if Flat(w).read(0.02) is not None)
        reg, wq = sess.impl_blocked([k])
        lst = sess.impl_list(k)
        waiting = n - served - served_late
        if waiting > 0 and lst:
            return {"why": "%d of %d clients blocked on %r were served by RPUSH of %d elements + pipelined LPOP (%s, %s); a later push left %r in the list while "
                           "%d client(s) still wait and the registry is %s: a waiter was dropped for good" % (served, n, k, n, r1, r2, lst, waiting, show_reg(reg)),
                    "commands": ["%d x BLPOP k 0" % n, "RPUSH k v0..v%d ; LPOP k (one write)" % (n - 1), "RPUSH k late"]}
        return None
    finally:
        for w in ws:
            w.close()
        p.close()


def probe_exec_atomic(sess):
    """A blocked on k; B: MULTI; RPUSH k a; LPOP k; EXEC.  A transaction is one indivisible step: its LPOP must see `a`."""
    sess.hist_no += 1
    k = b"p%d:exec" % sess.hist_no
    a, b = sess.srv.client(), sess.srv.client()
    try:
        a.send("BLPOP", k, "0")
        sess.wait_loops(3)
        b.send_raw(Client.encode(["MULTI"]) + Client.encode(["RPUSH", k, "a"]) + Client.encode(["LPOP", k]) + Client.encode(["EXEC"]))
        f = Flat(b)
        toks = [f.read(2.0, header=(i == 3)) for i in range(6)]
        sess.wait_loops(4)
        got_a = Flat(a).read(0.05)
        if toks[3:] == ["h2", "i1", "n"] and got_a is not None:
            return {"why": "inside MULTI/EXEC the LPOP that follows RPUSH %r a replied nil: the blocked client was served (%s) between the two queued commands" % (k, got_a),
                    "commands": ["A: BLPOP k 0", "B: MULTI ; RPUSH k a ; LPOP k ; EXEC"], "replies": toks}
        return None
    finally:
        a.close()
        b.close()


def show_plain(r):
    return repr(r)


# --------------------------------------------------------------------------------------------
# verdict
# --------------------------------------------------------------------------------------------
def explain(h, findings, upto=None):
    """open findings whose excluded class occurs in the history (up to a step) — only when the code model agrees"""
    if h.disagree:
        return []
    ms = set(TAG_TO_MATCH.get(t) for s, t in h.tags if upto is None or s <= upto)
    return [f for f in findings if f.get("match") in ms]


def replay_obj(h, kind, det):
    return {"replay": {"clients": len(h.clients), "actions": h.steps, "label": h.label, "dbs": h.dbs, "oracle_only": h.oracle_only},
            "family": "blk", "oracle": kind, "why": det["why"], "at_step": det["step"],
            "trace": h.trace, "model_tags": h.tags, "disagreements": h.disagree[:3]}


def search(sess, h):
    """The correspondence broke on `h` and no oracle has failed yet: go on looking for a failing input on the server alone
    (DESIGN 2.5).  The history is replayed without the model and extended by a probing suffix — a spare client pushes two
    elements to every key of every database, all deadlines are let pass, one more element goes to every key, the last
    deadlines pass — and the property's oracles (conservation, stranded, registry = waiting set, no nil before the
    timeout / for ever-waiters, no nil later than the bound) are evaluated on the server's lists and registry after every
    action.  -> a history run with oracle failures, or None"""
    n = len(h.clients)
    p = n                                   # the spare client never blocks
    suffix = []
    for rnd, cnt in ((0, 2), (1, 1)):
        for dbi in range(len(h.dbs)):
            if len(h.dbs) > 1:
                suffix.append(("select", p, dbi))
            for ki in range(3):
                suffix.append(("send", p, [("push", "RL"[rnd], ki, cnt)]))
        suffix += [("tick",)] * 3
    g = run_fixed(sess, list(h.steps) + suffix, n + 1, "search", lenient=True, dbs=h.dbs, oracle_only=True)
    return g if g is not None and g.oracle else None


class Verdict:
    def __init__(self, rep, findings):
        self.rep, self.findings = rep, findings
        self.known = {}
        self.new = []           # (history, kind, detail)
        self.disagree = []      # (history)
        self.allowed_runs = 0
        self.new_probe = []
        self.probe_fixed = []

    def absorb(self, h, allowed_only=False):
        rep = self.rep
        rep.traces_validated += 1
        rep.count("history." + h.label.split("#")[0])
        tags = sorted(set(t for _, t in h.tags))
        if not tags:
            self.allowed_runs += 1
            rep.count("history.Allowed")
        for t in tags:
            rep.count("excluded." + t)
        for kind, det in h.oracle:
            rep.count("oracle." + kind)
            fs = [] if kind == "server-stopped" else explain(h, self.findings, det["step"])     # a dead server is never excused
            if fs and not h.overrun:
                for f in fs:
                    self.known.setdefault(f["id"], (f, h, kind, det))
            elif h.overrun:
                rep.count("discarded.timing")
            else:
                self.new.append((h, kind, det))
        if h.disagree and not h.overrun:
            self.disagree.append(h)
        elif h.disagree:
            rep.count("discarded.timing")
        rep.nontrivial(("history", tuple(tags), tuple(sorted(set(k for k, _ in h.oracle)))))


def shrink(sess, h, kind, findings):
    """drop actions while an unexplained failure of the same kind remains"""
    def fails(cand):
        try:
            g = run_fixed(sess, cand, len(h.clients), "shrink", lenient=h.oracle_only, dbs=h.dbs, oracle_only=h.oracle_only)
        except InternalError:
            return False
        if g is None:
            return False
        for k, det in g.oracle:
            if k == kind and not explain(g, findings, det["step"]):
                fails.last = g
                return True
        return False
    fails.last = None
    small = shrink_list(h.steps, fails, max_steps=40) if len(h.steps) > 1 else h.steps
    return fails.last if fails.last is not None and len(fails.last.steps) <= len(small) else h


def main(tier, seed):
    rep = Report(PID, tier, seed)
    rep.rule = ("histories of 3-8 actions (a batch written in one send: BLPOP/BRPOP on 1-5 key arguments over 3 key names — distinct, adjacent and NON-adjacent repeats — with "
                "timeout 0/200/300/400 ms, LPUSH/RPUSH of 1-5 elements (half of them aimed at a key with waiters), LPOP/RPOP, pipelined push+pop, MULTI..EXEC; a wait for the next "
                "deadline; a stall of the event loop (the server's SLEEP test command from the control connection) while two or more deadlines pass, so that ONE deadline scan finds "
                "several waiters expired; a hang-up; bytes written while blocked, then a hang-up (end-of-file behind unread input); CLIENT KILL of a waiter or of an idle client in the same write as a batch "
                "(EXEC that pushes / push / push+pop / second transaction); SELECT between calls) of 2-4 clients, in database 0/1/7/14/15 or in two databases at once (same key names in both); every tenth "
                "history is a convoy: 3-4 waiters queued on one key with staggered finite timeouts and one for-ever waiter, a stall, pushes; every twentieth a stale head (2-3 waiters on one "
                "key, the head one killed in the write that brings an element through EXEC, then a pop or a second transaction), every twentieth a bytes-then-close of a waiter. Against the real server over TCP, sequenced by "
                ">= 3 event-loop iterations (VERIF LOOP); after every action: reply streams, VERIF BLOCKED registry dump, wake-queue length and LRANGE of both keys "
                "compared with the Lean event machine (code variant), and the full statements (multiset equation, stranded, registry = waiting set, FIFO, nil not "
                "before the timeout and at most 300 ms late) evaluated on the implementation's observables alone. Half of the random histories are drawn from the "
                "Allowed fragment (no oracle failure tolerated there). distinct = (batch shape, exclusion tags, oracle kinds) tuples reached")
    rep.assumptions = [
        "the atomic steps of the model are the phases of Server::run (single command thread); two clients writing in the same loop iteration are serialised by "
        "the harness, so the cross-connection form of the push/pop race is covered by the theorems (pop-while-wake) but replayed only in its pipelined form",
        "time: deadlines are computed from the harness's monotonic clock at send time; the server's clock reads a little later; no action starts within 100 ms of a deadline",
        "the model is one keyspace whose keys are database-qualified (15/a is key a of database 15): SELECT is harness bookkeeping, the registry and lists of every database "
        "of a history are dumped (VERIF BLOCKED / LRANGE after SELECT on the control connection); list keys only (wrong-type pushes are C03)",
        "when the correspondence breaks and no oracle has failed, the shortest disagreeing histories are re-run WITHOUT the model and extended by a probing suffix (pushes to every key "
        "of every database, all deadlines, pushes again), judged by the oracles on the server's own lists and registry: `no-failing-input-found` only if that search finds nothing",
        "liveness ('served promptly', 'nil arrives') is observed over TCP with bounds, proved only as the safety statements no_stranded / never_early_nil",
        "the order of nil replies to different connections in one deadline scan (hash-map order) is not compared",
    ]
    facts = source_facts()
    if any(v is None for v in facts.values()):
        # the generated Lean file contains extraction_failed: the proof phase reports it; run the correspondence with the pinned switches
        facts = {k: (v if v is not None else (32 if k == "wake_batch" else False)) for k, v in facts.items()}
    if os.environ.get("C13_MODEL_SWITCHES"):         # sanity test of the correspondence-break path, e.g. "1,0,0,0,0"
        a, b, c, d, e = [x == "1" for x in os.environ["C13_MODEL_SWITCHES"].split(",")]
        facts = dict(facts, notify_per_element=a, wake_at_push=b, unregister_all=c, refuse_in_tx=d, dedup_keys=e)
    if os.environ.get("C13_DEV_REPO"):
        import server as _server
        _server.SERVER_BIN = os.environ["C13_SERVER_BIN"]
        build_driver("blk")
        ok, log, errs = True, "", []
        rep.extra["dev_mode"] = "correspondence only against %s" % os.environ["C13_DEV_REPO"]
    else:
        ok, log, errs = proof_phase(rep, families=["blk"])
        build_server()
        build_harness("blk")
    findings = load_findings()
    # a finding whose repair is visible in the source is expected to be closed
    expected_open = [f for f in findings if not (MATCH_TO_SWITCH.get(f.get("match")) and facts.get(MATCH_TO_SWITCH[f["match"]]))]
    rep.extra["source_switches"] = facts
    r = Rng(seed)
    reg_dis, reg_fail = ([], []) if os.environ.get("C13_DEV_REPO") else registry_phase(rep, r.fork("registry"), facts, 150 if tier == "quick" else 3000)
    rep.extra["registry_disagreements"] = len(reg_dis)
    rep.extra["registry_oracle_failures"] = len(reg_fail)
    sess = Session(rep, facts)
    V = Verdict(rep, expected_open)         # a finding whose repair is in the source excuses nothing any more
    t_start = time.time()
    try:
        # 1. corpus: the witnesses of the Lean witness lemmas, on the real server
        confirmed = {}
        for match, ncl, acts, kinds in WITNESSES:
            h = run_fixed(sess, acts, ncl, "witness#" + match, lenient=True)
            if h is None:
                raise InternalError("witness history %s is not applicable" % match)
            V.absorb(h)
            got = set(k for k, _ in h.oracle)
            if got & kinds:
                confirmed.setdefault(match, []).append(sorted(got))
            if len(rep.samples) < 7:
                rep.sample({"witness": match, "trace": h.trace, "oracle_failures": sorted(got), "model_tags": sorted(set(t for _, t in h.tags))})
        rep.extra["witnesses_confirmed_on_server"] = confirmed
        # 1b. list growth that bypasses the LPUSH/RPUSH arms (outside the model's alphabet): judged by the oracle alone
        for pm, res in probes(sess).items():
            rep.evaluations += 1
            rep.count("probe.%s.%s" % (pm, "fails" if res else "holds"))
            f = next((f for f in expected_open if f.get("match") == pm), None)
            if res and f:
                V.known.setdefault(f["id"], (f, None, "probe", res))
            elif res:
                V.new_probe.append((pm, res))
        # 2. random histories
        n_hist = 420 if tier == "quick" else 6000
        budget = 55 if tier == "quick" else 420
        for i in range(n_hist):
            if time.time() - t_start > budget:
                rep.extra["stopped_early_after_histories"] = i
                break
            hr = r.fork("h%d" % i)
            if sess.repaired:
                mode = "free" if i % 3 == 2 else "fixed"      # two thirds inside AllowedFixed: no oracle failure tolerated there
            else:
                mode = "allowed" if i % 2 == 0 else "free"
            timed = (i % 4 == 1) or (i % 8 == 2)
            # the database is a dimension: boundaries 0, 1, 14, 15 (and a middle one); a third of the histories use two
            # databases, with clients that SELECT between their (blocking) calls
            dbs = [hr.choice([0, 0, 1, 7, 14, 15, 15])]
            if i % 3 == 1:
                dbs.append(hr.choice([d for d in (0, 1, 2, 14, 15) if d != dbs[0]]))
            if i % 10 == 9 and mode != "allowed":
                ncl, acts = gen_convoy(hr)
                h = run_fixed(sess, acts, ncl, "convoy#%d" % i, lenient=True, dbs=dbs)
            elif i % 20 == 5 and mode != "allowed":
                ncl, acts = gen_stale_head(hr)           # leaves AllowedFixed (a waiter is killed): explained only by an open finding
                h = run_fixed(sess, acts, ncl, "stale-head#%d" % i, lenient=True, dbs=dbs)
            elif i % 20 == 15 and mode != "allowed":
                ncl, acts = gen_dirty_close(hr)
                h = run_fixed(sess, acts, ncl, "bytes-then-close#%d" % i, lenient=True, dbs=dbs)
            else:
                h = run_random(sess, hr, hr.range(3, 8), hr.range(2, 4), mode, timed, mode + "#%d" % i, dbs=dbs)
            if h.overrun and (h.oracle or h.disagree):
                h = run_fixed(sess, h.steps, len(h.clients), h.label + "-rerun", lenient=True, dbs=dbs) or h
            rep.count("history.databases.%s" % "+".join(str(d) for d in dbs))
            V.absorb(h, mode != "free")
            if i < 3:
                rep.sample({"history": h.label, "trace": h.trace[:14]})
        # 3. exhaustive small scope (model validation)
        if tier == "thorough":
            cnt, skipped, complete = 0, 0, True
            for n, size in ((1, 7), (2, 7), (3, 7), (4, 7), (5, 5)):
                for combo in itertools.product(range(size), repeat=n):
                    if time.time() - t_start > 1500:
                        complete = False
                        break
                    h = run_fixed(sess, [ALPHABET[j] for j in combo], 3, "exhaustive#%d" % n)
                    if h is None:
                        skipped += 1
                        continue
                    cnt += 1
                    V.absorb(h)
            rep.exhaustive = complete
            rep.extra["exhaustive_small_scope"] = ("all %d applicable histories (2 waiting clients, 1 pusher, 2 keys) of <= 4 actions over the 7-action alphabet and of 5 actions over its "
                                                   "first 5 actions (%d sequences skipped: an action of a blocked or departed client); model validation%s"
                                                   % (cnt, skipped, "" if complete else "; STOPPED by the time budget"))
        # 4. the correspondence broke somewhere and no oracle has failed: search the implementation with the oracles alone
        if V.disagree and not V.new:
            tried = 0
            for h in sorted(V.disagree, key=lambda x: len(x.steps)):
                if tried >= 12 or time.time() - t_start > budget + 240:
                    break
                if h.tags:
                    continue            # the history left AllowedFixed: a failure there could not be attributed
                tried += 1
                g = search(sess, h)
                rep.count("search.after-disagreement." + ("failing-input-found" if g else "nothing-found"))
                if g:
                    for kind, det in g.oracle:
                        V.new.append((g, kind, det))
                    break
        # ---- verdict (DESIGN 2.5)
        for fid, (f, h, kind, det) in V.known.items():
            rep.known(fid, f["what"])
        rep.extra["known_finding_instances"] = {fid: {"oracle": kind, "why": det["why"], "actions": (h.steps if h else det.get("commands")), "trace": (h.trace[-8:] if h else None)}
                                                for fid, (f, h, kind, det) in V.known.items()}

        for pm, res in V.new_probe:
            rep.violation("C13 %s: %s" % (pm, res["why"]), {"replay": res, "family": "blk", "oracle": pm, "probe": pm})
        for f in expected_open:
            if f["id"] not in V.known:
                rep.violation("known finding %s no longer reproduces: model / findings file is stale" % f["id"],
                              {"finding": f, "obligation": f.get("lean_witness"), "source_switches": facts}, no_input=True)
        if reg_fail and not V.new:
            det = min(reg_fail, key=lambda d: len(d["ops"]))
            rep.violation("C13 (BlockingManager in-process): %s" % det["why"], {"replay": det, "family": "blk-registry", "more": reg_fail[1:4]})
        if V.new:
            V.new.sort(key=lambda x: len(x[0].steps))
            h, kind, det = V.new[0]
            try:
                h2 = shrink(sess, h, kind, expected_open)
            except Exception:
                h2 = h
            det2 = next((d for k, d in h2.oracle if k == kind), det)
            rep.violation("C13 %s: %s" % (kind, det2["why"]),
                          dict(replay_obj(h2, kind, det2), others=[{"oracle": k, "why": d["why"], "actions": hh.steps} for hh, k, d in V.new[1:6]], lean_errors=errs[:5]))
        elif not ok:
            rep.violation("proof obligations of C13 no longer check against the regenerated model",
                          {"theorem_errors": errs[:10], "log_tail": log[-3000:]}, no_input=True)
        elif reg_dis:
            rep.violation("correspondence of the registry / wake queue (BlockingManager in-process vs Blk) broke (%d sequences)" % len(reg_dis),
                          {"correspondence": "Ferrous.Blk registry primitives vs ferrous::network::blocking::BlockingManager", "disagreements": reg_dis[:3]}, no_input=True)
        elif V.disagree:
            h = min(V.disagree, key=lambda x: len(x.steps))
            rep.violation("correspondence Blk.step (code variant) vs server broke (%d histories) although the property oracles hold" % len(V.disagree),
                          {"correspondence": "Ferrous.Blk.step vs ferrous over TCP", "replay": {"clients": len(h.clients), "actions": h.steps, "label": h.label},
                           "disagreements": h.disagree[:4], "trace": h.trace}, no_input=True)
        rep.extra["model_disagreements"] = len(V.disagree)
        rep.extra["oracle_failures_new"] = len(V.new)
        rep.extra["allowed_histories"] = V.allowed_runs
        rep.extra["histories_per_second"] = round(rep.traces_validated / max(time.time() - t_start, 0.001), 1)
    finally:
        sess.close()
    return rep.finish()


def replay(path):
    obj = json.load(open(path))
    rp = obj.get("replay") or {}
    acts = [tuplify(a) for a in rp.get("actions", [])]
    rep = Report(PID, "replay", obj.get("seed", 0))
    build_driver("blk")
    build_server()
    sess = Session(rep, {k: (v if v is not None else False) for k, v in source_facts().items()})
    try:
        h = run_fixed(sess, acts, rp.get("clients", 3), "replay", lenient=bool(rp.get("oracle_only")), dbs=tuple(rp.get("dbs") or (0,)),
                      oracle_only=bool(rp.get("oracle_only")))
    finally:
        sess.close()
    if h is None:
        print("replay: an action is not applicable any more (its client is blocked or gone)")
        return 1
    for l in h.trace:
        print(l)
    for k, d in h.oracle:
        print("ORACLE %s: %s (step %d)" % (k, d["why"], d["step"]))
    for d in h.disagree:
        print("MODEL-DISAGREEMENT step %d: %s" % (d["step"], "; ".join(d["what"])))
    print("exclusion tags of the model:", h.tags)
    if h.overrun:
        print("INCONCLUSIVE: the run is timing-sensitive (deadlines too close to be scanned apart, or the machine was too slow); the check discards such runs")
        return 0
    return 1 if (h.oracle or h.disagree) else 0


def tuplify(a):
    """JSON lists back to the action tuples"""
    if a[0] in ("send", "killsend"):
        cmds = []
        for c in a[-1]:
            c = list(c)
            if c[0] == "bpop":
                c[2] = list(c[2])
            cmds.append(tuple(c))
        return tuple(a[:-1]) + (cmds,)
    return tuple(a)
