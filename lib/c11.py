"""C11 — with appendonly enabled the AOF is a faithful redo log.

Deciding artefact: lean/FerrousSpec/Props/C11.lean about `Ferrous.Aof` (lean/FerrousSpec/Model/Aof.lean, on top of
the key-space machine `KS.step`): the file always parses back to exactly the appended commands (any chunking, torn
tail = at most the last command), the regenerated write table contains every mutating command of the catalogue minus
an explicit exception list, read-only commands never change the dataset, and `replay (log h)` agrees with the live
store (values, TTL presence) for every history the log covers — with witness lemmas for every way the current code
falls short (missing names, SELECT never logged, random outcomes logged verbatim, wake-up pops not logged).

This module ties the model to the real server over TCP (`--appendonly yes`) and evaluates the property's own oracle:

  (a) the file, read by this module's OWN RESP reader, is whole frames, each an array of bulk strings — after every
      history, after every command of some histories, right after `kill -9`, and (with an allowed torn tail that must
      be a proper prefix of the next command sent) after `kill -9` in the middle of a pipelined burst;
  (b) the bytes appended during a history equal `fileOf (log (Cfg.code Gen.writeCommands) h)` of the Lean model, byte
      for byte (and the model's strict reader / ferrous's incremental parser model read them back identically);
  (c) the file's commands, sent in file order over a fresh connection to a FRESH server (appendonly off), yield the
      dataset of the live server (canonical dump: values + TTL presence, every database touched).  A difference is
      explained only if replaying the *repaired* log (what a faithful log would contain: missing names present,
      SELECT emitted, random outcomes as their effect, served pops as LPOP/RPOP, EVALSHA as EVAL) reproduces the live
      dataset; each repair that is individually necessary is matched to a known finding by cause.  Anything else is
      a NEW violation (with the history as replay);
  (d) for histories inside the model the Lean dumps of `live` and of `replayAt` are compared with the two servers,
      and the theorem's prediction "every event covered ⇒ replay = live" is tested on the implementation.

What the tree already does is taken from the translator's facts (`selectTracked`, `wakeLogs`, `blockingPopLogged`, the
table): those deviations are then part of the expected log (`Runner.base`), the Lean driver is configured with the
same switches (`cfg <table> <logSelect> <logWake>`), and a listed finding whose fixed witness no longer diverges is
reported as stale.  Self-test switches (violation path only): VERIF_C11_IGNORE_FINDINGS=all|id,id…,
VERIF_C11_SABOTAGE=drop-entry (replays the file without its last entry).

A history is a JSON-serialisable plan (list of ops) + the database it runs in, so every failure replays exactly:
  ["direct", [arg-hex…]]                      one command on the observed connection
  ["exec", [[arg-hex…], …]]                   MULTI, the commands, EXEC
  ["script", [arg-hex…]]                      EVAL "return redis.call(unpack(ARGV))" 0 args…
  ["bpop", key-hex, "L"|"R", [push arg-hex…], "direct"|"exec"|"exec-hop"|"script"|"rename"]
                                              key absent: a second client blocks in BLPOP/BRPOP key 0, the observed connection
                                              pushes, the blocked client is served (wake-up path); key a list: immediate BLPOP/BRPOP
  ["evalsha", script-hex, [arg-hex…]]         SCRIPT LOAD + EVALSHA sha 0 args…
  ["select", n]                               SELECT n on the observed connection
  ["lua", "eval"|"evalsha", script-hex, numkeys, [arg-hex…], "direct"|"exec"]   a script as text or by hash (write-then-fail shapes included)
  ["short", [arg-hex…], key-hex, ttl-ms, path] / ["elapse", "lazy"|"sweeper"] / ["touch", key-hex, [arg-hex…], path]
                                              TIME PASSES: a key gets a short time to live, the deadline passes, the sweeper or the first
                                              command that looks at the key removes it
  ["xclaim", key-hex, min-idle-ms, justid?, pause-ms]   XREADGROUP to worker-A, a pause, XCLAIM by worker-B with a min-idle-time
  ["restart", save?, "kill9"|"term"|"torn"]   stop the live server here and start a new one on the same directory (SAVE first or not)
  ["hangup", key-hex, "L"|"R", [push arg-hex…], sleep-ms, gap-ms]   a blocked client hangs up while another connection pushes to its key
"""
import hashlib
import threading

from common import *
from server import Server, Client, Closed, ProtocolError
from ks import observed
import ksgen

PID = "C11"
PENDING_FINDINGS = os.path.join(VERIF, "pending_repo_patches", "C11_findings.json")
WRAPPER = b"return redis.call(unpack(ARGV))"

# mutating commands of the catalogue (Lean: Spec.writeNames ++ Spec.outsideWrites); the check does not trust this list:
# a mutation by a command outside it shows up as live != replay with no cause, i.e. as a new violation
MUTATING = {"SET", "MSET", "GETSET", "SETNX", "SETEX", "PSETEX", "APPEND", "SETRANGE", "INCR", "DECR", "INCRBY", "DECRBY",
            "DEL", "RENAME", "RENAMENX", "FLUSHDB", "FLUSHALL", "EXPIRE", "PEXPIRE", "PERSIST",
            "LPUSH", "RPUSH", "LPOP", "RPOP", "LSET", "LTRIM", "LREM", "SADD", "SREM", "SPOP", "HSET", "HMSET", "HDEL", "HINCRBY",
            "ZADD", "XADD", "ZREM", "ZINCRBY", "ZPOPMIN", "ZPOPMAX", "XTRIM", "XDEL", "XGROUP", "XREADGROUP", "XACK", "XCLAIM"}
CAUSES = ["names", "blpop", "select", "random", "random-script", "wake", "evalsha", "expiry", "xclaim"]
CAUSE_MATCH = {"names": "unlogged-name", "blpop": "blocking-pop-immediate-unlogged", "select": "select-never-logged",
               "random": "random-outcome-logged-verbatim", "random-script": "random-outcome-in-script-logged-verbatim",
               "wake": "wake-pop-unlogged", "evalsha": "evalsha-logged-without-script",
               "expiry": "expiry-not-logged", "xclaim": "xclaim-logged-verbatim", "torn": "torn-tail-not-truncated",
               "script-timeout": "script-cut-by-time-limit-logged-verbatim"}


def findings():
    known = load_known_findings()
    fs = [f for f in known.get("open", []) if isinstance(f, dict) and f.get("property") == PID]
    have = {f["id"] for f in fs}
    fixed = {f.get("id") for f in known.get("fixed", []) if isinstance(f, dict)}
    if os.path.exists(PENDING_FINDINGS):
        try:
            for f in json.load(open(PENDING_FINDINGS)):
                if f.get("property") == PID and f["id"] not in have and f["id"] not in fixed:
                    fs.append(f)
        except (ValueError, KeyError) as e:
            raise InternalError("unreadable %s: %s" % (PENDING_FINDINGS, e))
    ign = os.environ.get("VERIF_C11_IGNORE_FINDINGS")     # self-test of the violation path only: "all" or ids
    if ign:
        fs = [] if ign == "all" else [f for f in fs if f["id"] not in ign.split(",")]
    return fs


def source_facts():
    sys.path.insert(0, os.path.join(VERIF, "translator"))
    import extract
    import aof_tables
    return aof_tables.facts(extract.src, extract.strip_comments, extract.fn_body, REPO)


# ------------------------------------------------------------------ the harness's own reader of the file
def _line(d, i, lead):
    """`<lead><digits>\\r\\n` at d[i:]: (value, next) | 'need' | 'bad'"""
    if i >= len(d):
        return "need"
    if d[i:i + 1] != lead:
        return "bad"
    j = d.find(b"\r\n", i)
    if j < 0:
        tail = d[i + 1:]
        body = tail[:-1] if tail.endswith(b"\r") else tail
        return "need" if (body == b"" or body.isdigit()) else "bad"
    num = d[i + 1:j]
    if not num.isdigit():
        return "bad"
    return int(num), j + 2


def read_cmd(d, i):
    """one command frame (array of bulk strings) at d[i:]: (args, next) | 'need' | 'bad'"""
    r = _line(d, i, b"*")
    if isinstance(r, str):
        return r
    n, i = r
    args = []
    for _ in range(n):
        r = _line(d, i, b"$")
        if isinstance(r, str):
            return r
        ln, i = r
        if len(d) < i + ln + 2:
            rest = d[i + ln:]
            return "need" if rest in (b"", b"\r") else "bad"
        if d[i + ln:i + ln + 2] != b"\r\n":
            return "bad"
        args.append(d[i:i + ln])
        i += ln + 2
    return args, i


def read_aof(d):
    """(commands, 'clean'|'torn'|'corrupt', offset where the reading stopped)"""
    cmds, i = [], 0
    while i < len(d):
        r = read_cmd(d, i)
        if r == "need":
            return cmds, "torn", i
        if r == "bad":
            return cmds, "corrupt", i
        args, i = r
        cmds.append(args)
    return cmds, "clean", i


# ------------------------------------------------------------------ canonical dump (values + TTL presence)
def _bulk_list(r):
    return [x[1] for x in r[1]] if r[0] == "a" else []


def dump_db(c, db):
    r = c.cmd("SELECT", str(db))
    if r != ("s", b"OK"):
        return "dump-failed:SELECT %r" % (r,)
    keys = c.cmd("KEYS", "*")
    if keys[0] != "a":
        return "dump-failed:KEYS"
    out = []
    for k in sorted(x[1] for x in keys[1]):
        if c.cmd("EXISTS", k) != ("i", 1):
            continue            # deadline passed, not swept yet (late expiry is C02's subject)
        t = c.cmd("TYPE", k)[1].decode()
        if t == "string":
            g = c.cmd("GET", k)
            if g[0] != "b":
                continue
            v = "string " + hx(g[1])
        elif t == "list":
            xs = _bulk_list(c.cmd("LRANGE", k, "0", "-1"))
            v = "list " + ("|".join(hx(x) for x in xs) if xs else ".")
        elif t == "set":
            xs = sorted(_bulk_list(c.cmd("SMEMBERS", k)))
            v = "set " + ("|".join(hx(x) for x in xs) if xs else ".")
        elif t == "hash":
            fl = _bulk_list(c.cmd("HGETALL", k))
            ps = sorted((fl[i], fl[i + 1]) for i in range(0, len(fl) - 1, 2))
            v = "hash " + ("|".join(hx(f) + "=" + hx(x) for f, x in ps) if ps else ".")
        elif t == "zset":
            fl = _bulk_list(c.cmd("ZRANGE", k, "0", "-1", "WITHSCORES"))
            ps = sorted((fl[i], fl[i + 1]) for i in range(0, len(fl) - 1, 2))
            v = "zset " + ("|".join(hx(f) + "=" + hx(x) for f, x in ps) if ps else ".")
        elif t == "stream":
            es = c.cmd("XRANGE", k, "-", "+")
            items = []
            for e in (es[1] if es[0] == "a" else []):
                fl = _bulk_list(e[1][1])
                ps = sorted((fl[i], fl[i + 1]) for i in range(0, len(fl) - 1, 2))
                items.append(e[1][0][1].decode() + ":" + ",".join(hx(f) + "=" + hx(x) for f, x in ps))
            gs = c.cmd("XINFO", "GROUPS", k)
            groups = []
            for g in (gs[1] if gs[0] == "a" else []):
                flat = g[1]
                d = {flat[i][1]: flat[i + 1] for i in range(0, len(flat) - 1, 2)}
                gname = d.get(b"name", ("b", b"?"))[1]
                pend = c.cmd("XPENDING", k, gname, "-", "+", "1000")
                pel = []
                for it in (pend[1] if pend[0] == "a" else []):
                    if it[0] == "a" and len(it[1]) >= 4:
                        pel.append("%s>%s*%s" % (it[1][0][1].decode(), hx(it[1][1][1]), it[1][3][1]))
                groups.append("%s/c%s/p%s/%s/%s" % (hx(gname), d.get(b"consumers", ("i", -1))[1],
                                                    d.get(b"pending", ("i", -1))[1], d.get(b"last-delivered-id", ("b", b"?"))[1].decode(), ",".join(pel) or "-"))
            v = "stream %s groups %s" % ("|".join(items) if items else ".", "|".join(sorted(groups)) if groups else ".")
        else:
            v = "type-" + t
        ttl = c.cmd("PTTL", k)
        out.append("%s %s %s" % (hx(k), v, "ttl" if ttl[0] == "i" and ttl[1] >= 0 else "nottl"))
    return " ; ".join(out) if out else "."


def model_view(dump):
    """the dump as the Lean driver prints it: streams are opaque (`stream <n>`)"""
    out = []
    for item in dump.split(" ; "):
        m = re.fullmatch(r"(\S+) stream (\S+) groups \S+ (ttl|nottl)", item)
        if m:
            n = 0 if m.group(2) == "." else len(m.group(2).split("|"))
            item = "%s stream %d %s" % (m.group(1), n, m.group(3))
        out.append(item)
    return " ; ".join(out)


# ------------------------------------------------------------------ generators
class AGen(ksgen.Gen):
    """ksgen's structured commands plus sorted-set / stream / consumer-group writes and reads"""

    def __init__(self, r, vocab):
        super().__init__(r, vocab)
        self.xid = 1
        self.auto_id = True

    def zkey(self): return self.r.choice([b"z", b"z", b"z2", b"k1", b"miss"])
    def xkey(self): return self.r.choice([b"x", b"x", b"x2", b"k1"])
    def member(self): return self.r.choice([b"m", b"a", b"b", b"", b"\xff"])
    def score(self): return self.r.choice([b"1", b"2", b"-1.5", b"0", b"3e2", b"inf", b"nan", b"abc"])

    def g_zaddn(self):
        out = [self.zkey()]
        for _ in range(self.r.range(1, 3)):
            out += [self.score(), self.member()]
        return out
    def g_zrem(self): return [self.zkey()] + [self.member() for _ in range(self.r.range(1, 2))]
    def g_zincrby(self): return [self.zkey(), self.score(), self.member()]
    def g_zpopmin(self): return [self.zkey()] + ([self.r.choice([b"1", b"2", b"0"])] if self.r.chance(1, 2) else [])
    def g_zpopmax(self): return [self.zkey()] + ([self.r.choice([b"1", b"2", b"0"])] if self.r.chance(1, 2) else [])
    def g_zrange(self): return [self.zkey(), b"0", b"-1"]
    def g_zscore(self): return [self.zkey(), self.member()]
    def g_zcard(self): return [self.zkey()]

    def g_xaddn(self):
        r = self.r
        if self.auto_id and r.chance(1, 3):
            i = b"*"
        else:
            self.xid += r.range(0, 2)
            i = b"%d-%d" % (self.xid, r.range(0, 1))
        fs = []
        for _ in range(r.range(1, 2)):
            fs += [r.choice([b"f", b"g", b""]), r.choice([b"v", b"", b"\r\n\xff"])]
        return [self.xkey(), i] + fs
    def g_xlen(self): return [self.xkey()]
    def g_xrange(self): return [self.xkey(), b"-", b"+"]
    def g_xtrim(self): return [self.xkey(), b"MAXLEN", self.r.choice([b"0", b"1", b"2"])]
    def g_xdel(self): return [self.xkey(), b"%d-%d" % (self.r.range(1, max(1, self.xid)), self.r.range(0, 1))]
    def g_xgroup(self): return [b"CREATE", self.xkey(), self.r.choice([b"g", b"g2"]), self.r.choice([b"0", b"$", b"1-0"])]
    def g_xreadgroup(self):
        return [b"GROUP", self.r.choice([b"g", b"g2"]), self.r.choice([b"c1", b"c2"]), b"COUNT", self.r.choice([b"1", b"2"]),
                b"STREAMS", self.xkey(), self.r.choice([b">", b">", b"0"])]
    def g_xack(self): return [self.xkey(), self.r.choice([b"g", b"g2"]), b"%d-%d" % (self.r.range(1, max(1, self.xid)), self.r.range(0, 1))]
    def g_xpending(self): return [self.xkey(), self.r.choice([b"g", b"g2"])]
    def g_bgrewriteaof(self): return []

    def g_spop(self):
        # mostly on keys that hold sets, so that the draw takes something (the entry logged by its effect)
        k = self.r.choice([b"s", b"s", b"s", b"s2", self.key()])
        if self.r.chance(1, 2):
            return [k]
        c = self.r.choice([b"0", b"1", b"2", b"3", b"10", b"-1", b"abc"])
        self.last_shape = "c" + c.decode()
        return [k, c]

    def g_pexpire(self):
        # positive or malformed only: PEXPIRE parses u64, so `PEXPIRE k -5` is refused and `PEXPIRE k 0` leaves an entry that is
        # already dead (the reference deletes the key in both cases) — C01/C02's subject, kept out of these histories
        t = self.r.choice([b"abc", b""]) if self.r.chance(1, 8) else self.r.choice([b"100000", b"9999999"])
        return [self.key(), t]

    def command(self):
        args = super().command()
        # the generator methods of the n-ary forms carry a suffix
        name = args[0].upper()
        if name in (b"ZADDN", b"XADDN"):
            args[0] = args[0][:-1]
        return args


KS_WRITES = ["SET", "SET", "MSET", "GETSET", "GETSET", "SETNX", "SETEX", "PSETEX", "APPEND", "SETRANGE", "INCR", "DECR", "INCRBY", "DECRBY",
             "DEL", "RENAME", "RENAMENX", "FLUSHDB", "EXPIRE", "EXPIRE", "PEXPIRE", "PEXPIRE", "PERSIST", "PERSIST",
             "LPUSH", "RPUSH", "RPUSH", "LPOP", "RPOP", "LSET", "LTRIM", "LREM", "SADD", "SADD", "SREM", "SPOP",
             "HSET", "HSET", "HMSET", "HMSET", "HDEL", "HINCRBY"]
KS_READS = ["GET", "MGET", "STRLEN", "GETRANGE", "EXISTS", "TYPE", "KEYS", "DBSIZE", "RANDOMKEY", "TTL", "PTTL",
            "LLEN", "LRANGE", "LINDEX", "SMEMBERS", "SISMEMBER", "SCARD", "SUNION", "SINTER", "SDIFF", "SRANDMEMBER",
            "HGET", "HMGET", "HGETALL", "HLEN", "HEXISTS", "HKEYS", "HVALS"]
KS_VOCAB = KS_WRITES * 2 + KS_READS + ["FLUSHALL"]
FULL_VOCAB = KS_VOCAB + ["SPOP", "SADD", "ZADDN", "ZADDN", "ZADDN", "ZREM", "ZINCRBY", "ZINCRBY", "ZPOPMIN", "ZPOPMAX", "ZRANGE", "ZSCORE", "ZCARD",
                         "XADDN", "XADDN", "XADDN", "XADDN", "XLEN", "XRANGE", "XTRIM", "XDEL", "XGROUP", "XGROUP", "XREADGROUP", "XREADGROUP",
                         "XACK", "XPENDING", "BGREWRITEAOF"]
PROFILES = ["direct", "exec", "script", "blocking", "mixed", "mixed"]
POLICIES = [None, "always", "no", "everysec"]       # None: `--appendonly yes` on the command line (default policy: everysec)
HIST_PER_LIVE = 10


def utf8_ok(args):
    try:
        for a in args:
            a.decode("utf-8")
        return True
    except UnicodeDecodeError:
        return False


UNCOVERED_NAMES = {"GETSET", "HMSET", "PEXPIRE", "SPOP", "XREADGROUP"}


SHORT_TTL_MS = 150


def timed_round(r):
    """keys of several types get a short time to live (directly, in EXEC, from a script), the deadlines pass, and then either the
    sweeper removes the keys or the first command that looks at each does (reads and writes, through the three paths)"""
    S = lambda *a: [hx(x) for x in a]
    ttl = b"%d" % SHORT_TTL_MS
    ops, keys = [], []
    cand = [b"t1", b"t2", b"tl", b"ts", b"th"]
    r.shuffle(cand)
    for key in cand[:r.range(1, 3)]:
        path = r.choice(["direct", "direct", "exec", "script"])
        if key in (b"t1", b"t2"):
            raw = r.choice([[b"SET", key, b"10", b"PX", ttl], [b"PSETEX", key, ttl, b"10"], [b"SET", key, b"owner-A", b"PX", ttl, b"NX"]])
            ops.append(["short", S(*raw), hx(key), SHORT_TTL_MS, path])
        else:
            make = {b"tl": [b"RPUSH", key, b"old"], b"ts": [b"SADD", key, b"a", b"b"], b"th": [b"HSET", key, b"f", b"1"]}[key]
            ops.append(["direct", S(*make)])
            ops.append(["short", S(b"PEXPIRE", key, ttl), hx(key), SHORT_TTL_MS, path])
        keys.append(key)
    mode = "sweeper" if r.chance(1, 6) else "lazy"
    ops.append(["elapse", mode])
    if mode == "lazy":
        r.shuffle(keys)
        for key in keys:
            if key in (b"t1", b"t2"):
                raw = r.choice([[b"INCR", key], [b"APPEND", key, b"x"], [b"SETNX", key, b"owner-B"], [b"GET", key], [b"EXISTS", key], [b"SET", key, b"v", b"NX"],
                                [b"GETSET", key, b"z"], [b"STRLEN", key], [b"PERSIST", key], [b"PEXPIRE", key, b"100000"], [b"TYPE", key], [b"DEL", key],
                                [b"INCRBY", key, b"5"], [b"SETRANGE", key, b"2", b"zz"], [b"RENAMENX", key, b"k1"]])
            elif key == b"tl":
                raw = r.choice([[b"RPUSH", key, b"new"], [b"LPUSH", key, b"new"], [b"LPOP", key], [b"LLEN", key], [b"EXISTS", key], [b"LRANGE", key, b"0", b"-1"]])
            elif key == b"ts":
                raw = r.choice([[b"SADD", key, b"z"], [b"SPOP", key], [b"SCARD", key], [b"SREM", key, b"a"], [b"SMEMBERS", key]])
            else:
                raw = r.choice([[b"HSET", key, b"g", b"2"], [b"HINCRBY", key, b"f", b"5"], [b"HGET", key, b"f"], [b"HDEL", key, b"f"], [b"HLEN", key]])
            ops.append(["touch", hx(key), S(*raw), r.choice(["direct", "direct", "exec", "script"])])
    return ops


def gen_plan(r, profile, ks_only, n_ops, covered_only=False, timed=False):
    """`covered_only`: only commands and paths the current log represents faithfully (db 0, no unlogged names, no random
    outcomes, no blocking, no EVALSHA) — the histories on which the theorem predicts replay = live"""
    vocab = KS_VOCAB if ks_only else FULL_VOCAB
    if covered_only:
        vocab = [v for v in vocab if v not in UNCOVERED_NAMES]
        if profile == "blocking":
            profile = "mixed"
    g = AGen(r.fork("gen"), vocab)
    if covered_only:
        g.auto_id = False
    # database hopping: in a third of the other histories a SELECT among three databases before every third op, so that every kind
    # of entry (direct, EXEC, script, by-effect, pops made for blocking clients) often follows an entry of another database
    hop = [0, r.range(1, 15), r.range(1, 15)] if (not covered_only and r.chance(1, 3)) else None
    plan = [["direct", [hx(a) for a in c]] for c in g.setup()]
    for _ in range(n_ops):
        k = r.below(100)
        if profile == "direct":
            path = "direct"
        elif profile == "exec":
            path = "exec" if k < 60 else "direct"
        elif profile == "script":
            path = "script" if k < 60 else "direct"
        elif profile == "blocking":
            path = "bpop" if k < 25 else ("exec" if k < 40 else "direct")
        else:
            path = "bpop" if k < 8 else ("exec" if k < 30 else ("script" if k < 55 else ("evalsha" if k < 58 and not ks_only else "direct")))
            if covered_only and path in ("bpop", "evalsha"):
                path = "direct"
        if path == "direct":
            plan.append(["direct", [hx(a) for a in g.command()]])
        elif path == "exec":
            cmds = [g.command() for _ in range(r.range(1, 4))]
            if r.chance(1, 12) and not covered_only:
                # a SELECT inside a transaction selects for the rest of the transaction and afterwards
                cmds.insert(r.below(len(cmds) + 1), [b"SELECT", b"%d" % r.range(0, 15)])
            plan.append(["exec", [[hx(a) for a in c] for c in cmds]])
        elif path == "script":
            c = g.command()
            for _ in range(8):
                if utf8_ok(c):
                    break
                c = g.command()
            if utf8_ok(c):
                plan.append(["script", [hx(a) for a in c]])
        elif path == "bpop":
            key = r.choice([b"q", b"q", b"l", b"q2"])
            push = [r.choice([b"RPUSH", b"LPUSH"]), key] + [r.choice(ksgen.ELEMS) for _ in range(r.range(1, 2))]
            plan.append(["bpop", hx(key), r.choice(["L", "R"]), [hx(a) for a in push],
                         r.choice(["direct", "direct", "exec", "exec-hop", "script", "rename"])])
        elif path == "evalsha":
            key = r.choice([b"k1", b"sha"])
            plan.append(["evalsha", hx(b"return redis.call('SET', ARGV[1], ARGV[2])"), [hx(key), hx(r.choice([b"1", b"v"]))]])
        if hop and r.chance(1, 3):
            plan.append(["select", r.choice(hop)])
        elif profile == "mixed" and not covered_only and r.chance(1, 40):
            plan.append(["select", r.range(0, 15)])
        if not ks_only and not covered_only and r.chance(1, 14):
            # scripts that write and then fail / return an error table (and some that succeed), as text and by hash, direct and in EXEC
            which = r.below(5)
            if which == 0:
                script = b"redis.call('INCRBY', KEYS[1], ARGV[1]); redis.call('HSET', KEYS[2], 'last', ARGV[1]); redis.call('RPUSH', KEYS[3], ARGV[1]); return redis.call('GET', KEYS[1])"
                args = [r.choice([b"cnt", b"k2"]), r.choice([b"h", b"k1"]), r.choice([b"l", b"k1", b"s", b"cnt"]), r.choice([b"5", b"7", b"abc"])]
                nk = 3
            elif which == 1:
                script, nk, args = b"redis.call('SADD', KEYS[1], ARGV[1]); return {err='LIMIT reached'}", 1, [r.choice([b"s", b"s2", b"k1"]), r.choice([b"m1", b"m2"])]
            elif which == 2:
                script, nk, args = b"redis.call('SET', KEYS[1], ARGV[1]); error('boom')", 1, [r.choice([b"k1", b"k2", b"l"]), r.choice([b"v1", b"v2"])]
            elif which == 3:
                script, nk, args = b"redis.call('LPUSH', KEYS[1], ARGV[1]); return redis.pcall('INCR', KEYS[1])", 1, [r.choice([b"l", b"q2", b"k1"]), b"e"]
            else:
                script, nk, args = b"return redis.call('SET', KEYS[1], ARGV[1])", 1, [r.choice([b"k1", b"k2"]), r.choice([b"v1", b"v2"])]
            plan.append(["lua", r.choice(["eval", "evalsha", "evalsha"]), hx(script), nk, [hx(a) for a in args], r.choice(["direct", "direct", "exec"])])
        if not ks_only and not covered_only and r.chance(1, 40):
            plan.append(["xclaim", hx(r.choice([b"xc", b"xc2"])), r.choice([0, 60, 60, 100000]), r.chance(1, 3), r.choice([120, 150])])
        if profile in ("mixed", "blocking") and not covered_only and r.chance(1, 30):
            key = r.choice([b"q", b"q2", b"hq"])
            push = [r.choice([b"RPUSH", b"LPUSH"]), key] + [r.choice([b"a", b"b", b"c"]) for _ in range(r.range(1, 2))]
            plan.append(["hangup", hx(key), r.choice(["L", "R"]), [hx(a) for a in push], r.choice([0, 40, 80, 80]), r.choice([0, 0, 0, 2])])
        if hop and r.chance(1, 8):
            # an entry of each special kind right after an entry of another database
            d1, d2 = r.choice(hop), r.choice(hop)
            if d1 != d2:
                S = lambda *a: [hx(x) for x in a]
                kind = r.below(5)
                plan.append(["select", d1])
                if kind == 0:
                    plan.append(["direct", S(b"SADD", b"s", b"a", b"b", b"c")])
                plan.append(["select", d2])
                plan.append(["direct", S(b"SET", b"k1", b"elsewhere")])
                plan.append(["select", d1])
                if kind == 0:
                    plan.append(["direct", S(b"SPOP", b"s") if r.chance(1, 2) else S(b"SPOP", b"s", b"2")])
                elif kind == 1 and not ks_only:
                    plan.append(["direct", S(b"XADD", b"x2", b"*", b"f", b"v")])
                elif kind == 2 and not ks_only:
                    plan.append(["evalsha", hx(b"return redis.call('SET', ARGV[1], ARGV[2])"), S(b"sha", b"v")])
                elif kind == 3:
                    plan.append(["script", S(b"RPUSH", b"l", b"via-script")])
                else:
                    plan.append(["exec", [S(b"INCR", b"k2"), S(b"HSET", b"h", b"f1", b"1")]])
        if profile in ("mixed", "blocking") and not covered_only and r.chance(1, 25):
            # a BLPOP/BRPOP served at once in a database other than the one of the previous entry of the file:
            # fill a list in d1, write in d2, come back to d1 and pop
            d1, d2 = r.range(0, 15), r.range(0, 15)
            if d1 != d2:
                key = r.choice([b"l", b"q"])
                plan.append(["select", d1])
                plan.append(["direct", [hx(a) for a in [b"DEL", key]]])
                plan.append(["direct", [hx(a) for a in [b"RPUSH", key, b"j1", b"j2", b"j3"]]])
                plan.append(["select", d2])
                plan.append(["direct", [hx(a) for a in [b"SET", b"k1", b"other"]]])
                plan.append(["select", d1])
                plan.append(["bpop", hx(key), r.choice(["L", "R"]), [hx(a) for a in [b"RPUSH", key, b"z"]], "direct"])
    if timed:
        # TIME PASSES: rounds of short-lived keys spread over the history
        for _ in range(r.range(1, 2)):
            at = r.range(min(4, len(plan)), len(plan))
            plan[at:at] = timed_round(r)
    elif r.chance(1, 5):
        # a restart somewhere in the history: the file is inherited by the new run ("torn": the crash cut the last entry short)
        how = r.choice(["kill9", "term", "torn"])
        plan.insert(r.range(min(4, len(plan)), len(plan)), ["restart", r.chance(2, 3) and how != "torn", how])
    return plan


# ------------------------------------------------------------------ a run of one history on the live server
class Event:
    """kind 'cmd': raw (list of bytes), via_exec, reply;  kind 'wake': db, left, key, value"""

    def __init__(self, kind, **kw):
        self.kind = kind
        self.__dict__.update(kw)

    def name(self):
        return self.raw[0].decode("latin-1").upper() if self.kind == "cmd" and self.raw else ""

    def inner(self):
        """the command that touches the dataset (inner command of the wrapper script)"""
        if self.name() == "EVAL" and len(self.raw) >= 3 and self.raw[1] == WRAPPER and self.raw[2] == b"0":
            return self.raw[3:]
        return self.raw

    def eff(self):
        i = self.inner()
        return i[0].decode("latin-1").upper() if i else ""

    def json(self):
        if self.kind == "restart":
            return {"restart": {"dataset_back": self.dataset_back, "how": self.how}}
        if self.kind == "expire":
            return {"expire": [self.db, hx(self.key)]}
        if self.kind == "wake":
            return {"wake": [self.db, "L" if self.left else "R", hx(self.key), hx(self.value), "immediate" if self.immediate else "served"]}
        return {"cmd": [hx(a) for a in self.raw], "via_exec": self.via_exec, "reply": repr(self.reply)[:200]}


def popped_members(reply):
    """what a SPOP took: list of members ([] = nothing)"""
    if reply is None:
        return []
    if reply[0] == "b":
        return [reply[1]]
    if reply[0] == "a":
        return [x[1] for x in reply[1] if x[0] == "b"]
    return []


def xclaim_effect(raw, reply):
    """`XCLAIM key group consumer 0 <ids claimed> [options]`, or `XGROUP CREATECONSUMER key group consumer` when nothing was
    claimed (the consumer is created all the same); None when the command was refused"""
    if reply is None or reply[0] != "a" or len(raw) < 6:
        return None
    ids = []
    for item in reply[1]:
        if item[0] == "b":
            ids.append(item[1])
        elif item[0] == "a" and item[1] and item[1][0][0] == "b":
            ids.append(item[1][0][1])
    if not ids:
        return [b"XGROUP", b"CREATECONSUMER", raw[1], raw[2], raw[3]]
    opt = len(raw)
    for i in range(5, len(raw)):
        if raw[i].upper() in (b"IDLE", b"TIME", b"RETRYCOUNT", b"FORCE", b"JUSTID", b"LASTID"):
            opt = i
            break
    return raw[:4] + [b"0"] + ids + raw[opt:]


def spec_log(events, write_table, repairs, evalsha_db0=False):
    """The commands a log contains: with `repairs` empty, what the code writes (must equal the file); with a set of
    causes, the code's log with those deviations repaired (all of them = what the property prescribes)."""
    out = []
    conn_db, file_db = 0, 0

    def emit(cmd, db):
        nonlocal file_db
        if "select" in repairs and file_db != db:
            out.append([b"SELECT", b"%d" % db])
            file_db = db
        out.append(cmd)

    for e in events:
        if e.kind == "restart":
            # new connection (database 0); the engine inherits a non-empty file and does not know where its reader stands:
            # the next entry is preceded by a SELECT whatever its database
            conn_db, file_db = 0, None
            if getattr(e, "torn", False) and out:
                out.pop()          # the crash tore the last entry; the restart cut it off
            continue
        if e.kind == "expire":
            # the server removed the key because its time to live had elapsed: a DEL, ahead of whatever looked at the key
            if "expiry" in repairs:
                emit([b"DEL", e.key], e.db)
            continue
        if e.kind == "wake":
            # the pop made for a blocking client: at once (cause "blpop") or when the blocked client is served (cause "wake")
            if ("blpop" if e.immediate else "wake") in repairs:
                emit([b"LPOP" if e.left else b"RPOP", e.key], e.db)
            continue
        name, eff, inner = e.name(), e.eff(), e.inner()
        logged = name in write_table
        if name == "SELECT":
            # (a SELECT executed by EXEC goes through handle_select directly: it selects, and can never be appended)
            if e.reply == ("s", b"OK"):
                conn_db = int(e.raw[1])
            if e.via_exec:
                continue
            if logged:
                out.append(e.raw)
            continue
        if name in ("BLPOP", "BRPOP") and not logged:
            continue            # the command itself leaves no entry; its pop is a separate `wake` event
        if name == "EVALSHA" and "evalsha" in repairs and getattr(e, "script", None) is not None:
            # (on a tree where EVALSHA ignores the selected database — C18's finding — the script ran in db 0)
            emit([b"EVAL", e.script] + e.raw[2:], 0 if evalsha_db0 else conn_db)
            continue
        if name == "XCLAIM" and logged and "xclaim" in repairs:
            # whether an id is claimed depends on how long it has been idle NOW: logged by its effect
            entry = xclaim_effect(e.raw, e.reply)
            if entry is not None:
                emit(entry, conn_db)
            continue
        in_script = inner is not e.raw
        if (eff == "SPOP" or (eff == "XADD" and len(inner) >= 3 and inner[2] == b"*")) and \
                ("random-script" if in_script else "random") in repairs and (logged or "names" in repairs):
            # logged by its effect, once the outcome is known: SREM of what was taken / XADD with the id assigned
            if eff == "SPOP":
                got = popped_members(e.reply) if len(inner) >= 2 else []
                if got:
                    emit([b"SREM", inner[1]] + got, conn_db)
                    continue
            elif e.reply is not None and e.reply[0] == "b":
                emit([inner[0], inner[1], e.reply[1]] + inner[3:], conn_db)
                continue
            if not in_script or (e.reply is not None and e.reply[0] != "e"):
                continue            # nothing was taken / assigned: no entry (a refused script is logged verbatim all the same)
        if logged:
            emit(e.raw, conn_db)
        elif "names" in repairs and name in MUTATING:
            emit(e.raw, conn_db)
    return out


class Runner:
    def __init__(self, rep, facts):
        self.rep = rep
        self.facts = facts
        self.table = set(facts["writeCommands"] or [])
        # deviations the tree no longer has (the translator sees the repairs in the source)
        self.base = set()
        if facts.get("selectTracked"):
            self.base.add("select")
        if facts.get("wakeLogs"):
            self.base.add("wake")
        if facts.get("blockingPopLogged"):
            self.base.add("blpop")
        if facts.get("randomByEffect"):
            self.base.add("random")
        if facts.get("evalshaAsEval"):
            self.base.add("evalsha")
        if facts.get("expiryLogged"):
            self.base.add("expiry")
        if facts.get("xclaimByEffect"):
            self.base.add("xclaim")
        self.causes = [c for c in CAUSES if c not in self.base]
        self.model = lean_driver("aof")
        self.live = None
        self.replay_srv = Server("c11-replay")
        self.t0 = time.monotonic()
        self.n_live = 0
        self.policy = None
        self.scripts = {}
        self.sabotage = os.environ.get("VERIF_C11_SABOTAGE", "")     # self-test of the violation path only
        self.evalsha_db0 = self.probe_evalsha_db()
        rep.extra["evalsha_runs_in_db0"] = self.evalsha_db0
        self.configure_model()
        self.new_live()

    def spec(self, events, repairs):
        """the log with the given deviations repaired, on top of what the tree already does (`self.base`)"""
        return spec_log(events, self.table, set(repairs) | self.base, self.evalsha_db0)

    def probe_evalsha_db(self):
        """does EVALSHA run in the selected database (True) or always in db 0 (C18's finding)?  Probed on the replay server."""
        c = self.replay_srv.client()
        try:
            script = b"return redis.call('SET', 'c11-probe', '1')"
            c.cmd("FLUSHALL")
            c.cmd("SELECT", "5")
            c.cmd("SCRIPT", "LOAD", script)
            c.cmd("EVALSHA", hashlib.sha1(script).hexdigest(), "0")
            in5 = c.cmd("EXISTS", "c11-probe") == ("i", 1)
            c.cmd("SELECT", "0")
            in0 = c.cmd("EXISTS", "c11-probe") == ("i", 1)
            c.cmd("FLUSHALL")
            if in5 == in0:
                raise InternalError("EVALSHA probe inconclusive (db5 %s, db0 %s)" % (in5, in0))
            return in0
        finally:
            c.close()

    def configure_model(self):
        names = "|".join(sorted(self.table)) if self.table else "."
        if self.model.ask("cfg %s %d %d %d %d" % (names, 1 if self.facts.get("selectTracked") else 0, 1 if self.facts.get("wakeLogs") else 0,
                                                  1 if self.facts.get("randomByEffect") else 0, 1 if self.facts.get("expiryLogged") else 0)) != "ok":
            raise InternalError("drv_aof refused cfg")

    def now(self):
        return int((time.monotonic() - self.t0) * 1000) + 1000

    def new_live(self, policy=None):
        """a fresh live server with the AOF on.  `policy` None: `--appendonly yes` on the command line (default fsync policy,
        everysec); "always" | "everysec" | "no": a configuration file `appendonly yes` / `appendfsync <policy>` written into
        the server's scratch directory (the only way to choose the policy)"""
        if self.live is not None:
            self.close_live()
        self.n_live += 1
        self.policy = policy
        self.poisoned = False
        if policy is None:
            self.live = Server("c11-live%d" % self.n_live, appendonly=True)
        else:
            d = os.path.join(CACHE, "run", "c11-live%d-%s-%d" % (self.n_live, policy, os.getpid()))
            shutil.rmtree(d, ignore_errors=True)
            os.makedirs(d)
            conf = os.path.join(d, "ferrous.conf")
            with open(conf, "w") as f:
                f.write("appendonly yes\nappendfsync %s\n" % policy)
            self.live = Server("c11-live%d" % self.n_live, appendonly=False, extra=["--config", conf], keep_dir=d)
        self.c = self.live.client()
        self.aof_path = os.path.join(self.live.dir, "appendonly.aof")
        self.hist_on_live = 0

    def close_live(self):
        try:
            self.c.close()
        except Exception:
            pass
        self.live.stop()
        self.live = None

    def close(self):
        if self.live is not None:
            self.close_live()
        self.replay_srv.stop()
        self.model.close()

    def aof(self):
        try:
            with open(self.aof_path, "rb") as f:
                return f.read()
        except FileNotFoundError:
            return b""

    def ask(self, line):
        a = self.model.ask(line)
        if a is None or a == "bad-op":
            raise InternalError("drv_aof failed on %r -> %r (%s)" % (line[:200], a, self.model.stderr_tail[-300:]))
        return a

    # ---- feeding the model
    def feed(self, e):
        now = self.now()
        if e.kind == "restart":
            if self.ask("restart") != "ok":
                raise InternalError("drv_aof restart")
            e.model_entries, e.model_cur, e.covered, e.in_model, e.entry_db = 0, 0, True, True, 0
            return e
        if e.kind == "expire":
            a = self.ask("ev expire %d %d %s" % (e.db, now, hx(e.key)))
            if a == "not-expired":
                raise InternalError("the harness took %r (db %d) for expired; the model's key is alive or absent" % (e.key, e.db))
        elif e.kind == "wake":
            a = self.ask("ev wake %d %d %s %s" % (e.db, now, "L" if e.left else "R", hx(e.key)))
        else:
            obs, raw, inner = "_", e.raw, e.inner()
            if e.eff() in ("SPOP", "SRANDMEMBER", "RANDOMKEY") and e.reply is not None and e.reply[0] != "e":
                obs = observed(e.eff(), e.reply)
            elif e.eff() == "XADD" and len(inner) >= 3 and inner[2] == b"*" and e.reply is not None and e.reply[0] == "b":
                obs = hx(e.reply[1])           # the id the clock assigned
            if e.name() == "EVALSHA" and self.facts.get("evalshaAsEval") and getattr(e, "script", None) is not None \
                    and not (e.reply is not None and e.reply[0] == "e" and e.reply[1].startswith(b"NOSCRIPT")):
                raw = [b"EVAL", e.script] + e.raw[2:]      # what handle_evalsha_command executes and appends
            if e.name() == "XCLAIM" and self.facts.get("xclaimByEffect") and "XCLAIM" in self.table:
                # logged by its effect (streams are outside the Lean model: the model is shown the entry the server writes)
                raw = xclaim_effect(e.raw, e.reply) or [b"XINFO", b"refused-xclaim"]
            a = self.ask("ev cmd %d %d %s %s" % (1 if e.via_exec else 0, now, obs, " ".join(hx(x) for x in raw)))
        n, cur, cov, inm = a.split(" # ")
        e.model_entries, e.model_cur, e.covered, e.in_model = int(n), int(cur), cov == "1", inm == "1"
        e.entry_db = e.db if e.kind in ("wake", "expire") else getattr(self, "db", 0)
        return e

    def short_guard(self, raws):
        """time passes: a command that names a key with a short time to live is never sent while that deadline is about to pass"""
        self.sent_at = None
        if not self.short:
            return
        now = time.monotonic()
        wait = 0.0
        for raw in raws:
            for a in raw:
                d = self.short.get((self.db, a))
                if d is not None and d[0] - 0.06 < now < d[1] + 0.03:
                    wait = max(wait, d[1] + 0.03 - now)
        if wait > 0:
            time.sleep(wait)
        self.sent_at = time.monotonic()

    def note_lazy_expiry(self, raw):
        """a command that names a key whose short deadline has passed is the first to look at it: the server removes the key, then
        runs the command (any command: the plan's `touch` ops are just the deliberate ones)"""
        if not self.short:
            return
        now = getattr(self, "sent_at", None) or time.monotonic()       # when the command was sent
        for a in raw:
            d = self.short.get((self.db, a))
            if d is not None and now > d[1]:
                del self.short[(self.db, a)]
                e = Event("expire", db=self.db, key=a, raw=[], reply=None, via_exec=False)
                self.events.append(self.feed(e))
                self.rep.count("expiry.removed-by.lazy.unplanned")

    def event(self, raw, reply, via_exec=False, **kw):
        self.note_lazy_expiry(raw)
        if raw and raw[0].upper() == b"EVALSHA" and len(raw) > 1 and "script" not in kw and raw[1].lower() in self.scripts:
            kw["script"] = self.scripts[raw[1].lower()]
        e = Event("cmd", raw=list(raw), reply=reply, via_exec=via_exec, **kw)
        self.events.append(self.feed(e))
        self.rep.evaluations += 1
        return e

    def direct(self, raw):
        self.short_guard([raw])
        r = self.c.cmd(*raw)
        e = self.event(raw, r)
        if self.check_every_command:
            self.check_now("after %s" % raw[0].decode("latin-1"))
        return e

    # ---- the ops of a plan
    def run_plan(self, plan, db, check_every_command=False):
        """fresh dataset, run the plan; returns the events (self.events) and the file offset of the history"""
        if getattr(self, "poisoned", False):
            self.new_live(self.policy)
        self.events = []
        self.frame_failures = []
        self.lag_failures = []
        self.short = {}
        # histories in which time passes keep the sweeper paused, so that who removes an expired key is chosen by the plan
        self.sweeper_paused = any(op[0] in ("short", "elapse", "touch") for op in plan)
        self.c.cmd("VERIF", "SWEEPER", "PAUSE" if self.sweeper_paused else "RESUME")
        self.check_every_command = False
        self.blocked_timeouts = 0
        if self.c.cmd("SELECT", "0") != ("s", b"OK") or self.c.cmd("FLUSHALL") != ("s", b"OK"):
            raise InternalError("cannot reset the live server")
        if self.ask("reset") != "ok":
            raise InternalError("drv_aof reset")
        self.offset = len(self.aof())
        self.check_every_command = check_every_command
        self.db = 0
        if db != 0:
            self.do_select(db)
        for op in plan:
            kind = op[0]
            if kind == "direct":
                raw = [unhx(a) for a in op[1]]
                if raw and raw[0].upper() in (b"BLPOP", b"BRPOP", b"SHUTDOWN", b"DEBUG", b"SLEEP", b"REPLICAOF", b"SLAVEOF", b"CLIENT", b"CONFIG"):
                    continue
                self.direct(raw)
            elif kind == "select":
                self.do_select(op[1])
            elif kind == "exec":
                self.do_exec([[unhx(a) for a in c] for c in op[1]])
            elif kind == "script":
                self.direct([b"EVAL", WRAPPER, b"0"] + [unhx(a) for a in op[1]])
            elif kind == "evalsha":
                script = unhx(op[1])
                self.direct([b"SCRIPT", b"LOAD", script])
                sha = hashlib.sha1(script).hexdigest().encode()
                self.scripts[sha] = script
                raw = [b"EVALSHA", sha, b"0"] + [unhx(a) for a in op[2]]
                r = self.c.cmd(*raw)
                self.event(raw, r, script=script)
            elif kind == "bpop":
                self.do_bpop(unhx(op[1]), op[2] == "L", [unhx(a) for a in op[3]], op[4])
            elif kind == "lua":
                self.do_lua(op[1], unhx(op[2]), op[3], [unhx(a) for a in op[4]], op[5])
            elif kind == "restart":
                self.do_restart(op[1], op[2])
            elif kind == "hangup":
                self.do_hangup(unhx(op[1]), op[2] == "L", [unhx(a) for a in op[3]], op[4], op[5])
            elif kind == "short":
                self.do_short([unhx(a) for a in op[1]], unhx(op[2]), op[3], op[4])
            elif kind == "elapse":
                self.do_elapse(op[1])
            elif kind == "touch":
                self.do_touch(unhx(op[1]), [unhx(a) for a in op[2]], op[3])
            elif kind == "xclaim":
                self.do_xclaim(unhx(op[1]), op[2], op[3], op[4])
            else:
                raise InternalError("unknown op %r" % (op,))
        if self.short:
            # every short deadline is waited out and every dead key removed before the datasets are compared
            self.do_elapse("lazy")
            c0 = self.db
            for (db, key) in sorted(self.short):
                if db != self.db:
                    self.do_select(db)
                self.do_touch(key, [b"EXISTS", key], "direct")
            if self.db != c0:
                self.do_select(c0)
        if self.sweeper_paused:
            self.c.cmd("VERIF", "SWEEPER", "RESUME")
        self.check_every_command = False
        return self.events

    def do_select(self, n):
        e = self.direct([b"SELECT", b"%d" % n])
        if e.reply == ("s", b"OK"):
            self.db = n

    def do_exec(self, cmds):
        cmds = [c for c in cmds if c and c[0].upper() not in (b"BLPOP", b"BRPOP", b"MULTI", b"EXEC", b"DISCARD", b"WATCH", b"UNWATCH")]
        if not cmds:
            return
        self.short_guard(cmds)
        if self.c.cmd("MULTI") != ("s", b"OK"):
            raise InternalError("MULTI refused")
        queued = []
        for c in cmds:
            if self.c.cmd(*c) == ("s", b"QUEUED"):
                queued.append(c)
        r = self.c.cmd("EXEC")
        if r[0] != "a" or len(r[1]) != len(queued):
            raise InternalError("EXEC reply %r for %d queued commands" % (r, len(queued)))
        for c, sub in zip(queued, r[1]):
            self.event(c, sub, via_exec=True)
            if c[0].upper() == b"SELECT" and sub == ("s", b"OK"):
                self.db = int(c[1])         # a queued SELECT selects (and the selection stays after EXEC)
        if self.check_every_command:
            self.check_now("after EXEC")

    def do_lua(self, mode, script, numkeys, args, via):
        """a script sent as text (EVAL) or by its hash (SCRIPT LOAD + EVALSHA), directly or queued in MULTI/EXEC.  Scripts are not
        rolled back: one that writes and then fails (a later redis.call is refused, error() is raised) or returns an error
        table has changed the dataset, and must be in the file like any other"""
        if mode == "evalsha":
            self.direct([b"SCRIPT", b"LOAD", script])
            sha = hashlib.sha1(script).hexdigest().encode()
            self.scripts[sha] = script
            raw = [b"EVALSHA", sha, b"%d" % numkeys] + args
        else:
            raw = [b"EVAL", script, b"%d" % numkeys] + args
        if via == "exec":
            self.do_exec([[b"SET", b"k2", b"tx"], raw])
        else:
            self.direct(raw)
        r = self.events[-1].reply
        self.rep.count("lua.%s.%s.%s" % (mode, via, "error-reply" if r is not None and r[0] == "e" else "ok"))
        self.rep.nontrivial(("lua", mode, via, r is not None and r[0] == "e"))

    # ---- time passes: keys with a short time to live (names outside the generators' universe), their expiry, who notices
    def run_via(self, raw, path):
        if path == "exec":
            self.do_exec([raw])
        elif path == "script":
            self.direct([b"EVAL", WRAPPER, b"0"] + raw)
        else:
            self.direct(raw)

    def do_short(self, raw, key, ttl_ms, path):
        """a command that gives `key` a time to live of `ttl_ms` (SET … PX, PSETEX, PEXPIRE on a key made just before)"""
        self.settle_if_close()
        t0 = time.monotonic()
        self.run_via(raw, path)
        r = self.events[-1].reply
        if r in (("s", b"OK"), ("b", b"OK"), ("i", 1)):
            self.short[(self.db, key)] = (t0 + ttl_ms / 1000.0, time.monotonic() + ttl_ms / 1000.0)
        self.rep.count("expiry.ttl-set.%s" % path)

    def settle_if_close(self):
        """never run a command while a short deadline is about to pass: wait it out and have the dead keys removed first"""
        if self.short and time.monotonic() > min(lo for lo, hi in self.short.values()) - 0.06:
            self.do_elapse("lazy")
            for (db, key) in sorted(self.short):
                if db == self.db:
                    self.do_touch(key, [b"EXISTS", key], "direct")

    def do_elapse(self, mode):
        """wait until every short deadline has passed.  "lazy": the sweeper stays paused, the keys are removed when a command
        looks at them (`touch` ops follow); "sweeper": the sweeper is let run until it has made a full pass, which removes them"""
        if not self.short:
            return
        wait = max(hi for lo, hi in self.short.values()) + 0.06 - time.monotonic()
        if wait > 0:
            time.sleep(wait)
        self.rep.count("expiry.elapse.%s" % mode)
        if mode != "sweeper":
            return
        before = len(self.aof())
        p0 = self.c.cmd("VERIF", "SWEEPER", "PASSES")[1]
        self.c.cmd("VERIF", "SWEEPER", "RESUME")
        t_end = time.monotonic() + 10
        while self.c.cmd("VERIF", "SWEEPER", "PASSES")[1] < p0 + 2 and time.monotonic() < t_end:
            time.sleep(0.05)
        self.c.cmd("VERIF", "SWEEPER", "PAUSE")
        time.sleep(0.02)
        # the order in which the sweeper met the keys is the order of its DEL entries, if it writes any
        seen, _, _ = read_aof(self.aof()[before:])
        order, cur = [], None
        for cmd in seen:
            if cmd[0] == b"SELECT":
                cur = int(cmd[1])
            elif cmd[0] == b"DEL" and len(cmd) == 2:
                cands = [k for k in self.short if k[1] == cmd[1] and (cur is None or k[0] == cur) and k not in order]
                if cands:
                    order.append(cands[0])
        for k in sorted(self.short):
            if k not in order:
                order.append(k)
        for (db, key) in order:
            e = Event("expire", db=db, key=key, raw=[], reply=None, via_exec=False)
            self.events.append(self.feed(e))
            self.rep.count("expiry.removed-by.sweeper")
        self.short = {}
        if self.check_every_command:
            self.check_now("after the sweeper removed the expired keys")

    def do_touch(self, key, raw, path):
        """the first command that looks at `key` after its deadline: the server removes the key, then runs the command"""
        if (self.db, key) not in self.short:
            self.run_via(raw, path)
            return
        if time.monotonic() < self.short[(self.db, key)][1] + 0.03:
            self.do_elapse("lazy")
        if key not in raw and key not in (raw[3:] if len(raw) > 3 else []):
            # (the command does not name the key: remove it from the books here)
            del self.short[(self.db, key)]
            e = Event("expire", db=self.db, key=key, raw=[], reply=None, via_exec=False)
            self.events.append(self.feed(e))
        self.run_via(raw, path)          # event() notes the removal ahead of the command
        self.rep.count("expiry.removed-by.lazy.%s.%s" % (raw[0].decode().upper(), path))
        self.rep.nontrivial(("expiry-lazy", raw[0].upper(), path))

    def do_xclaim(self, key, min_idle, justid, pause_ms):
        """deliver an entry to consumer A, let it sit idle, have consumer B claim it with a min-idle-time: the outcome depends on
        the clock"""
        self.xid = getattr(self, "xid", 100) + 1
        i1, i2 = b"%d-1" % self.xid, b"%d-2" % self.xid
        self.direct([b"XADD", key, i1, b"job", b"a"])
        self.direct([b"XADD", key, i2, b"job", b"b"])
        self.direct([b"XGROUP", b"CREATE", key, b"g", b"0"])
        self.direct([b"XREADGROUP", b"GROUP", b"g", b"worker-A", b"COUNT", b"10", b"STREAMS", key, b">"])
        time.sleep(pause_ms / 1000.0)
        raw = [b"XCLAIM", key, b"g", b"worker-B", b"%d" % min_idle, i1, i2] + ([b"JUSTID"] if justid else [])
        e = self.direct(raw)
        n = len(e.reply[1]) if e.reply[0] == "a" else -1
        self.rep.count("xclaim.min-idle-%d.claimed-%d" % (min_idle, n))
        self.rep.nontrivial(("xclaim", min_idle, justid, n))

    def do_restart(self, save, how):
        """stop the live server (SIGTERM or kill -9) at this point of the history and start a new one on the same directory, same
        AOF settings.  Start-up does not replay the file (AofEngine::load executes nothing): the restarted server holds what it
        loads from dump.rdb.  `save`: a SAVE right before, so that the dataset is back; if what it holds afterwards is not the
        dataset it had (no SAVE, or the snapshot does not restore everything), the history goes on with a FLUSHALL — a logged
        command that puts the live server and every reader of the file into the same (empty) state.  In both cases the
        WHOLE file, both runs' entries, must replay to the live dataset at the end."""
        dbs = dbs_of(self.events, self.db)
        before = None
        if save:
            self.direct([b"SAVE"])
            before = self.dump_live(dbs)
        self.c.close()
        d, policy = self.live.dir, self.policy
        torn = False
        if how in ("kill9", "torn"):
            self.live.kill9()
            if how == "torn":
                # a crash in the middle of the last append: cut the file inside its last frame (if that frame is of this history)
                data = self.aof()
                cmds, tail, _ = read_aof(data[self.offset:])
                if cmds and tail == "clean":
                    last = len(Client.encode(cmds[-1]))
                    cut = 1 + (len(data) * 7 + len(cmds)) % (last - 1)
                    with open(self.aof_path, "r+b") as f:
                        f.truncate(len(data) - cut)
                    torn = True
                    # on a tree that keeps the torn bytes the file of this server is unreadable from here on, for good
                    self.poisoned = not self.facts.get("tornTailTruncated")
                    if self.ask("droplast") != "ok":
                        raise InternalError("drv_aof droplast")
        else:
            self.live.p.terminate()
            try:
                self.live.p.wait(timeout=5)
            except Exception:
                self.live.kill9()
        self.live.log.close()
        if policy is None:
            self.live = Server("c11-live%d" % self.n_live, appendonly=True, keep_dir=d)
        else:
            self.live = Server("c11-live%d" % self.n_live, appendonly=False, extra=["--config", os.path.join(d, "ferrous.conf")], keep_dir=d)
        self.c = self.live.client()
        self.db = 0
        self.scripts = {}
        after = self.dump_live(dbs)
        back = before is not None and after == before
        self.short = {}
        try:
            self.c.cmd("VERIF", "SWEEPER", "PAUSE") if self.sweeper_paused else None
        except Exception:
            pass
        e = Event("restart", raw=[], reply=None, via_exec=False, dataset_back=back, how=how, torn=torn)
        self.events.append(self.feed(e))
        self.rep.count("restart-in-history.%s.%s" % (how if how != "torn" or torn else "kill9", "dataset-back-from-snapshot" if back else ("snapshot-incomplete" if save else "no-snapshot")))
        self.rep.nontrivial(("restart", how, save, back))
        if not back:
            self.direct([b"FLUSHALL"])
        if self.check_every_command:
            self.check_now("after the restart")

    def do_hangup(self, key, left, push, sleep_ms, gap_ms):
        """a client blocked in BLPOP/BRPOP hangs up while another connection pushes to the key, the two as close together as the
        harness can make them (`sleep_ms` > 0: the server is first kept busy by SLEEP from a third connection, so that the
        hang-up and the push are both waiting when its loop goes on).  Whatever the server does with the element — keeps it,
        or pops it for the client that is gone — the file and the dataset must tell the same story."""
        if self.direct([b"TYPE", key]).reply != ("s", b"none"):
            return
        bname = b"BLPOP" if left else b"BRPOP"
        a = self.live.client()
        pusher = self.live.client()
        sleeper = self.live.client() if sleep_ms else None
        try:
            for c in (a, pusher):
                if self.db != 0 and c.cmd("SELECT", str(self.db)) != ("s", b"OK"):
                    raise InternalError("SELECT on a helper connection failed")
            a.send(bname, key, b"0")
            t_end = time.monotonic() + 20.0
            while True:
                reg = self.c.cmd("VERIF", "BLOCKED")
                if reg[0] == "a" and any(x == ("b", key) for x in reg[1]):
                    break
                if time.monotonic() > t_end:
                    raise InternalError("blocked client never appeared in VERIF BLOCKED")
                time.sleep(0.003)
            if sleeper is not None:
                sleeper.send(b"SLEEP", b"%d" % sleep_ms)
                time.sleep(0.01)
            a.close()
            if gap_ms:
                time.sleep(gap_ms / 1000.0)
            r = pusher.cmd(*push, timeout=10)
            if sleeper is not None:
                sleeper.read_reply(10)
            # the push ran on another connection of the same database: for the log it is a command like any other
            self.event(push, r)
            time.sleep(0.02)
            pushed = len(push) - 2 if r[0] == "i" else 0
            n = self.direct([b"LLEN", key]).reply
            left_over = n[1] if n[0] == "i" else 0
            gone = pushed - left_over
            self.rep.count("hangup.%s.%s" % ("busy-server" if sleep_ms else "idle-server", "element-popped-for-the-vanished-client" if gone > 0 else "element-kept"))
            self.rep.nontrivial(("hangup", bool(sleep_ms), gap_ms, gone > 0))
            for _ in range(max(0, gone)):
                e = Event("wake", db=self.db, left=left, key=key, value=b"", immediate=False)
                self.events.append(self.feed(e))
            if self.check_every_command:
                self.check_now("after a blocked client hung up during a push")
        finally:
            for c in (a, pusher, sleeper):
                if c is not None:
                    c.close()

    def do_bpop(self, key, left, push, via):
        t = self.direct([b"TYPE", key]).reply
        bname = b"BLPOP" if left else b"BRPOP"
        if t == ("s", b"list"):
            # immediate pop on the observed connection
            raw = [bname, key, b"0"]
            r = self.c.cmd(*raw, timeout=5)
            self.event(raw, r)
            if r[0] == "a" and len(r[1]) == 2:
                e = Event("wake", db=self.db, left=left, key=r[1][0][1], value=r[1][1][1], immediate=True)
                self.events.append(self.feed(e))
                last = [x for x in self.events[:-2] if x.kind == "wake" or x.model_entries > 0]
                self.rep.count("bpop-immediate.%s" % ("db-differs-from-previous-entry" if last and getattr(last[-1], "entry_db", self.db) != self.db else "same-db-as-previous-entry"))
                if self.check_every_command:
                    self.check_now("after an immediate %s" % bname.decode())
            return
        if t != ("s", b"none"):
            return
        a = self.live.client()
        try:
            if self.db != 0 and a.cmd("SELECT", str(self.db)) != ("s", b"OK"):
                raise InternalError("SELECT on the blocking client failed")
            a.send(bname, key, b"0")
            # wait until the registry of the selected database lists the key
            t_end = time.monotonic() + 20.0
            while True:
                reg = self.c.cmd("VERIF", "BLOCKED")
                if reg[0] == "a" and any(x == ("b", key) for x in reg[1]):
                    break
                if time.monotonic() > t_end:
                    early = None
                    try:
                        early = a.read_reply(0.2)
                    except (TimeoutError, Closed, ProtocolError):
                        pass
                    raise InternalError("blocked client never appeared in VERIF BLOCKED (registry %r, its reply so far %r)" % (reg, early))
                time.sleep(0.003)
            blocked_db = self.db
            if via == "exec":
                self.do_exec([push])
                pushed = self.events[-1]
            elif via == "exec-hop":
                # the push, then a SELECT and a write elsewhere in the same transaction: the blocked client is served after
                # EXEC, so its pop follows an entry that ran in another database
                other = (self.db + 5) % 16
                n0 = len(self.events)
                self.do_exec([push, [b"SELECT", b"%d" % other], [b"SET", b"k1", b"hop"]])
                pushed = self.events[n0] if len(self.events) > n0 else self.events[-1]
            elif via == "script":
                # the element arrives through redis.call: the blocked client is served once the script is over
                pushed = self.direct([b"EVAL", WRAPPER, b"0"] + push)
            elif via == "rename":
                # the elements arrive under another name and are renamed onto the awaited key
                tmp = key + b"-tmp"
                self.direct([b"DEL", tmp])
                self.direct([push[0], tmp] + push[2:])
                pushed = self.direct([b"RENAME", tmp, key])
            else:
                pushed = self.direct(push)
            self.rep.count("bpop.served-path.%s" % via)
            pushed_ok = pushed.reply is not None and (pushed.reply[0] == "i" or pushed.reply == ("s", b"OK"))
            try:
                r = a.read_reply(3.0 if pushed_ok else 0.2)
            except TimeoutError:
                r = None
            if r is not None and r[0] == "a" and len(r[1]) == 2:
                e = Event("wake", db=blocked_db, left=left, key=key, value=r[1][1][1], immediate=False)
                self.events.append(self.feed(e))
                self.rep.evaluations += 1
                if self.check_every_command:
                    self.check_now("after a blocked client was served")
            elif pushed_ok:
                self.blocked_timeouts += 1
        finally:
            a.close()
            time.sleep(0.01)

    # ---- oracles
    def check_now(self, when):
        """AT ALL TIMES: the server has answered everything sent so far and is idle; the bytes on disk must be complete frames
        and must hold every entry of the history so far (append_command hands each entry to the OS — `writer.flush()` —
        under every fsync policy; fsync itself, i.e. durability against power loss, is not observable here)"""
        data, cmds, tail = self.check_whole_frames(when)
        if not self.table or self.lag_failures:
            return
        appended = data[self.offset:]
        want = unhx(self.ask("file"))
        self.rep.evaluations += 1
        self.rep.count("at-all-times.checks.%s" % (self.policy or "default-everysec"))
        if appended != want and want.startswith(appended):
            have, t, _ = read_aof(appended)
            exp, _, _ = read_aof(want)
            self.lag_failures.append({"when": when, "events_acknowledged": len(self.events), "entries_in_file": len(have),
                                      "entries_expected": len(exp), "tail": t, "bytes_in_file": len(appended), "bytes_expected": len(want),
                                      "first_missing": [hx(a) for a in exp[len(have)]] if len(have) < len(exp) else None})

    def check_whole_frames(self, when):
        data = self.aof()
        cmds, tail, off = read_aof(data)
        self.rep.evaluations += 1
        if tail != "clean":
            self.frame_failures.append({"when": when, "tail": tail, "offset": off, "around": hx(data[max(0, off - 40):off + 60])})
        return data, cmds, tail

    def replay_into_fresh(self, cmds, dbs):
        """send the commands in order over a fresh connection to the (emptied) replay server; dump"""
        c = self.replay_srv.client()
        try:
            if c.cmd("FLUSHALL") != ("s", b"OK"):
                raise InternalError("cannot reset the replay server")
            c.cmd("SCRIPT", "FLUSH")
        finally:
            c.close()
        c = self.replay_srv.client()      # fresh connection: database 0
        try:
            for cmd in cmds:
                if not cmd:
                    continue
                if cmd[0].upper() in (b"BLPOP", b"BRPOP", b"SHUTDOWN", b"DEBUG", b"SLEEP", b"REPLICAOF", b"SLAVEOF", b"CLIENT", b"CONFIG"):
                    continue
                c.cmd(*cmd)
            return {d: dump_db(c, d) for d in dbs}
        finally:
            c.close()

    def dump_live(self, dbs):
        c = self.live.client()
        try:
            return {d: dump_db(c, d) for d in dbs}
        finally:
            c.close()


def dbs_of(events, db):
    s = {0, db}
    for e in events:
        if e.kind in ("wake", "expire"):
            s.add(e.db)
        elif e.name() == "SELECT" and len(e.raw) == 2 and e.raw[1].isdigit() and int(e.raw[1]) < 16:
            s.add(int(e.raw[1]))
    return sorted(s)


def judge(R, plan, db, ks_only, fs, tag, check_every_command=False, policy="keep"):
    """run one history and evaluate the oracles; returns a dict:
       oracle: list of failures (each with 'cause' None | cause key), disagree: list of model disagreements"""
    rep = R.rep
    if policy != "keep" and policy != R.policy:
        R.new_live(policy)
    events = R.run_plan(plan, db, check_every_command)
    res = {"oracle": [], "disagree": [], "active": []}
    hist = {"db": db, "plan": plan, "ks_only": ks_only, "policy": R.policy, "check_every_command": check_every_command}
    for lf in R.lag_failures:
        res["oracle"].append({"kind": "lag", "cause": "torn" if any(e.kind == "restart" and getattr(e, "torn", False) for e in events) and not R.facts.get("tornTailTruncated") else None,
                              "detail": lf, "history": hist,
                              "why": "appendfsync %s: %s, with %d events acknowledged and the server idle, the file holds %d of the %d entries of the history so far"
                                     " (%d of %d bytes%s): replaying it now would not give the live dataset"
                                     % (R.policy or "default (everysec)", lf["when"], lf["events_acknowledged"], lf["entries_in_file"], lf["entries_expected"],
                                        lf["bytes_in_file"], lf["bytes_expected"], ", ending in a torn frame" if lf["tail"] == "torn" else "")})
    # (a) whole frames
    data, all_cmds, tail = R.check_whole_frames("after the history")
    torn_kept = any(e.kind == "restart" and getattr(e, "torn", False) for e in events) and not R.facts.get("tornTailTruncated")
    for ff in R.frame_failures:
        res["oracle"].append({"kind": "frames", "cause": "torn" if torn_kept else None, "why": "appendfsync %s: the file is not a sequence of complete command frames %s (%s)"
                              % (R.policy or "default (everysec)", ff["when"], ff["tail"]), "detail": ff, "history": hist})
    if tail != "clean":
        if torn_kept and not R.frame_failures:
            res["oracle"].append({"kind": "frames", "cause": "torn", "history": hist,
                                  "why": "after a crash in the middle of an append and a restart, the next entry was appended inside the unfinished frame: "
                                         "the file is not a sequence of complete command frames any more"})
        return res
    if not R.lag_failures and R.table:
        # the same at the end of the history (every history, every policy)
        want_end = unhx(R.ask("file"))
        if data[R.offset:] != want_end and want_end.startswith(data[R.offset:]):
            have, _, _ = read_aof(data[R.offset:])
            exp, _, _ = read_aof(want_end)
            res["oracle"].append({"kind": "lag", "cause": None, "history": hist,
                                  "why": "appendfsync %s: after the history (everything acknowledged, server idle) the file holds %d of its %d entries"
                                         % (R.policy or "default (everysec)", len(have), len(exp))})
            return res
    appended = data[R.offset:]
    file_cmds, t2, _ = read_aof(appended)
    if t2 != "clean":
        res["oracle"].append({"kind": "frames", "cause": None, "why": "the bytes appended during the history do not start at a frame boundary", "history": hist})
        return res
    rep.count("file.entries", len(file_cmds))
    # (b) the log of the model, byte for byte; and the prediction of the python transliteration
    if R.table:
        model_file = unhx(R.ask("file"))
        if model_file != appended:
            mcmds, _, _ = read_aof(model_file)
            res["disagree"].append({"kind": "log", "why": "the bytes appended to the file differ from fileOf (log (Cfg.code Gen.writeCommands) h)",
                                    "file": [[hx(a) for a in c] for c in file_cmds][:80], "model": [[hx(a) for a in c] for c in mcmds][:80], "history": hist})
            # the oracle behind it: every mutating command that took effect is represented once, in execution order
        pl = R.spec(events, set())
        if pl != file_cmds:
            res["disagree"].append({"kind": "log-py", "why": "the file differs from the harness's transliteration of the logging rule",
                                    "file": [[hx(a) for a in c] for c in file_cmds][:80], "predicted": [[hx(a) for a in c] for c in pl][:80], "history": hist})
        # the model's strict reader and ferrous's incremental parser (model) on the real bytes
        if len(appended) < 6000:
            rd = R.ask("read " + hx(appended))
            want = (" ; ".join("|".join(hx(a) for a in c) for c in file_cmds) if file_cmds else ".") + " # clean"
            rep.evaluations += 1
            if rd != want:
                res["disagree"].append({"kind": "reader", "why": "Aof.readLog on the file differs from the harness's reader", "model": rd[:400], "harness": want[:400], "history": hist})
            if 0 < len(appended) < 3000:
                # the model of ferrous's incremental parser, fed the real bytes in an uneven chunking (log_parses_under_any_chunking)
                sizes, chunks, i, j = [1, 7, 64, 3, 500, 2, 29], [], 0, len(appended) % 7
                while i < len(appended):
                    n = sizes[j % len(sizes)]
                    chunks.append(appended[i:i + n])
                    i += n
                    j += 1
                got = R.ask("chunks " + "|".join(hx(c) for c in chunks))
                rep.evaluations += 1
                if got != want[:-len(" # clean")]:
                    res["disagree"].append({"kind": "chunked-parser", "why": "runChunks on the real file bytes does not yield the file's commands",
                                            "model": got[:400], "harness": want[:400], "history": hist})
    if torn_kept and res["disagree"]:
        # the torn bytes and the first entry of the new run can also fuse into ONE well-formed but different command
        # (`*3 $7 ZPOPM` + `*2 $6 SELECT $1 0` reads as ['ZPOPM*2', 'SELECT', '0']): whole frames, but not the log
        res["oracle"].append({"kind": "frames", "cause": "torn", "history": hist, "detail": res["disagree"][0].get("file", [])[:12],
                              "why": "after a crash in the middle of an append and a restart, the next entry fused with the unfinished frame into another command: "
                                     "the file is not the sequence of the commands that were appended"})
        res["disagree"] = []
    # (c) replay into a fresh server
    dbs = dbs_of(events, db)
    live = R.dump_live(dbs)
    to_replay = list(file_cmds)
    if R.sabotage == "drop-entry" and to_replay:
        to_replay = to_replay[:-1]
    rp = R.replay_into_fresh(to_replay, dbs)
    rep.evaluations += 1
    rep.traces_validated += 1
    same = live == rp
    in_model = all(e.in_model for e in events)
    covered = all(e.covered for e in events)
    has_script = any(e.kind == "cmd" and e.name() == "EVAL" for e in events)
    res.update({"same": same, "in_model": in_model, "covered": covered})
    rep.count("history.%s" % ("replay=live" if same else "replay!=live"))
    if not same:
        present = [c for c in R.causes if R.spec(events, {c}) != R.spec(events, set())]
        full = R.spec(events, set(R.causes))
        rfull = R.replay_into_fresh(full, dbs)
        det = {"kind": "replay", "history": hist, "events": [e.json() for e in events][:120], "file": [[hx(a) for a in c] for c in file_cmds][:120],
               "live": live, "replayed": rp, "causes_present": present}
        if torn_kept:
            # the file itself is damaged (the unfinished frame swallowed the entries that followed, e.g. the SELECT of the new run)
            det.update({"cause": "torn", "why": "after a crash in the middle of an append and a restart the next entries fused with the unfinished frame: "
                                                "the file does not replay to the live dataset"})
            res["oracle"].append(det)
        elif rfull != live or not present:
            det.update({"cause": None, "repaired": rfull, "repaired_log": [[hx(a) for a in c] for c in full][:120],
                        "why": ("replaying the file does not reproduce the live dataset, and neither does the log repaired for every known cause (%s)" % ",".join(present))
                        if present else "replaying the file does not reproduce the live dataset although the history contains none of the known causes"})
            res["oracle"].append(det)
        else:
            active = []
            for c in present:
                partial = R.spec(events, set(R.causes) - {c})
                if R.replay_into_fresh(partial, dbs) != live:
                    active.append(c)
            if not active:
                active = present
            res["active"] = active
            for c in active:
                d2 = dict(det)
                d2.update({"cause": c, "why": "replaying the file does not reproduce the live dataset (cause: %s)" % c})
                if c == "names":
                    d2["names"] = sorted({e.name() for e in events if e.kind == "cmd" and e.name() in MUTATING and e.name() not in R.table and e.name() not in ("BLPOP", "BRPOP")})
                res["oracle"].append(d2)
    elif covered and in_model:
        rep.count("theorem-prediction.confirmed")
    # the theorem's prediction on the implementation: all events covered and inside the model ⇒ replay = live
    if covered and in_model and ks_only and not same and not any(o["cause"] is None for o in res["oracle"]):
        res["disagree"].append({"kind": "prediction", "why": "every event is covered by the log according to the model, yet replay != live on the implementation",
                                "live": live, "replayed": rp, "history": hist})
    # (d) the model's datasets against the two servers
    if in_model and ks_only and R.table:
        now = R.now()
        for d in dbs:
            ml = R.ask("dump %d %d" % (d, now + 10))
            rep.evaluations += 1
            if ml != model_view(live[d]):
                key = "script-parity-drift" if has_script else "live"
                if has_script:
                    rep.count("model.script-parity-drift")
                else:
                    res["disagree"].append({"kind": key, "why": "Lean `live` and the live server hold different datasets in db %d" % d,
                                            "model": ml[:600], "impl": model_view(live[d])[:600], "history": hist})
            if not any(e.kind == "cmd" and e.eff() == "SPOP" and e.model_entries > 0 and (e.name() == "EVAL" or not R.facts.get("randomByEffect")) for e in events):
                mr = R.ask("replaydump %d %d %d" % (now + 5, d, now + 10))
                rep.evaluations += 1
                if mr != model_view(rp[d]) and not has_script and R.sabotage == "":
                    res["disagree"].append({"kind": "replay-model", "why": "Lean `replayAt (log h)` and the replayed server hold different datasets in db %d" % d,
                                            "model": mr[:600], "impl": model_view(rp[d])[:600], "history": hist})
    if R.blocked_timeouts:
        rep.count("bpop.pushed-but-not-served", R.blocked_timeouts)
    # distribution: for every kind of entry, how often it ran in another database than the previous entry of the file
    # (the model then emits a SELECT first: two entries for the event)
    for e in events:
        if e.model_entries == 0:
            continue
        if e.kind == "wake":
            kind = "blocking-pop-at-once" if e.immediate else "blocking-pop-served"
        elif e.kind == "expire":
            kind = "expiry-del"
        elif e.name() == "EVALSHA":
            kind = "evalsha-as-eval" if R.facts.get("evalshaAsEval") else "evalsha"
        elif e.name() == "EVAL":
            kind = "script"
        elif R.facts.get("randomByEffect") and e.name() == "SPOP":
            kind = "by-effect-srem"
        elif R.facts.get("randomByEffect") and e.name() == "XADD" and len(e.raw) > 2 and e.raw[2] == b"*":
            kind = "by-effect-xadd-id"
        else:
            kind = "exec" if e.via_exec else "direct"
        changed = e.model_entries >= 2
        rep.count("entry.%s.%s" % (kind, "db-differs-from-previous-entry" if changed else "same-db-as-previous-entry"))
        rep.nontrivial(("entry", kind, changed))
    after_restart = False
    for e in events:
        if e.kind == "restart":
            after_restart = True
            continue
        if after_restart and e.model_entries > 0:
            # the first entry of the new run: the engine does not know where a reader of the inherited file stands
            prev = [x for x in events[:events.index(e)] if x.kind not in ("restart",) and x.model_entries > 0]
            rep.count("entry.first-after-restart.db-%s.previous-run-ended-in-db-%s" % ("0" if e.entry_db == 0 else "N", "none" if not prev else ("0" if prev[-1].entry_db == 0 else "N")))
            rep.nontrivial(("first-after-restart", e.entry_db == 0, prev[-1].entry_db == 0 if prev else None, e.kind))
            after_restart = False
    for e in events:
        if e.kind in ("restart", "expire"):
            continue
        if e.kind == "wake":
            rep.count("path.%s" % ("blpop-immediate" if e.immediate else "wake"))
            rep.nontrivial(("wake", e.immediate, "L" if e.left else "R", e.db != 0))
            continue
        path = "exec" if e.via_exec else ("script" if e.name() == "EVAL" else "direct")
        rk = "none" if e.reply is None else ("err" if e.reply[0] == "e" else "ok")
        rep.count("path.%s" % path)
        rep.count("cmd.%s.%s" % (e.eff(), "logged" if e.model_entries else "unlogged"))
        rep.nontrivial((e.eff(), path, rk, e.model_entries > 0, R.db != 0))
    return res


# ------------------------------------------------------------------ fixed witnesses of the known findings
def witness_plans():
    S = lambda *a: [hx(x.encode() if isinstance(x, str) else x) for x in a]
    return [
        ("names", 0, [["direct", S("SET", "k", "v")], ["direct", S("GETSET", "k", "w")]]),
        ("names", 0, [["direct", S("HMSET", "h", "f", "v")]]),
        ("names", 0, [["direct", S("SET", "k", "v")], ["direct", S("PEXPIRE", "k", "100000")]]),
        ("names", 0, [["direct", S("XADD", "x", "1-1", "f", "v")], ["direct", S("XGROUP", "CREATE", "x", "g", "0")],
                      ["direct", S("XREADGROUP", "GROUP", "g", "c", "STREAMS", "x", ">")]]),
        ("blpop", 0, [["direct", S("RPUSH", "l", "a", "b")], ["bpop", hx(b"l"), "L", S("RPUSH", "l", "z"), "direct"]]),
        ("select", 2, [["direct", S("SET", "k", "db2")]]),
        ("random", 0, [["direct", S("SADD", "s", "a", "b", "c", "d", "e", "f", "g", "h")], ["direct", S("SPOP", "s", "4")]]),
        ("random", 0, [["direct", S("XADD", "x", "*", "f", "v")]]),
        ("random-script", 0, [["direct", S("SADD", "s", "a", "b", "c", "d", "e", "f", "g", "h")], ["script", S("SPOP", "s", "4")]]),
        ("wake", 0, [["bpop", hx(b"q"), "L", S("RPUSH", "q", "served"), "direct"]]),
        ("evalsha", 0, [["evalsha", hx(b"return redis.call('SET', ARGV[1], ARGV[2])"), S("k", "v")]]),
        # d1: SET counter 10 PX 120 / the key expires / INCR counter — live 1 without TTL, replay 11 with TTL
        ("expiry", 0, [["short", S("SET", "counter", "10", "PX", "120"), hx(b"counter"), 120, "direct"], ["elapse", "lazy"],
                       ["touch", hx(b"counter"), S("INCR", "counter"), "direct"]]),
        ("expiry", 0, [["direct", S("RPUSH", "queue", "old")], ["short", S("PEXPIRE", "queue", "120"), hx(b"queue"), 120, "direct"], ["elapse", "sweeper"],
                       ["direct", S("RPUSH", "queue", "new")]]),
        # d2: an entry idle for 150 ms is claimed with min-idle-time 60 — on replay it has been idle for microseconds
        ("xclaim", 0, [["xclaim", hx(b"xc"), 60, False, 150]]),
    ]


# ------------------------------------------------------------------ a script cut short by the time limit (runs beside the histories)
class ScriptTimeoutWitness(threading.Thread):
    """`EVAL "while true do redis.call('INCR', KEYS[1]) end" 1 n` on a live server of its own: the server stops it after its time limit
    (5 s); the partial effect stays.  The file is then replayed on an empty server of its own and the two counters compared."""

    def __init__(self):
        super().__init__(daemon=True)
        self.result = None

    def run(self):
        live = rep_srv = None
        try:
            live = Server("c11-limit-live", appendonly=True)
            c = live.client(timeout=60)
            t0 = time.monotonic()
            r = c.cmd("EVAL", "while true do redis.call('INCR', KEYS[1]) end", "1", "n", timeout=60)
            took = time.monotonic() - t0
            n_live = c.cmd("GET", "n")
            with open(os.path.join(live.dir, "appendonly.aof"), "rb") as f:
                cmds, tail, _ = read_aof(f.read())
            rep_srv = Server("c11-limit-replay")
            c2 = rep_srv.client(timeout=60)
            for cmd in cmds:
                c2.cmd(*cmd, timeout=60)
            n_rep = c2.cmd("GET", "n")
            self.result = {"reply": repr(r)[:120], "seconds": round(took, 1), "entries": [[a.decode("latin-1") for a in x] for x in cmds][:4], "tail": tail,
                           "live": repr(n_live), "replayed": repr(n_rep), "stopped_by_limit": r[0] == "e", "differ": n_live != n_rep}
        except Exception as e:          # the witness is an extra: its own trouble is recorded, not raised
            self.result = {"error": "%s: %s" % (type(e).__name__, e)}
        finally:
            for srv in (live, rep_srv):
                if srv is not None:
                    try:
                        srv.stop()
                    except Exception:
                        pass


# ------------------------------------------------------------------ kill -9
def kill_tests(R, r, fs, n_burst):
    """(1) kill -9 at a quiescent point: the file is whole frames and equals the model's file;
       (2) kill -9 in the middle of a pipelined burst: whole frames that are a prefix of the commands sent, plus at most a
           torn tail that is a proper prefix of the next command;  (3) the server starts again on its own file."""
    rep = R.rep
    fails, restart_obs = [], []
    for it in range(n_burst):
        R.new_live(POLICIES[(it + 2) % len(POLICIES)] if it else "no")
        rep.count("kill9.policy.%s" % (R.policy or "default-everysec"))
        rr = r.fork("kill%d" % it)
        binary = it % 2 == 1
        sent = []
        vals = [b"v", b"x" * 100, b"y" * 9000, b"\r\n*3\r\n$3\r\nSET\r\n", b"z" * 20000] + ([b"\xff\xfe\x00bin"] if binary else [])
        for i in range(rr.range(150, 400)):
            sent.append([b"SET", b"k%d" % rr.below(20), rr.choice(vals)] if rr.chance(3, 4) else [b"RPUSH", b"l%d" % rr.below(3), rr.choice(vals)])
        quiescent = it == 0
        c = R.live.client()
        if quiescent:
            for cmd in sent[:60]:
                c.cmd(*cmd)
            sent = sent[:60]
        else:
            payload = b"".join(Client.encode(x) for x in sent)
            c.s.setblocking(True)
            cut = rr.range(1, len(payload))
            try:
                c.s.sendall(payload[:cut])
                time.sleep(rr.range(0, 30) / 1000.0)
            except OSError:
                pass
        R.live.kill9()
        c.close()
        data = R.aof()
        cmds, tail, off = read_aof(data)
        rep.evaluations += 1
        rep.count("kill9.%s.%s" % ("quiescent" if quiescent else "burst", tail))
        rep.nontrivial(("kill9", quiescent, tail, len(cmds) > 0))
        det = {"kind": "kill9", "cause": None, "appendfsync": R.policy or "default (everysec)", "quiescent": quiescent, "commands_sent": len(sent),
               "frames_read": len(cmds), "tail": tail, "first_commands_sent": [[hx(a)[:80] for a in c] for c in sent[:5]]}
        if cmds != sent[:len(cmds)]:
            det["why"] = "after kill -9 the complete frames of the file are not a prefix of the commands sent"
            fails.append(det)
        elif quiescent and (tail != "clean" or len(cmds) != len(sent)):
            det["why"] = "after kill -9 at a quiescent point the file is not exactly the acknowledged commands"
            fails.append(det)
        elif tail == "corrupt":
            det["why"] = "after kill -9 the file has a tail that is not the beginning of a command frame"
            fails.append(det)
        elif tail == "torn":
            nxt = Client.encode(sent[len(cmds)]) if len(cmds) < len(sent) else b""
            if not (nxt.startswith(data[off:]) and len(data[off:]) < len(nxt)):
                det["why"] = "after kill -9 the torn tail is not a proper prefix of the next command sent"
                fails.append(det)
        # (3) restart on the same directory
        d = R.live.dir
        R.live.log.close()
        try:
            s2 = Server("c11-restart", appendonly=True, keep_dir=d)
            c2 = s2.client()
            n = c2.cmd("DBSIZE")
            c2.close()
            s2.stop(remove=False)
            restart_obs.append({"binary_values": binary, "started": True, "dbsize_after_restart": n[1] if n[0] == "i" else None, "frames_in_file": len(cmds)})
            rep.count("restart.started")
        except InternalError as e:
            restart_obs.append({"binary_values": binary, "started": False, "log": str(e)[-300:]})
            rep.count("restart.refused")
            fails.append({"kind": "restart", "cause": "non-utf8-start", "binary_values": binary,
                          "why": "the server does not start on the append-only file it wrote", "log": str(e)[-400:],
                          "non_utf8_in_file": not utf8_ok([data])})
        shutil.rmtree(d, ignore_errors=True)
        R.live = None
    R.new_live()
    rep.extra["restart_observations"] = restart_obs
    return fails


# ------------------------------------------------------------------ verdict
def match_finding(o, fs):
    cause = o.get("cause")
    if cause is None:
        return None
    want = CAUSE_MATCH.get(cause, cause)
    for f in fs:
        m = f.get("match", "")
        if m == want:
            if cause == "names":
                listed = set(f.get("names", []))
                if not set(o.get("names", [])) <= listed:
                    continue
            if cause == "non-utf8-start" and not o.get("non_utf8_in_file", False):
                continue
            return f
    return None


CAUSE_MATCH["non-utf8-start"] = "load-rejects-non-utf8"


def shrink(R, o, fs):
    h = o.get("history")
    if not h or o.get("kind") not in ("replay", "lag", "frames"):
        return o
    pol, every = h.get("policy"), h.get("check_every_command", False)

    def bad(res):
        return [x for x in res["oracle"] if x["kind"] == o["kind"] and x["cause"] == o["cause"] and match_finding(x, fs) is None]

    def fails(plan):
        try:
            res = judge(R, plan, h["db"], False, fs, "shrink", check_every_command=every, policy=pol)
        except (InternalError, Closed, ProtocolError, OSError, TimeoutError):
            return False
        return bool(bad(res))
    try:
        if not fails(h["plan"]):
            return o
        small = shrink_list(h["plan"], fails, max_steps=60)
        res = judge(R, small, h["db"], False, fs, "shrink", check_every_command=every, policy=pol)
        if bad(res):
            return bad(res)[0]
    except (InternalError, Closed, ProtocolError, OSError, TimeoutError):
        pass
    return o


def show_plan(plan):
    out = []
    for op in plan:
        if op[0] in ("direct", "script"):
            out.append("%s %s" % (op[0], " ".join(repr(unhx(a).decode("latin-1")) for a in op[1])))
        elif op[0] == "exec":
            out.append("exec [" + " ; ".join(" ".join(repr(unhx(a).decode("latin-1")) for a in c) for c in op[1]) + "]")
        elif op[0] == "short":
            out.append("%s %s   (time to live %d ms on %r)" % (op[4], " ".join(repr(unhx(a).decode("latin-1")) for a in op[1]), op[3], unhx(op[2]).decode("latin-1")))
        elif op[0] == "elapse":
            out.append("... the short deadlines pass (%s) ..." % ("the sweeper removes the keys" if op[1] == "sweeper" else "sweeper paused: the keys stay until a command looks at them"))
        elif op[0] == "touch":
            out.append("%s %s   (first look at %r after its deadline)" % (op[3], " ".join(repr(unhx(a).decode("latin-1")) for a in op[2]), unhx(op[1]).decode("latin-1")))
        elif op[0] == "xclaim":
            out.append("XADD x2 / XGROUP CREATE / XREADGROUP worker-A on %r; %d ms later XCLAIM … worker-B %d …%s" % (unhx(op[1]).decode("latin-1"), op[4], op[2], " JUSTID" if op[3] else ""))
        elif op[0] == "lua":
            out.append("%s %r numkeys=%d %s via %s" % (op[1], unhx(op[2]).decode("latin-1"), op[3], " ".join(repr(unhx(a).decode("latin-1")) for a in op[4]), op[5]))
        elif op[0] == "restart":
            out.append("restart (%s, %s)" % ("SAVE first" if op[1] else "no snapshot", op[2]))
        elif op[0] == "hangup":
            out.append("hangup: client blocked in %s %r closes while another connection does %s (server kept busy %d ms, gap %d ms)"
                       % ("BLPOP" if op[2] == "L" else "BRPOP", unhx(op[1]).decode("latin-1"), " ".join(repr(unhx(a).decode("latin-1")) for a in op[3]), op[4], op[5]))
        elif op[0] == "bpop":
            out.append("bpop %r %s push=%s via %s" % (unhx(op[1]).decode("latin-1"), op[2], " ".join(repr(unhx(a).decode("latin-1")) for a in op[3]), op[4]))
        else:
            out.append(" ".join(str(x) for x in op))
    return out


def main(tier, seed):
    rep = Report(PID, tier, seed)
    rep.rule = ("histories of 15-45 ops over the write catalogue of the server (65 key-space commands incl. every string/list/set/hash/expiry write, "
                "plus ZADD/ZREM/ZINCRBY/ZPOPMIN/ZPOPMAX, XADD/XTRIM/XDEL/XGROUP/XREADGROUP/XACK, BGREWRITEAOF) over a small colliding key universe "
                "with binary keys/values, through four paths (direct, MULTI/EXEC incl. SELECT inside, EVAL wrapper, BLPOP/BRPOP immediate and served) "
                "in db 0 and in another db; after each history: own-reader parse of the AOF (whole frames), bytes appended == Lean log, replay of the "
                "file into a fresh server and comparison of canonical dumps (values + TTL presence) of every database touched, repaired-log replay to "
                "attribute differences to causes; kill -9 at rest and mid-burst; restart on the file. The fsync policy is a dimension: blocks of 10 histories "
                "per live server under {command-line default, always, no, everysec} (configuration file written by the check); AT ALL TIMES: after EVERY "
                "acknowledged command of a third of the histories (and of the first history of every server) the bytes on disk must be complete frames and "
                "equal the model's log so far, under every policy (append_command flushes per append under all three). "
                "distinct = (effective command, path, reply class, logged?, db != 0) tuples reached")
    rep.assumptions = [
        "TIME PASSES in an eighth of the histories: keys of every type get a 150 ms time to live (direct, EXEC, script), the deadline passes, and the sweeper "
        "(let run for a pass) or the first command that looks at the key (sweeper paused; reads and writes, three paths) removes it; every short deadline has "
        "passed and every dead key has been removed before datasets are compared.  All other TTLs are >= 100 s, so nothing expires during a replay "
        "(deadlines are logged relative; the theorems speak about TTL presence, not remaining time)",
        "command names are ASCII (Rust's to_uppercase maps U+017F/U+0131 to S/I; the model upper-cases ASCII only)",
        "all arguments are bulk strings (a client may send other frame types inside the array; append_command writes them verbatim)",
        "the script path is modelled for the wrapper `return redis.call(unpack(ARGV))` with redis.call = the direct command (C12's property); other scripts and "
        "sorted-set/stream/blocking commands are outside the Lean model and covered by the TCP replay comparison only",
        "page-cache visibility: append_command flushes its BufWriter on every command under every fsync policy, so a reader of the file sees "
        "every acknowledged command and kill -9 of the process loses nothing that was flushed (power loss / fsync is the OS's)",
    ]
    ok, log, errs = proof_phase(rep, families=["aof"])
    build_server()
    fs = findings()
    facts = source_facts()
    rep.extra["source_facts"] = {k: v for k, v in facts.items() if k != "dispatchNames"}
    r = Rng(seed)
    oracle, disagree, confirmed = [], [], {}
    R = Runner(rep, facts)
    limit_witness = ScriptTimeoutWitness()
    limit_witness.start()
    try:
        # fixed witnesses of the known causes first (known-finding replays)
        witnessed = set()
        for cause, db, plan in witness_plans():
            res = judge(R, plan, db, False, fs, "witness")
            oracle += res["oracle"]
            disagree += res["disagree"]
            if cause in res["active"]:
                witnessed.add(cause)
        n_hist = 240 if tier == "quick" else 3000
        for h in range(n_hist):
            rr = r.fork("h%d" % h)
            profile = rr.choice(PROFILES)
            ks_only = rr.chance(1, 2)
            covered_only = rr.chance(1, 3)
            timed = rr.chance(1, 8)
            db = 0 if covered_only or rr.chance(1, 2) else rr.range(1, 15)
            plan = gen_plan(rr, profile, ks_only, rr.range(8, 20) if timed else rr.range(15, 45), covered_only, timed)
            if timed:
                rep.count("history.time-passes")
            # the fsync policy is a dimension of the run: one block of histories per live server, the policies in rotation
            # (the first block keeps the command-line default, the others get a configuration file)
            policy = POLICIES[(h // HIST_PER_LIVE) % len(POLICIES)]
            if R.hist_on_live >= HIST_PER_LIVE or R.policy != policy:
                R.new_live(policy)
            R.hist_on_live += 1
            every = h % 3 == 0 or R.hist_on_live == 1
            rep.count("policy.%s%s" % (policy or "default-everysec", ".judged-after-every-command" if every else ""))
            rep.nontrivial(("policy", policy, profile, every))
            res = judge(R, plan, db, ks_only, fs, "h%d" % h, check_every_command=every)
            oracle += res["oracle"]
            disagree += res["disagree"]
            rep.count("profile.%s.%s%s" % (profile, "db0" if db == 0 else "dbN", ".covered-only" if covered_only else ""))
            if covered_only and not res.get("same", True) and not any(o["cause"] is None for o in res["oracle"]):
                # a history built to be covered diverged for a listed cause: the generator's notion of "covered" is stale
                rep.count("covered-only.diverged")
            if h < 3:
                rep.sample({"db": db, "profile": profile, "plan": show_plan(plan)[:20], "replay_equals_live": res.get("same"),
                            "all_events_covered": res.get("covered"), "causes_active": res["active"]})
        oracle += kill_tests(R, r, fs, 6 if tier == "quick" else 40)
        limit_witness.join(timeout=120)
        rep.extra["script_time_limit_witness"] = limit_witness.result
        lw = limit_witness.result or {}
        if lw.get("stopped_by_limit") and lw.get("differ"):
            oracle.append({"kind": "script-timeout", "cause": "script-timeout", "detail": lw,
                           "why": "a script stopped by the time limit after writing is logged by its text: live n = %s, replayed n = %s" % (lw["live"], lw["replayed"])})
        # ---- verdict (DESIGN 2.5)
        new = []
        for o in oracle:
            f = match_finding(o, fs)
            if f:
                confirmed.setdefault(f["id"], f)
            else:
                new.append(o)
        for fid, f in confirmed.items():
            rep.known(fid, f["what"])
        if new:
            # prefer a failure that carries a history (replayable, shrinkable), the smallest first
            new.sort(key=lambda o: (0 if o.get("history") else 1, len(json.dumps(o.get("history", {})))))
            o = shrink(R, new[0], fs)
            h = o.get("history") or {}
            rep.violation("C11 %s oracle fails on the implementation: %s" % (o["kind"], o["why"]),
                          {"replay": o, "plan_text": show_plan(h.get("plan", [])), "family": "aof",
                           "others": [{"why": x["why"], "cause": x.get("cause")} for x in new[1:8]], "lean_errors": errs[:5]})
        elif not ok:
            rep.violation("proof obligations of C11 no longer check against the regenerated tables (Gen/Aof.lean)",
                          {"theorem_errors": errs[:10], "log_tail": log[-3000:], "source_facts": rep.extra["source_facts"]}, no_input=True)
        elif disagree:
            rep.violation("correspondence Ferrous.Aof (log / live / replay) vs ferrous over TCP broke (%d disagreements) although the property oracles hold" % len(disagree),
                          {"correspondence": "Aof.log, Aof.live, Aof.replayAt vs appendonly.aof and two servers", "disagreements": disagree[:6]}, no_input=True)
        else:
            # a listed finding whose fixed witness no longer diverges: the proof base (exception lists, witness lemmas) is stale
            bin_restarts = [o for o in rep.extra.get("restart_observations", []) if o.get("binary_values")]
            if bin_restarts and all(o.get("started") for o in bin_restarts):
                witnessed.add("non-utf8-start-repaired")
            for f in fs:
                cause = [c for c, m in CAUSE_MATCH.items() if m == f.get("match")]
                if cause and cause[0] == "non-utf8-start" and "non-utf8-start-repaired" in witnessed and f["id"] not in confirmed:
                    rep.violation("known finding %s no longer reproduces (the server restarts on a file with binary arguments): KNOWN_FINDINGS is stale" % f["id"],
                                  {"finding": f, "restarts": bin_restarts}, no_input=True)
                if cause and cause[0] in CAUSES and cause[0] not in witnessed and f["id"] not in confirmed:
                    rep.violation("known finding %s no longer reproduces on its witness: KNOWN_FINDINGS / Spec.notLogged / witness lemmas are stale" % f["id"],
                                  {"finding": f, "obligation": f.get("lean_witness")}, no_input=True)
        rep.extra["model_disagreements"] = len(disagree)
        rep.extra["oracle_failures"] = len(oracle)
        rep.extra["oracle_failures_by_cause"] = {str(c): sum(1 for o in oracle if o.get("cause") == c) for c in {o.get("cause") for o in oracle}}
    finally:
        R.close()
    return rep.finish()


def replay(path):
    """Re-execute the history of a replay file against the server built from the current tree."""
    obj = json.load(open(path))
    rp = obj.get("replay") or obj
    h = rp.get("history")
    if not h:
        print("replay file carries no history (kind %s): %s" % (rp.get("kind"), rp.get("why")))
        return 1
    rep = Report(PID, "replay", obj.get("seed", 0))
    build_driver("aof")
    build_server()
    fs = findings()
    R = Runner(rep, source_facts())
    try:
        res = judge(R, h["plan"], h["db"], h.get("ks_only", False), fs, "replay", check_every_command=h.get("check_every_command", False),
                    policy=h.get("policy"))
        print("appendfsync: %s" % (h.get("policy") or "default (everysec)"))
        for line in show_plan(h["plan"]):
            print("  " + line)
        print("db: %d   replay == live: %s   all events covered: %s" % (h["db"], res.get("same"), res.get("covered")))
        bad = 0
        for o in res["oracle"]:
            f = match_finding(o, fs)
            print("ORACLE-FAILURE %s cause=%s%s: %s" % (o["kind"], o.get("cause"), " (known: %s)" % f["id"] if f else "", o["why"]))
            if o["kind"] == "replay":
                for d in sorted(o["live"]):
                    if o["live"][d] != o["replayed"][d]:
                        print("   db %s live     : %s" % (d, o["live"][d][:300]))
                        print("   db %s replayed : %s" % (d, o["replayed"][d][:300]))
            bad += f is None
        for d in res["disagree"]:
            print("MODEL-DISAGREEMENT %s: %s" % (d["kind"], d["why"]))
        print("replay: %d oracle failures (%d outside known findings), %d model disagreements" % (len(res["oracle"]), bad, len(res["disagree"])))
        return 1 if bad or res["disagree"] else 0
    finally:
        R.close()
