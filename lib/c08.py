"""C08 — WATCH: a change of a watched key between WATCH and EXEC makes EXEC return nil and execute
nothing; no change, no abort; UNWATCH / EXEC / DISCARD forget.

Deciding artefact: lean/FerrousSpec/Props/C08.lean (no-false-abort and soundness over all histories of
the tracker/connection machine `Ferrous.Watch.step`, the regenerated table of storage functions).
This module ties that machine to the real server over TCP:

  * every client command is sent to the server and mirrored, as an event, to the Lean driver
    `drv_watch`.  What a data command did to its keys is OBSERVED (dump of each key before/after
    through a control connection that only reads) and handed to the model as the operation's effect;
    whether the operation bumps the WATCH counter is the model's business: it combines the regenerated
    table (`Gen.storageFns`: which key parameters reach `mark_modified`) with its mark discipline.
  * at every EXEC three things are compared: the server's reply (nil / array), the code model's reply,
    and the Spec's verdict (mustNil: a watched key changed; mustRun: nothing ran on any watched key;
    open: a write ran on it and left it as it was).  The EXEC'd transaction writes a probe key; "nil
    executes nothing, array executes" is checked on that key.
  * matrix: write command x state of the watched key (6 types, absent, string/list with TTL) x path
    (other connection, same connection, inside another EXEC, inside EVAL), the same commands on OTHER
    keys (same shard / other shard), and scenarios (served blocking pop, expiry by deadline with the
    sweeper paused and running, forgetting, re-WATCH, SELECT between WATCH and UNWATCH/EXEC).
"""
import zlib

from common import *
from server import Server, Closed, ProtocolError

sys.path.insert(0, os.path.join(VERIF, "translator"))

PID = "C08"
PENDING_FINDINGS = os.path.join(VERIF, "pending_repo_patches", "C08_findings.json")
EVAL_SCRIPT = b"return redis.call(unpack(ARGV))"
A, B, C = 0, 1, 2          # connection ids: the watcher, another client, a third one
PROBE = b"probe"            # the key written by the watcher's transaction


def findings():
    fs = [f for f in load_known_findings().get("open", []) if isinstance(f, dict) and f.get("property") == PID]
    have = {f["id"] for f in fs}
    if os.path.exists(PENDING_FINDINGS):
        for f in json.load(open(PENDING_FINDINGS)):
            if f.get("property") == PID and f["id"] not in have:
                fs.append(f)
    ign = os.environ.get("VERIF_C08_IGNORE_FINDINGS")    # self-test of the violation path only: "all" or ids
    if ign:
        fs = [] if ign == "all" else [f for f in fs if f["id"] not in ign.split(",")]
    return fs


FALLBACK_FNS = ["set_value", "set_string", "set_string_ex", "set_string_nx", "set_string_nx_ex", "get", "delete", "expire", "pexpire",
                "persist", "incr", "incr_by", "append", "setrange", "lpush", "rpush", "lpop", "rpop", "lset", "ltrim", "lrem", "sadd",
                "srem", "spop", "hset", "hdel", "hincrby", "zadd", "zrem", "zincrby", "xadd", "xadd_with_id", "xdel", "xtrim",
                "expiration_cleanup_loop"]


def table_rows():
    """-> (rows, note).  The translator's rows (the same that become Gen.storageFns).  When the translator no longer
    recognises the source the table theorems cannot check; the dynamic search still needs a table to drive the
    model, so the prescribed one is used (every write marks): the Spec judges, and a disagreement of that model with
    the server is then only reported if no failing input is found."""
    import extract
    import watch_facts
    rows = watch_facts.rows(extract.src, extract.strip_comments)
    if isinstance(rows, str):
        fb = [{"name": n, "keyParams": ["key"], "mutates": True, "marked": ["key"], "marksAll": False} for n in FALLBACK_FNS]
        fb.append({"name": "rename", "keyParams": ["old_key", "new_key"], "mutates": True, "marked": ["old_key", "new_key"], "marksAll": False})
        fb.append({"name": "flush_db", "keyParams": [], "mutates": True, "marked": [], "marksAll": True})
        fb.append({"name": "touch", "keyParams": ["key"], "mutates": True, "marked": ["key"], "marksAll": False})
        return fb, rows
    if not any(x["name"] == "touch" for x in rows):
        # no StorageEngine::touch in this tree: the consumer-group writes reach no engine function at all, which for the
        # model is a storage call that marks nothing
        rows = rows + [{"name": "touch", "keyParams": ["key"], "mutates": True, "marked": [], "marksAll": False, "synthetic": True}]
    return rows, None


def table_quirks():
    """-> ((perDb, rewatchKeeps, watchPurges), notes): as the translator reads them from the source (= Gen.watchQ); a shape
    it does not recognise gives the pessimistic value of that switch and a note (Gen.watchQRecognised = false)"""
    import extract
    import watch_facts
    q = watch_facts.quirks(extract.src, extract.strip_comments, extract.fn_body)
    return tuple(int(x) for x in q["q"]), q["notes"]


def b(x):
    return x if isinstance(x, bytes) else str(x).encode()


def up(x):
    return b(x).decode("latin-1").upper()


# ------------------------------------------------------------------ which storage calls a command makes
READS = {"GET", "MGET", "STRLEN", "GETRANGE", "EXISTS", "TYPE", "TTL", "PTTL", "KEYS", "DBSIZE", "RANDOMKEY", "LLEN", "LRANGE",
         "LINDEX", "SMEMBERS", "SISMEMBER", "SCARD", "SUNION", "SINTER", "SDIFF", "SRANDMEMBER", "HGET", "HMGET", "HGETALL",
         "HLEN", "HEXISTS", "HKEYS", "HVALS", "ZSCORE", "ZCARD", "ZRANK", "ZREVRANK", "ZRANGE", "ZREVRANGE", "ZRANGEBYSCORE",
         "ZREVRANGEBYSCORE", "ZCOUNT", "XRANGE", "XREVRANGE", "XLEN", "XREAD", "SCAN", "HSCAN", "SSCAN", "ZSCAN", "PING", "ECHO",
         "XPENDING", "XINFO", "INFO", "VERIF"}
TXCTL = {"WATCH", "UNWATCH", "MULTI", "EXEC", "DISCARD", "SELECT"}


def is_ok(r):
    return r in (("s", b"OK"), ("b", b"OK"))


def is_one(r):
    return r == ("i", 1)


def not_err(r):
    return r[0] != "e"


def classify(args):
    """-> (ops, done) for a data command: ops = list of (fn, param, key, present_from) or ('flush', all);
    done(reply, before) says whether the command performed its storage call(s).  None = not a write command."""
    name = up(args[0])
    a = [b(x) for x in args]
    one = lambda fn, done=not_err: ([(fn, "key", a[1], None)], lambda r, bf: done(r))
    if name in READS:
        return None
    if name == "SET":
        opts = [up(x) for x in a[3:]]
        ex = "EX" in opts or "PX" in opts
        if "NX" in opts:
            fn = "set_string_nx_ex" if ex else "set_string_nx"
        else:
            fn = "set_string_ex" if ex else "set_string"
        return one(fn, is_ok)
    if name == "SETNX":
        return one("set_string_nx", is_one)
    if name in ("SETEX", "PSETEX"):
        return one("set_string_ex", is_ok)
    if name == "MSET":
        return [("set_string", "key", a[i], None) for i in range(1, len(a) - 1, 2)], lambda r, bf: is_ok(r)
    if name == "GETSET":
        return one("set_string")
    if name == "APPEND":
        return one("append")
    if name == "SETRANGE":
        return one("setrange")
    if name == "INCR":
        return one("incr")
    if name in ("DECR", "INCRBY", "DECRBY"):
        return one("incr_by")
    if name == "DEL":
        return [("delete", "key", k, None) for k in a[1:]], lambda r, bf: not_err(r)
    if name == "EXPIRE":
        try:
            n = int(a[2])
        except (ValueError, IndexError):
            n = 1
        return one("delete" if n <= 0 else "expire")
    if name == "PEXPIRE":
        return one("pexpire")
    if name == "PERSIST":
        return one("persist")
    if name in ("RENAME", "RENAMENX") and len(a) == 3:
        # both roles take `present` from the SOURCE: rename marks new_key whenever the source exists
        return ([("rename", "old_key", a[1], a[1]), ("rename", "new_key", a[2], a[1])],
                (lambda r, bf: is_ok(r)) if name == "RENAME" else (lambda r, bf: is_one(r)))
    if name == "FLUSHDB":
        return [("flush", False)], lambda r, bf: is_ok(r)
    if name == "FLUSHALL":
        return [("flush", True)], lambda r, bf: is_ok(r)
    simple = {"LPUSH": "lpush", "RPUSH": "rpush", "LPOP": "lpop", "RPOP": "rpop", "BLPOP": "lpop", "BRPOP": "rpop", "LSET": "lset",
              "LTRIM": "ltrim", "LREM": "lrem", "SADD": "sadd", "SREM": "srem", "SPOP": "spop", "HSET": "hset", "HMSET": "hset",
              "HDEL": "hdel", "HINCRBY": "hincrby", "ZADD": "zadd", "ZREM": "zrem", "ZINCRBY": "zincrby", "ZPOPMIN": "zrem",
              "ZPOPMAX": "zrem", "XDEL": "xdel", "XTRIM": "xtrim"}
    if name in simple:
        return one(simple[name])
    if name == "XADD":
        return one("xadd" if len(a) > 2 and a[2] == b"*" else "xadd_with_id")
    # consumer-group writes change the shared state of the stream behind the engine's back; with StorageEngine::touch
    # (C08_8) the handler marks the key after a successful mutation: fn `touch`
    if name == "XGROUP" and len(a) > 3:
        sub, k = up(a[1]), a[2]
        if sub == "CREATE":
            # on a missing key MKSTREAM stores a new stream through set_value; on an existing stream the group is added in place
            return ([("set_value", "key", k, None, lambda r, bf: is_ok(r) and bf.get(k) is None),
                     ("touch", "key", k, None, lambda r, bf: is_ok(r) and bf.get(k) is not None)], lambda r, bf: is_ok(r))
        if sub in ("DESTROY", "CREATECONSUMER"):
            return [("touch", "key", k, None)], lambda r, bf: is_one(r)
        if sub == "DELCONSUMER":
            # touched iff the consumer existed, which the reply (number of pending entries dropped) does not tell:
            # the observed change of the key's group state decides (see Sess.tokens)
            return [("touch", "key", k, None)], lambda r, bf: False
        if sub == "SETID":
            return [("touch", "key", k, None)], lambda r, bf: is_ok(r)
        return None
    if name == "XREADGROUP":
        ua = [up(x) for x in a]
        if "STREAMS" in ua:
            rest = a[ua.index("STREAMS") + 1:]
            ks, ids = rest[:len(rest) // 2], rest[len(rest) // 2:]
            # only a read with ">" delivers (moves the cursor, fills the pending list, may create the consumer)
            return ([("touch", "key", k, None, (lambda kk: lambda r, bf: not_err(r) and bf.get(kk) is not None)(k))
                     for k, i in zip(ks, ids) if i == b">"], lambda r, bf: not_err(r))
        return None
    if name == "XACK" and len(a) > 1:
        return [("touch", "key", a[1], None)], lambda r, bf: r[0] == "i" and r[1] > 0
    if name in ("XCLAIM", "XAUTOCLAIM") and len(a) > 1:
        return [("touch", "key", a[1], None)], lambda r, bf: r[0] == "a" and bf.get(a[1]) is not None   # a missing key: empty array, nothing done
    return None


# ------------------------------------------------------------------ session: server + model
class Sess:
    def __init__(self, rows, tag="c08", quirks=(0, 0, 0, 0), base_db=0):
        self.base_db = base_db
        self.srv = Server(tag)
        self.cl = {i: self.srv.client() for i in (A, B, C)}
        self.ctl = self.srv.client()
        self.ctl_db = 0
        self.model = lean_driver("watch")
        self.rows = rows
        self.t0 = time.monotonic()
        self.db = {i: 0 for i in self.cl}
        self.intx = {i: False for i in self.cl}
        self.watching = {i: False for i in self.cl}
        self.queue = {i: [] for i in self.cl}
        self.steps = []          # everything done since the server started (for replays)
        self.cell = None
        self.cell_start = 0
        self.oracle = []         # oracle failures (Spec vs implementation)
        self.disagree = []       # model disagreements (code model vs implementation)
        self.execs = []          # every EXEC verdict of the current cell
        self.evals = 0
        self.ask("reset %d %d %d %d" % tuple(quirks))
        for r in rows:
            self.ask("fn %s %d %s %s %d" % (r["name"], r["mutates"], ",".join(r["keyParams"]) or ".",
                                           ",".join(r["marked"]) or ".", r["marksAll"]))
        r = self.ctl.cmd("VERIF", "SWEEPER", "PAUSE")
        if r != ("s", b"OK"):
            raise InternalError("server was not built with feature verif: %r" % (r,))

    def conn(self, c):
        """connection `c` (3, 4, ... are opened on demand: additional watchers)"""
        if c not in self.cl:
            self.cl[c] = self.srv.client()
            self.db[c], self.intx[c], self.watching[c], self.queue[c] = 0, False, False, []
        return self.cl[c]

    def close(self):
        for c in list(self.cl.values()) + [self.ctl]:
            c.close()
        self.srv.stop()
        self.model.close()

    def now(self):
        return int((time.monotonic() - self.t0) * 1000) + 1000

    def ask(self, line):
        ans = self.model.ask(line)
        if ans is None or ans == "bad-op":
            raise InternalError("Lean watch driver failed on: %s -> %r %s" % (line, ans, self.model.stderr_tail[-300:]))
        return ans

    # ---- observation of one key through the control connection (reads that never mark or delete)
    def dump(self, db, key):
        c = self.ctl
        if self.ctl_db != db:
            c.cmd("SELECT", str(db))
            self.ctl_db = db
        t = c.cmd("TYPE", key)[1].decode()
        if t == "none":
            return None
        if c.cmd("EXISTS", key) != ("i", 1):
            return {"live": False, "val": 0, "ttl": 0}          # stored, deadline passed, not yet removed
        if t == "string":
            content = c.cmd("GET", key)
        elif t == "list":
            content = c.cmd("LRANGE", key, "0", "-1")
        elif t == "set":
            content = ("a", sorted(c.cmd("SMEMBERS", key)[1]))
        elif t == "hash":
            fl = c.cmd("HGETALL", key)[1]
            content = ("a", sorted((fl[i], fl[i + 1]) for i in range(0, len(fl), 2)))
        elif t == "zset":
            content = c.cmd("ZRANGE", key, "0", "-1", "WITHSCORES")
        elif t == "stream":
            # entries and the consumer-group state that travels with the key (what XINFO GROUPS / XPENDING read back)
            groups = c.cmd("XINFO", "GROUPS", key)
            pend = []
            if groups[0] == "a":
                for g in groups[1]:
                    if g[0] == "a" and len(g[1]) > 1 and g[1][1][0] == "b":
                        pend.append((g[1][1][1], c.cmd("XPENDING", key, g[1][1][1])))
            content = (c.cmd("XRANGE", key, "-", "+"), groups, pend)
        else:
            content = ("?", t)
        ttl = c.cmd("PTTL", key)[1]
        if ttl == -2:
            return None          # expired (and lazily removed) while we were reading it
        return {"live": True, "val": zlib.crc32(repr((t, content)).encode()) + 1, "ttl": None if ttl < 0 else ttl}

    @staticmethod
    def same(x, y):
        if x is None or y is None:
            return x is None and y is None
        if x["live"] != y["live"] or x["val"] != y["val"]:
            return False
        if (x["ttl"] is None) != (y["ttl"] is None):
            return False
        return x["ttl"] is None or abs(x["ttl"] - y["ttl"]) <= 3000

    def chg(self, x, y, now):
        if self.same(x, y):
            return "-"
        if y is None:
            return "d"
        if not y["live"]:
            return "p0@1"
        return "p%d" % y["val"] if y["ttl"] is None else "p%d@%d" % (y["val"], now + y["ttl"] + 2)

    def tokens(self, ops, done, before, after, now, reply=None):
        toks = []
        for op in ops:
            if op[0] == "flush":
                if done:
                    toks.append("f:%d" % int(op[1]))
                continue
            if len(op) > 4:
                # this storage call is made only under a condition on the reply / the state before (otherwise another one is)
                if not op[4](reply, before):
                    continue
                op = op[:4]
            fn, param, key, pf = op
            present = before[pf if pf is not None else key] is not None
            ch = self.chg(before[key], after[key], now)
            # a key that changed proves the call was made, whatever the reply looked like (EVAL converts replies)
            toks.append("k:%s:%s:%s:%d:%d:%s" % (fn, param, hx(key), int(done or ch != "-"), int(present), ch))
        return toks

    @staticmethod
    def keys_of(ops):
        ks = []
        for op in ops:
            if op[0] != "flush":
                for k in op[2:4]:
                    if k is not None and k not in ks:
                        ks.append(k)
        return ks

    def record(self, kind, c, args, impl, model):
        self.steps.append({"kind": kind, "c": c, "args": [hx(b(x)) for x in args], "text": " ".join(b(x).decode("latin-1") for x in args)[:100],
                           "impl": impl, "model": model})
        return self.steps[-1]

    @staticmethod
    def canon(r):
        if r[0] == "e":
            return "err"
        if r == ("s", b"OK"):
            return "ok"
        if r == ("s", b"QUEUED"):
            return "queued"
        if r[0] == "na":
            return "nil"
        if r[0] == "a":
            return "array %d" % len(r[1])
        return "ok"

    def inner(self, args):
        """the data command inside our EVAL wrapper, or the command itself"""
        if up(args[0]) == "EVAL" and len(args) > 3 and b(args[1]) == EVAL_SCRIPT and b(args[2]) == b"0":
            return [b(x) for x in args[3:]]
        return [b(x) for x in args]

    def do(self, c, args, extra_watch_info=None):
        """send one client command, mirror it to the model; returns the step record"""
        args = [b(x) for x in args]
        name = up(args[0])
        cli = self.conn(c)
        self.evals += 1
        if name in ("MULTI", "EXEC", "DISCARD", "UNWATCH") and len(args) != 1 and not (self.intx[c] and name == "UNWATCH"):
            # surplus arguments: refused by process_frame's arity guard, nothing changes (inside MULTI an UNWATCH is queued
            # whatever its arguments: the queue test comes first)
            r = cli.cmd(*args)
            impl = self.canon(r)
            m = self.ask("refused %d %d" % (c, self.now()))
            st = self.record("ctl", c, args, impl, m)
            if impl != m:
                self.disagree.append({"cell": self.cell, "step": st, "why": "a transaction-control command with surplus arguments was not refused",
                                      "impl": impl, "code": m, "steps": list(self.steps[self.cell_start:]), "upto": len(self.steps)})
            return st
        if name in TXCTL and not (self.intx[c] and name in ("SELECT", "UNWATCH")):
            return self.do_ctl(c, name, args)
        if self.intx[c]:
            r = cli.cmd(*args)
            now = self.now()
            impl = self.canon(r)
            if impl == "queued":
                self.queue[c].append(args)
            if name == "SELECT":
                m = self.ask("select %d %d %s" % (c, now, args[1].decode()))
            elif name == "UNWATCH":
                m = self.ask("unwatch %d %d" % (c, now))      # queued: forgets nothing (a no-op slot of EXEC's reply)
            else:
                m = self.ask("cmd %d %d" % (c, now))
            st = self.record("queue", c, args, impl, m)
            if impl != m:
                self.disagree.append({"cell": self.cell, "step": st, "why": "reply of a command sent inside MULTI", "impl": impl, "code": m,
                                      "steps": list(self.steps[self.cell_start:]), "upto": len(self.steps)})
            return st
        cl = classify(self.inner(args))
        if cl is None:
            r = cli.cmd(*args)
            m = self.ask("cmd %d %d" % (c, self.now()))
            return self.record("read", c, args, self.canon(r), m)
        ops, done = cl
        keys = self.keys_of(ops)
        before = {k: self.dump(self.db[c], k) for k in keys}
        r = cli.cmd(*args)
        now = self.now()
        after = {k: self.dump(self.db[c], k) for k in keys}
        toks = self.tokens(ops, done(r, before), before, after, now, r)
        m = self.ask("cmd %d %d %s" % (c, now, " ".join(toks)))
        st = self.record("write", c, args, "err" if r[0] == "e" else "ok", m)
        st["ops"] = toks
        st["reply"] = repr(r)[:80]
        return st

    def do_ctl(self, c, name, args):
        cli = self.cl[c]
        if name == "EXEC":
            return self.do_exec(c, args)
        r = cli.cmd(*args)
        now = self.now()
        impl = self.canon(r)
        if name == "WATCH":
            m = self.ask("watch %d %d %s" % (c, now, "|".join(hx(k) for k in args[1:]) or "."))
            if impl == "ok":
                self.watching[c] = True
        elif name == "UNWATCH":
            m = self.ask("unwatch %d %d" % (c, now))
            self.watching[c] = False
        elif name == "MULTI":
            m = self.ask("multi %d %d" % (c, now))
            if impl == "ok":
                self.intx[c] = True
                self.queue[c] = []
        elif name == "DISCARD":
            m = self.ask("discard %d %d" % (c, now))
            if impl == "ok":
                self.intx[c] = False
                self.watching[c] = False
                self.queue[c] = []
        elif name == "SELECT":
            m = self.ask("select %d %d %s" % (c, now, args[1].decode()))
            if impl == "ok":
                self.db[c] = int(args[1])
        st = self.record("ctl", c, args, impl, m)
        if impl != m:
            self.disagree.append({"cell": self.cell, "step": st, "why": "reply of a transaction-control command", "impl": impl, "code": m,
                                  "steps": list(self.steps[self.cell_start:]), "upto": len(self.steps)})
        return st

    def do_exec(self, c, args):
        """EXEC.  A queued SELECT is executed at EXEC time (server.rs handle_exec): the commands queued after it run in
        the selected database and the selection stays.  For the model this is EXEC of the first segment followed —
        only if EXEC executed — by `select` and `cmd` events of the same connection (it has left MULTI by then)."""
        cli = self.cl[c]
        queued = self.queue[c] if self.intx[c] else []
        plans = []          # per queued command: (classification | None | ("select", d), database it runs in)
        allkeys = []        # (db, key) observed
        db = self.db[c]
        for qa in queued:
            if up(qa[0]) == "SELECT":
                try:
                    d = int(qa[1])
                except (ValueError, IndexError):
                    d = -1
                plans.append((("select", d), db))
                if 0 <= d < 16:
                    db = d
                continue
            cl = classify(self.inner(qa))
            plans.append((cl, db))
            if cl:
                for k in self.keys_of(cl[0]):
                    if (db, k) in allkeys:
                        raise InternalError("queued commands of one transaction must use disjoint keys (observation is per key): %r" % (queued,))
                    allkeys.append((db, k))
        before = {dk: self.dump(dk[0], dk[1]) for dk in allkeys}
        r = cli.cmd(*args)
        now = self.now()
        after = {dk: self.dump(dk[0], dk[1]) for dk in allkeys}
        impl = self.canon(r)
        segments = [[]]      # token lists; a new segment starts after each effective SELECT
        selects = []
        if r[0] == "a" and len(r[1]) == len(queued):
            for (cl, d0), el in zip(plans, r[1]):
                if cl and cl[0] == "select":
                    if el == ("s", b"OK"):
                        selects.append(cl[1])
                        segments.append([])
                    continue
                if cl:
                    bf = {k: before[(d0, k)] for k in self.keys_of(cl[0])}
                    af = {k: after[(d0, k)] for k in self.keys_of(cl[0])}
                    segments[-1] += self.tokens(cl[0], cl[1](el, bf), bf, af, now, el)
        toks = segments[0]
        m = self.ask("exec %d %d %s" % (c, now, " ".join(toks)))
        code, verdict = m.rsplit(" ", 1)
        if impl.startswith("array") and code.startswith("array"):
            for d, seg in zip(selects, segments[1:]):
                a1 = self.ask("select %d %d %d" % (c, now, d))
                a2 = self.ask("cmd %d %d %s" % (c, now, " ".join(seg)))
                if (a1, a2) != ("ok", "ok"):
                    raise InternalError("model refused the continuation of an EXEC after a queued SELECT: %r %r" % (a1, a2))
                toks = toks + ["select:%d" % d] + seg
                self.db[c] = d
        st = self.record("exec", c, args, impl, m)
        st["ops"] = toks
        st["queued"] = [" ".join(x.decode("latin-1") for x in qa)[:80] for qa in queued]
        executed_nothing = all(self.same(before[dk], after[dk]) for dk in allkeys)
        st["executed_nothing"] = executed_nothing
        self.execs.append(st)
        if self.intx[c]:
            self.intx[c] = False
            self.watching[c] = False
            self.queue[c] = []
        info = {"cell": self.cell, "step": st, "impl": impl, "code": code, "spec": verdict,
                "steps": list(self.steps[self.cell_start:]), "upto": len(self.steps)}
        if impl == "nil" and verdict == "mustRun":
            self.oracle.append(dict(info, kind="false-abort", why="EXEC returned nil although nothing ran on any watched key"))
        elif impl.startswith("array") and verdict == "mustNil":
            self.oracle.append(dict(info, kind="unsound", why="EXEC executed although a watched key was changed after WATCH"))
        if impl == "nil" and not executed_nothing:
            self.oracle.append(dict(info, kind="nil-executed", why="EXEC returned nil but a queued command took effect"))
        if impl.startswith("array") and impl != "array %d" % len(queued):
            self.oracle.append(dict(info, kind="exec-shape", why="EXEC array length differs from the number of queued commands"))
        if impl != code:
            self.disagree.append(dict(info, why="EXEC reply differs from the code model"))
        return st

    # ---- special steps
    def ctl_cmd(self, *args):
        r = self.ctl.cmd(*args)
        self.steps.append({"kind": "control", "args": [hx(b(x)) for x in args], "text": " ".join(str(x) for x in args), "impl": repr(r)})
        return r

    def live_now(self, c, key):
        """is the key logically present right now (read-only probe through the control connection)?"""
        if self.ctl_db != self.db[c]:
            self.ctl.cmd("SELECT", str(self.db[c]))
            self.ctl_db = self.db[c]
        return self.ctl.cmd("EXISTS", key) == ("i", 1)

    def sleep(self, ms):
        time.sleep(ms / 1000.0)
        self.steps.append({"kind": "sleep", "ms": ms})

    def blocked_pop_served(self, popper, pusher, key, elem):
        """popper: BLPOP key 5 (blocks); pusher: RPUSH key elem -> the server pops for the blocked client."""
        self.steps.append({"kind": "blocked-pop-served", "popper": popper, "pusher": pusher, "key": hx(key), "elem": hx(elem)})
        assert self.dump(self.db[popper], key) is None
        self.cl[popper].send("BLPOP", key, "5")
        t_end = time.monotonic() + 3
        while time.monotonic() < t_end:
            reg = self.ctl.cmd("VERIF", "BLOCKED")
            if reg[0] == "a" and any(x == ("b", key) for x in reg[1]):
                break
            time.sleep(0.005)
        else:
            raise InternalError("BLPOP did not register as blocked")
        r = self.cl[pusher].cmd("RPUSH", key, elem)
        now = self.now()
        got = self.cl[popper].read_reply(3)
        served = got == ("a", [("b", key), ("b", elem)])
        gone = self.dump(self.db[popper], key) is None
        if not (r == ("i", 1) and served and gone):
            raise InternalError("blocked pop was not served as expected: push %r pop %r key gone %r" % (r, got, gone))
        self.ask("cmd %d %d k:rpush:key:%s:1:0:p7" % (pusher, now, hx(key)))
        self.ask("cmd %d %d k:lpop:key:%s:1:1:d" % (popper, now, hx(key)))

    def sweeper_alone(self, keys):
        """The sweeper, and nothing else, reaps the given (db, key) pairs, whose deadlines have all passed: no command
        touches them (every single-key command would reap an expired key lazily, WITH the mark).  The sweeper is
        resumed until `VERIF SWEEPER PASSES` has advanced twice — at least one full pass began after the deadlines —
        and paused again; then the model is told of the deletions."""
        self.steps.append({"kind": "sweeper-run", "keys": [[d, hx(k)] for d, k in keys]})
        p0 = self.ctl.cmd("VERIF", "SWEEPER", "PASSES")[1]
        self.ctl.cmd("VERIF", "SWEEPER", "RESUME")
        t_end = time.monotonic() + 10
        while time.monotonic() < t_end and self.ctl.cmd("VERIF", "SWEEPER", "PASSES")[1] < p0 + 2:
            time.sleep(0.02)
        done = self.ctl.cmd("VERIF", "SWEEPER", "PASSES")[1] >= p0 + 2
        self.ctl.cmd("VERIF", "SWEEPER", "PAUSE")
        if not done:
            raise InternalError("the sweeper did not complete two passes within 10 s")
        for d, k in keys:
            self.ask("sweep %d %d %s" % (d, self.now(), hx(k)))

    # ---- cells
    def begin(self, cell):
        """neutral state: nobody in MULTI, nobody watching, everybody in the base database, empty dataset"""
        for c in self.cl:
            if self.intx[c]:
                self.do(c, ["DISCARD"])
            if self.watching[c]:
                self.do(c, ["UNWATCH"])
            if self.db[c] != self.base_db:
                self.do(c, ["SELECT", str(self.base_db)])
        self.do(B, ["FLUSHALL"])
        self.cell = cell
        self.cell_start = len(self.steps)
        self.execs = []

    def cell_steps(self):
        return self.steps[self.cell_start:]


# ------------------------------------------------------------------ the matrix
K, O = "<K>", "<O>"
STATES = {
    "string": [["SET", K, "10"]],
    "list": [["RPUSH", K, "a", "b", "c"]],
    "set": [["SADD", K, "a", "b", "c"]],
    "hash": [["HSET", K, "f", "1", "g", "x"]],
    "zset": [["ZADD", K, "1", "a", "2", "b", "3", "c"]],
    "stream": [["XADD", K, "1-1", "f", "v"], ["XADD", K, "2-1", "f", "v"]],
    "stream+group": [["XADD", K, "1-1", "f", "v"], ["XADD", K, "2-1", "f", "v"], ["XGROUP", "CREATE", K, "g", "0"],
                     ["XREADGROUP", "GROUP", "g", "c1", "COUNT", "1", "STREAMS", K, ">"]],
    "absent": [],
    "string+ttl": [["SET", K, "10", "EX", "1000"]],
    "list+ttl": [["RPUSH", K, "a", "b", "c"], ["EXPIRE", K, "1000"]],
}
TYPE_OF = {"string+ttl": "string", "list+ttl": "list"}

# (label, args, state of <O> before the command: None (unused) | "present" | "absent", only these states of <K> (None = all))
COMMANDS = [
    ("SET", ["SET", K, "v2"], None, None), ("SET-same", ["SET", K, "10"], None, None), ("SET-EX", ["SET", K, "v2", "EX", "1000"], None, None),
    ("SET-NX", ["SET", K, "v2", "NX"], None, None), ("SET-XX", ["SET", K, "v2", "XX"], None, None),
    ("SET-NX-PX", ["SET", K, "v2", "PX", "1000000", "NX"], None, None),
    ("SETNX", ["SETNX", K, "v2"], None, None), ("SETEX", ["SETEX", K, "1000", "v2"], None, None), ("PSETEX", ["PSETEX", K, "1000000", "v2"], None, None),
    ("MSET", ["MSET", O, "v3", K, "v2"], "absent", None), ("GETSET", ["GETSET", K, "v2"], None, None),
    ("APPEND", ["APPEND", K, "xyz"], None, None), ("APPEND-empty", ["APPEND", K, ""], None, None), ("SETRANGE", ["SETRANGE", K, "1", "Z"], None, None),
    ("SETRANGE-same", ["SETRANGE", K, "0", "1"], None, None),
    ("INCR", ["INCR", K], None, None), ("DECR", ["DECR", K], None, None), ("INCRBY", ["INCRBY", K, "5"], None, None),
    ("INCRBY-0", ["INCRBY", K, "0"], None, None), ("DECRBY", ["DECRBY", K, "3"], None, None),
    ("DEL", ["DEL", K], None, None), ("DEL-2", ["DEL", O, K], "present", None),
    ("EXPIRE", ["EXPIRE", K, "500"], None, None), ("EXPIRE-0", ["EXPIRE", K, "0"], None, None), ("EXPIRE-neg", ["EXPIRE", K, "-1"], None, None),
    ("PEXPIRE", ["PEXPIRE", K, "500000"], None, None), ("PEXPIRE-0", ["PEXPIRE", K, "0"], None, None), ("PERSIST", ["PERSIST", K], None, None),
    ("RENAME-from", ["RENAME", K, O], "absent", None), ("RENAME-from-over", ["RENAME", K, O], "present", None),
    ("RENAME-to", ["RENAME", O, K], "present", None), ("RENAME-to-missing-src", ["RENAME", O, K], "absent", None),
    ("RENAME-self", ["RENAME", K, K], None, None),
    ("RENAMENX-from", ["RENAMENX", K, O], "absent", None), ("RENAMENX-from-refused", ["RENAMENX", K, O], "present", None),
    ("RENAMENX-to", ["RENAMENX", O, K], "present", None),
    ("FLUSHDB", ["FLUSHDB"], None, None), ("FLUSHALL", ["FLUSHALL"], None, None),
    ("LPUSH", ["LPUSH", K, "x"], None, None), ("RPUSH", ["RPUSH", K, "x", "y"], None, None), ("LPOP", ["LPOP", K], None, None), ("RPOP", ["RPOP", K], None, None),
    ("BLPOP", ["BLPOP", K, "1"], None, ["list", "list+ttl"]), ("BRPOP", ["BRPOP", K, "1"], None, ["list", "list+ttl"]),
    ("LSET", ["LSET", K, "0", "zz"], None, None), ("LSET-same", ["LSET", K, "0", "a"], None, None), ("LSET-range", ["LSET", K, "9", "zz"], None, None),
    ("LTRIM", ["LTRIM", K, "0", "0"], None, None), ("LTRIM-all", ["LTRIM", K, "0", "-1"], None, None), ("LTRIM-empty", ["LTRIM", K, "5", "9"], None, None),
    ("LREM", ["LREM", K, "0", "a"], None, None), ("LREM-none", ["LREM", K, "0", "nomatch"], None, None),
    ("SADD", ["SADD", K, "x"], None, None), ("SADD-existing", ["SADD", K, "a"], None, None), ("SREM", ["SREM", K, "a"], None, None),
    ("SREM-missing", ["SREM", K, "nomatch"], None, None), ("SREM-all", ["SREM", K, "a", "b", "c"], None, None), ("SPOP", ["SPOP", K], None, None),
    ("HSET", ["HSET", K, "f", "2"], None, None), ("HSET-same", ["HSET", K, "f", "1"], None, None), ("HMSET", ["HMSET", K, "h", "3"], None, None),
    ("HDEL", ["HDEL", K, "f"], None, None), ("HDEL-missing", ["HDEL", K, "nofield"], None, None), ("HDEL-all", ["HDEL", K, "f", "g"], None, None),
    ("HINCRBY", ["HINCRBY", K, "f", "2"], None, None), ("HINCRBY-0", ["HINCRBY", K, "f", "0"], None, None),
    ("ZADD", ["ZADD", K, "5", "x"], None, None), ("ZADD-same", ["ZADD", K, "1", "a"], None, None), ("ZADD-update", ["ZADD", K, "9", "a"], None, None),
    ("ZADD-bad", ["ZADD", K, "1", "x", "nope", "y"], None, None),
    ("ZREM", ["ZREM", K, "a"], None, None), ("ZREM-missing", ["ZREM", K, "nomatch"], None, None), ("ZINCRBY", ["ZINCRBY", K, "2", "a"], None, None),
    ("ZINCRBY-0", ["ZINCRBY", K, "0", "a"], None, None), ("ZPOPMIN", ["ZPOPMIN", K], None, None), ("ZPOPMAX", ["ZPOPMAX", K], None, None),
    ("XADD-auto", ["XADD", K, "*", "f", "v"], None, None), ("XADD-id", ["XADD", K, "9-1", "f", "v"], None, None), ("XADD-low", ["XADD", K, "1-1", "f", "v"], None, None),
    ("XDEL", ["XDEL", K, "1-1"], None, None), ("XDEL-missing", ["XDEL", K, "7-7"], None, None),
    ("XTRIM", ["XTRIM", K, "MAXLEN", "1"], None, None), ("XTRIM-none", ["XTRIM", K, "MAXLEN", "100"], None, None),
    ("XGROUP-MKSTREAM", ["XGROUP", "CREATE", K, "g", "$", "MKSTREAM"], None, None),
    # consumer-group writes on the watched stream (state `stream+group`: group g, consumer c1 with 1-1 pending)
    ("XGROUP-CREATE", ["XGROUP", "CREATE", K, "g2", "0"], None, None), ("XGROUP-CREATE-busy", ["XGROUP", "CREATE", K, "g", "$"], None, None),
    ("XGROUP-SETID", ["XGROUP", "SETID", K, "g", "2-1"], None, None), ("XGROUP-DESTROY", ["XGROUP", "DESTROY", K, "g"], None, None),
    ("XGROUP-CREATECONSUMER", ["XGROUP", "CREATECONSUMER", K, "g", "c2"], None, None),
    ("XGROUP-CREATECONSUMER-existing", ["XGROUP", "CREATECONSUMER", K, "g", "c1"], None, None),
    ("XGROUP-DELCONSUMER", ["XGROUP", "DELCONSUMER", K, "g", "c1"], None, None),
    ("XGROUP-DELCONSUMER-missing", ["XGROUP", "DELCONSUMER", K, "g", "nobody"], None, None),
    ("XREADGROUP-new", ["XREADGROUP", "GROUP", "g", "c2", "COUNT", "1", "STREAMS", K, ">"], None, None),
    ("XREADGROUP-history", ["XREADGROUP", "GROUP", "g", "c1", "COUNT", "5", "STREAMS", K, "0"], None, None),
    ("XACK", ["XACK", K, "g", "1-1"], None, None), ("XACK-none", ["XACK", K, "g", "9-9"], None, None),
    ("XCLAIM", ["XCLAIM", K, "g", "c2", "0", "1-1"], None, None),
    ("XPENDING", ["XPENDING", K, "g"], None, None), ("XINFO-GROUPS", ["XINFO", "GROUPS", K], None, None),
    # reads of the watched key: never a change
    ("GET", ["GET", K], None, None), ("TYPE", ["TYPE", K], None, None), ("EXISTS", ["EXISTS", K], None, None), ("PTTL", ["PTTL", K], None, None),
    ("LRANGE", ["LRANGE", K, "0", "-1"], None, None), ("SMEMBERS", ["SMEMBERS", K], None, None), ("HGETALL", ["HGETALL", K], None, None),
    ("ZRANGE", ["ZRANGE", K, "0", "-1"], None, None), ("XRANGE", ["XRANGE", K, "-", "+"], None, None), ("SCAN", ["SCAN", "0"], None, None),
    ("KEYS", ["KEYS", "*"], None, None),
]
PATHS = ["other", "same", "exec", "eval"]
# the watcher SELECTs another database between WATCH and EXEC: the change is made in the WATCH-time database (must abort)
# / only the key of the same name in the EXEC-time database is changed (must not abort)
SELECT_PATHS = ["select-then-change-in-watch-db", "select-then-change-in-exec-db-only"]
# the state in which a command really does its work (for the OTHER-key side)
HOME = {"L": "list", "S": "set", "H": "hash", "Z": "zset", "X": "stream"}


def home_state(label):
    n = label.split("-")[0]
    if n in ("LPUSH", "RPUSH", "LPOP", "RPOP", "BLPOP", "BRPOP", "LSET", "LTRIM", "LREM"):
        return "list"
    if n in ("SADD", "SREM", "SPOP", "SMEMBERS"):
        return "set"
    if n[0] == "H":
        return "hash"
    if n[0] == "Z":
        return "zset"
    if n in ("XGROUP", "XREADGROUP", "XACK", "XCLAIM", "XPENDING", "XINFO"):
        return "stream+group"
    if n[0] == "X":
        return "stream"
    if n == "LRANGE":
        return "list"
    return "string+ttl" if n == "PERSIST" else "string"


def subst(args, k, o):
    return [k if x == K else (o if x == O else b(x)) for x in args]


SHARD_CONSTS = None        # (shards, FNV offset basis, FNV prime) as get_shard_index in the source has them


def shard(key):
    """the shard of a key computed the way the engine does it: constants read from get_shard_index by the translator
    (so that "same shard / other shard" stays true if they change); the known FNV-1a 64 mod 16 when it cannot be read"""
    global SHARD_CONSTS
    if SHARD_CONSTS is None:
        try:
            import extract
            import watch_facts
            SHARD_CONSTS = watch_facts.shard_consts(extract.src, extract.strip_comments, extract.fn_body) or (16, 0xCBF29CE484222325, 0x100000001B3)
        except Exception:
            SHARD_CONSTS = (16, 0xCBF29CE484222325, 0x100000001B3)
    n, h, prime = SHARD_CONSTS
    for c in key:
        h = ((h ^ c) * prime) & ((1 << 64) - 1)
    return h % n


# watched key names by class: keys are binary safe, every cell family draws from all classes
KEY_POOL = [
    ("ascii", b"wk"), ("ascii", b"user:1000:balance"), ("ascii", b"w k"),
    ("utf8", b"w\xc3\xa9:k"),
    ("invalid-utf8", b"w\xff\xfek"), ("invalid-utf8", b"\xc3\x28:wk"), ("invalid-utf8", b"\x80\x81\x9f:wk"), ("invalid-utf8", b"wk:\xf0\x28\x8c\x28"),
    ("nul", b"w\x00k"), ("crlf", b"w\r\nk"), ("empty", b""), ("1KiB", b"wk:" + b"\xfeK" * 510 + b"!"),
]


def key_set(r, cls, wk):
    """the watched key with an unrelated key in its shard, one in another shard, and a third one"""
    cands = [b"o%d" % i for i in range(300)]
    r.shuffle(cands)
    same = next(x for x in cands if shard(x) == shard(wk) and x != wk)
    diff = next(x for x in cands if shard(x) != shard(wk) and shard(x) != shard(PROBE))
    other = next(x for x in cands if x not in (same, diff))
    return {"cls": cls, "wk": wk, "same": same, "diff": diff, "other": other}


def pick_key_sets(r):
    return [key_set(r, cls, wk) for cls, wk in KEY_POOL]


def run_path(s, path, cmd):
    if path == "other":
        s.do(B, cmd)
    elif path == "same":
        s.do(A, cmd)
    elif path == "exec":
        s.do(B, ["MULTI"])
        s.do(B, cmd)
        s.do(B, ["EXEC"])
    elif path == "eval":
        s.do(B, ["EVAL", EVAL_SCRIPT, "0"] + cmd)
    else:
        raise InternalError(path)


def finish_tx(s, tag):
    """the watcher's transaction: writes the probe key; returns the EXEC step"""
    s.do(A, ["MULTI"])
    s.do(A, ["SET", PROBE, tag])
    return s.do(A, ["EXEC"])


def matrix_cell(s, label, args, ostate, state, path, wk, ok, watched=None, second=None, key_class=None):
    """set `wk` up in `state`, WATCH `watched` (default wk), run the command through `path`, EXEC"""
    cell = {"kind": "matrix", "cmd": label, "state": state, "path": path, "key": hx(wk), "key_class": key_class}
    if second:
        cell.update({"second_key": hx(ok), "second_key_in": second, "second_key_before": ostate})
    s.begin(cell)
    d1 = (s.base_db + 7) % 16
    for st in STATES[state]:
        s.do(B, subst(st, wk, ok))
    if path == "select-then-change-in-exec-db-only":
        s.do(B, ["SELECT", str(d1)])                # the same key name, same state, in the other database
        for st in STATES[state]:
            s.do(B, subst(st, wk, ok))
    if ostate == "present":
        s.do(B, ["SET", ok, "other"])
    s.do(A, ["WATCH", watched or wk])
    if path in SELECT_PATHS:
        s.do(A, ["SELECT", str(d1)])
        s.do(B, subst(args, wk, ok))                # in the WATCH-time database / in d1
    else:
        run_path(s, path, subst(args, wk, ok))
    return finish_tx(s, "t")


def expiry_all_types(s, wk, mode, rep):
    """Expiry by deadline for a watched key of every type, one watcher connection per key, nobody touching the keys
    after their deadline: `lazy` = the sweeper stays paused (EXEC's own look at the key finds it expired);
    `sweeper-alone` = the sweeper reaps them before EXEC.  Every EXEC must return nil."""
    types = ["string", "list", "set", "hash", "zset", "stream"]
    for ttl in (400, 1200, 4000):
        s.begin({"kind": "scenario", "name": "expiry-%s-all-types" % mode, "key": hx(wk)})
        keys = []
        for i, t in enumerate(types):
            k = wk + b":" + t.encode()
            keys.append(k)
            for st in STATES[t]:
                s.do(B, subst(st, k, b"-"))
            s.do(B, ["PEXPIRE", k, str(ttl)])
            s.do(3 + i, ["SELECT", str(s.base_db)]) if s.conn(3 + i) and s.db[3 + i] != s.base_db else None
            s.do(3 + i, ["WATCH", k])
        if all(s.live_now(B, k) for k in keys):
            break                                   # every WATCH was answered before its key's deadline
    else:
        raise InternalError("machine too slow for the expiry scenarios: a 4 s deadline passed before WATCH was answered")
    s.sleep(ttl + 150)
    if mode == "sweeper-alone":
        s.sweeper_alone([(s.base_db, k) for k in keys])
    for i, t in enumerate(types):
        s.do(3 + i, ["MULTI"])
        s.do(3 + i, ["SET", PROBE + b":%d" % i, mode])
        st = s.do(3 + i, ["EXEC"])
        rep.count("scenario.expiry-%s.%s.%s" % (mode, t, st["impl"].split()[0]))
        rep.nontrivial(("expiry", mode, t, st["impl"].split()[0], st["model"]))


# a write that really changes a key of the given state
CHANGE = {"string": ["APPEND", K, "x"], "list": ["RPUSH", K, "x"], "set": ["SADD", K, "x"], "hash": ["HSET", K, "n", "1"],
          "zset": ["ZADD", K, "9", "x"], "stream": ["XADD", K, "9-1", "f", "v"], "absent": ["SET", K, "new"]}


def multi_watch_cells(s, r, rep, key_sets, tier, n_round):
    """WATCH sets of 2..24 keys (one WATCH command, or several), of mixed types and absent keys, names of every class.
    Between WATCH and EXEC exactly one key is changed (at the first, the last, a random position of the set), a strict
    subset, all of them, or none (an unrelated key is written): "if ANY watched key changed".  Every path; repeated,
    because the order in which the server visits its watch list differs from connection to connection."""
    sizes = (2, 3, 5, 9, 24) if tier == "quick" else (2, 3, 4, 5, 7, 9, 16, 24)
    repeats = 2 if tier == "quick" else 3
    kinds = ["one-first", "one-last", "one-random", "subset", "all", "none"]
    types = ["string", "list", "absent", "set", "hash", "zset", "stream"]
    n_cell = n_round
    for n in sizes:
        for split in ("one-watch-command", "several-watch-commands"):
            for kind in kinds:
                for path in (PATHS if tier != "quick" else [None]):
                    for rpt in range(repeats):
                        n_cell += 1
                        p = path or PATHS[n_cell % 4]
                        ks = key_sets[n_cell % len(key_sets)]
                        base = ks["wk"] if len(ks["wk"]) < 100 else ks["wk"][:40]
                        keys = [base + b":%d" % i for i in range(n)]
                        states = [types[(i + n_cell) % len(types)] for i in range(n)]
                        s.begin({"kind": "multi-watch", "n": n, "split": split, "change": kind, "path": p, "key": hx(ks["wk"]), "key_class": ks["cls"]})
                        for k, t in zip(keys, states):
                            for stp in STATES[t]:
                                s.do(B, subst(stp, k, b"-"))
                        if split == "one-watch-command":
                            s.do(A, ["WATCH"] + keys)
                        else:
                            i = 0
                            while i < n:
                                j = min(n, i + r.range(1, max(1, n // 2)))
                                s.do(A, ["WATCH"] + keys[i:j])
                                i = j
                        if kind == "one-first":
                            idx = [0]
                        elif kind == "one-last":
                            idx = [n - 1]
                        elif kind == "one-random":
                            idx = [r.below(n)]
                        elif kind == "subset":
                            idx = sorted(set(r.below(n) for _ in range(max(1, n // 2))))
                            if len(idx) == n:
                                idx = idx[:-1]
                        elif kind == "all":
                            idx = list(range(n))
                        else:
                            idx = []
                        for i in idx:
                            run_path(s, p, subst(CHANGE[states[i]], keys[i], b"-"))
                        if not idx:
                            run_path(s, p, ["SET", ks["other"], "unrelated"])
                        st = finish_tx(s, "m")
                        out = st["impl"].split()[0]
                        rep.count("multi-watch.n%d.%s.%s" % (n, kind, out))
                        rep.count("multi-watch.%s.%s" % (split, out))
                        rep.nontrivial(("multi-watch", n, split, kind, p, out, st["model"]))


def scenarios(s, wk, same_k, diff_k, rep, timed=True):
    """named histories beyond the matrix; each ends with EXECs judged like every other EXEC
    (`timed = False`: without the expiry scenarios, for a second pass with a binary key name)"""
    def begin(name):
        s.begin({"kind": "scenario", "name": name, "key": hx(wk)})
    # --- forgetting
    for how in ("UNWATCH", "EXEC", "DISCARD"):
        begin("forget-" + how)
        s.do(B, ["SET", wk, "1"])
        s.do(A, ["WATCH", wk])
        if how == "UNWATCH":
            s.do(A, ["UNWATCH"])
        else:
            s.do(A, ["MULTI"])
            s.do(A, [how])
        s.do(B, ["SET", wk, "2"])
        finish_tx(s, how)
    begin("unwatch-inside-multi")
    s.do(B, ["SET", wk, "1"])
    s.do(A, ["WATCH", wk])
    s.do(A, ["MULTI"])
    s.do(A, ["UNWATCH"])
    s.do(B, ["SET", wk, "2"])
    s.do(A, ["SET", PROBE, "u"])
    s.do(A, ["EXEC"])
    begin("unwatch-inside-multi-nothing-changes")
    s.do(B, ["SET", wk, "1"])
    s.do(A, ["WATCH", wk])
    s.do(A, ["MULTI"])
    s.do(A, ["UNWATCH"])                        # queued
    s.do(A, ["SET", PROBE, "v"])
    st = s.do(A, ["EXEC"])                      # executes: [OK (the UNWATCH slot), OK]
    rep.count("scenario.unwatch-inside-multi.exec-%s" % st["impl"].replace(" ", "-"))
    begin("unwatch-inside-multi-then-next-transaction")
    s.do(A, ["WATCH", wk])
    s.do(A, ["MULTI"])
    s.do(A, ["UNWATCH"])
    s.do(A, ["EXEC"])                           # EXEC forgets
    s.do(B, ["SET", wk, "3"])
    finish_tx(s, "w")                           # executes
    # --- MULTI / EXEC / DISCARD / UNWATCH with surplus arguments are refused and change nothing: the watches stay
    for junk in (["UNWATCH", "junk"], ["UNWATCH", wk], ["UNWATCH", "a", "b"]):
        begin("refused-unwatch-keeps-watch")
        s.do(B, ["SET", wk, "1"])
        s.do(A, ["WATCH", wk])
        s.do(A, junk)
        s.do(B, ["SET", wk, "2"])
        finish_tx(s, "j")                       # nil
    for junk in (["EXEC", "junk"], ["DISCARD", "junk"], ["MULTI", "junk"]):
        begin("refused-%s-inside-multi-keeps-watch-and-transaction" % junk[0].lower())
        s.do(B, ["SET", wk, "1"])
        s.do(A, ["WATCH", wk])
        s.do(A, ["MULTI"])
        s.do(A, ["SET", PROBE, "k"])
        s.do(A, junk)                           # refused: still inside MULTI, queue and watches intact
        s.do(B, ["SET", wk, "2"])
        s.do(A, ["EXEC"])                       # nil
        begin("refused-%s-inside-multi-nothing-changes" % junk[0].lower())
        s.do(A, ["WATCH", wk])
        s.do(A, ["MULTI"])
        s.do(A, ["SET", PROBE, "k"])
        s.do(A, junk)
        s.do(A, ["EXEC"])                       # executes the one queued command
        begin("refused-%s-outside-multi" % junk[0].lower())
        s.do(A, ["WATCH", wk])
        s.do(A, junk)
        s.do(B, ["SET", wk, "2"])
        finish_tx(s, "o")                       # nil
    begin("discard-without-multi-keeps-watch")
    s.do(B, ["SET", wk, "1"])
    s.do(A, ["WATCH", wk])
    s.do(A, ["DISCARD"])
    s.do(B, ["SET", wk, "2"])
    finish_tx(s, "d")
    begin("watch-inside-multi-refused")
    s.do(A, ["MULTI"])
    s.do(A, ["WATCH", wk])
    s.do(B, ["SET", wk, "2"])
    s.do(A, ["SET", PROBE, "w"])
    s.do(A, ["EXEC"])
    # --- several keys, several watchers
    begin("two-keys-second-changes")
    s.do(A, ["WATCH", wk, diff_k])
    s.do(B, ["LPUSH", diff_k, "x"])
    finish_tx(s, "2")
    begin("two-watchers-one-key")
    s.do(A, ["WATCH", wk])
    s.do(C, ["WATCH", wk])
    s.do(B, ["SET", wk, "2"])
    finish_tx(s, "a")
    s.do(C, ["MULTI"])
    s.do(C, ["SET", same_k, "c"])
    s.do(C, ["EXEC"])
    begin("per-connection")
    s.do(A, ["WATCH", wk])
    s.do(B, ["SET", wk, "2"])
    s.do(C, ["MULTI"])
    s.do(C, ["SET", same_k, "c"])
    s.do(C, ["EXEC"])          # C watches nothing: executes
    finish_tx(s, "a")          # A: nil
    begin("own-exec-then-new-window")
    s.do(A, ["WATCH", wk])
    s.do(B, ["SET", wk, "2"])
    finish_tx(s, "x")          # nil
    s.do(A, ["WATCH", wk])
    finish_tx(s, "y")          # nothing changed since the second WATCH: executes
    # --- a queued SELECT is executed at EXEC time: the commands after it run in the selected database
    d1 = (s.base_db + 6) % 16
    begin("change-through-queued-select")
    s.do(A, ["SELECT", str(d1)])
    s.do(A, ["WATCH", wk])                      # db d1
    s.do(B, ["MULTI"])
    s.do(B, ["SELECT", str(d1)])
    s.do(B, ["SET", wk, "2"])                   # lands in db d1
    s.do(B, ["EXEC"])
    finish_tx(s, "q")                           # nil
    begin("own-queued-select")
    s.do(A, ["WATCH", wk])
    s.do(A, ["MULTI"])
    s.do(A, ["SELECT", str(d1)])
    s.do(A, ["SET", PROBE, "own"])
    s.do(A, ["EXEC"])                           # executes; A now lives in db d1 and watches nothing
    s.do(A, ["WATCH", wk])                      # db d1
    s.do(B, ["SET", wk, "2"])                   # base db: another key
    finish_tx(s, "o")                           # executes
    # --- re-WATCH keeps the first baseline (Redis ignores a WATCH of an already watched key)
    begin("rewatch-after-change")
    s.do(B, ["SET", wk, "1"])
    s.do(A, ["WATCH", wk])
    s.do(B, ["SET", wk, "2"])
    s.do(A, ["WATCH", wk])
    finish_tx(s, "r")
    # --- served blocking pop
    begin("blocked-pop-served")
    s.do(A, ["WATCH", wk])
    s.blocked_pop_served(B, C, wk, b"x")
    finish_tx(s, "b")
    if not timed:
        return
    # --- expiry by deadline.  The key must still be alive when WATCH has been answered; on a loaded machine a
    #     short deadline can pass earlier, then the attempt is abandoned (no EXEC, nothing judged) and repeated
    #     with a longer one.
    def watch_before_deadline(name):
        for ttl in (150, 500, 2000):
            begin(name)
            s.do(B, ["SET", wk, "1"])
            s.do(B, ["PEXPIRE", wk, str(ttl)])
            s.do(A, ["WATCH", wk])
            if s.live_now(A, wk):
                return ttl
        raise InternalError("machine too slow for the expiry scenarios: a 2 s deadline passed before WATCH was answered")
    # sweeper paused: the lazy path of was_modified_since
    ttl = watch_before_deadline("expiry-lazy")
    s.sleep(ttl + 170)
    finish_tx(s, "e")
    begin("deadline-not-reached")
    s.do(B, ["SET", wk, "1"])
    s.do(B, ["PEXPIRE", wk, "600000"])
    s.do(A, ["WATCH", wk])
    s.sleep(30)
    finish_tx(s, "n")
    begin("expired-before-watch-lazy")
    s.do(B, ["SET", wk, "1"])
    s.do(B, ["PEXPIRE", wk, "40"])
    s.sleep(120)
    s.do(A, ["WATCH", wk])
    finish_tx(s, "f")
    # every key type: lazy (sweeper paused) and by the sweeper alone
    expiry_all_types(s, wk, "lazy", rep)
    expiry_all_types(s, wk, "sweeper-alone", rep)


def select_scenarios(rows, quirks, wk, same_k, rep, r):
    """WATCH / UNWATCH / EXEC across SELECT (DESIGN row 33): each on a FRESH server, because the outcome
    depends on the exact watcher counts of the shards involved.  Returns (oracle failures, disagreements, evals)."""
    out_o, out_d, evals, samples = [], [], 0, []

    def fresh(name):
        s = Sess(rows, "c08s", quirks)
        s.begin({"kind": "scenario", "name": name, "key": hx(wk)})
        return s

    def done(s):
        nonlocal evals
        out_o.extend(dict(o, fresh_server=True) for o in s.oracle)
        out_d.extend(dict(o, fresh_server=True) for o in s.disagree)
        evals += s.evals
        for e in s.execs:
            rep.nontrivial(("scenario", s.cell["name"], e["impl"].split()[0], e["model"]))
            rep.count("scenario.%s.%s" % (s.cell["name"], e["impl"].split()[0]))
        s.close()

    d1, d2 = r.range(1, 15), 0
    # EXEC looks the watched key up in the database selected at EXEC time
    s = fresh("select-then-exec-misses-change")
    s.do(A, ["WATCH", wk])
    s.do(A, ["SELECT", d1])
    s.do(B, ["SET", wk, "2"])
    finish_tx(s, "1")
    done(s)
    s = fresh("select-then-exec-false-abort")
    s.do(A, ["WATCH", wk])                      # db 0, never touched
    s.do(A, ["SELECT", d1])
    s.do(C, ["SELECT", d1])
    s.do(C, ["WATCH", wk])                      # makes db d1's shard count watchers
    s.do(B, ["SELECT", d1])
    s.do(B, ["SET", wk, "2"])                   # db d1's wk changes, db 0's does not
    finish_tx(s, "2")
    done(s)
    # UNWATCH unregisters in the database selected at UNWATCH time: steals another watcher's registration
    s = fresh("unwatch-after-select-blinds-other-watcher")
    s.do(A, ["SELECT", d1])
    s.do(A, ["WATCH", wk])                      # (d1, shard) active = 1
    s.do(C, ["WATCH", same_k])                  # (0, shard)  active = 1
    s.do(C, ["SELECT", d1])
    s.do(C, ["UNWATCH"])                        # decrements (d1, shard) -> 0 : A is blind
    s.do(B, ["SELECT", d1])
    s.do(B, ["SET", wk, "2"])
    finish_tx(s, "3")
    done(s)
    # ... and wraps a zero counter to usize::MAX; the next registration wraps it back to 0
    s = fresh("unwatch-underflow-then-watch-wraps-to-zero")
    s.do(C, ["WATCH", same_k])                  # (0, shard) = 1
    s.do(C, ["SELECT", d1])
    s.do(C, ["UNWATCH"])                        # (d1, shard) = 0 - 1 = usize::MAX
    s.do(A, ["SELECT", d1])
    s.do(A, ["WATCH", wk])                      # usize::MAX + 1 = 0 : A is blind from the start
    s.do(B, ["SELECT", d1])
    s.do(B, ["SET", wk, "2"])
    finish_tx(s, "4")
    done(s)
    # control: the same shapes without SELECT behave
    s = fresh("watch-in-other-db-no-select-between")
    s.do(A, ["SELECT", d1])
    s.do(A, ["WATCH", wk])
    s.do(B, ["SET", wk, "2"])                   # db 0: not the watched key
    finish_tx(s, "5")                           # executes
    s.do(A, ["WATCH", wk])
    s.do(B, ["SELECT", d1])
    s.do(B, ["SET", wk, "3"])
    finish_tx(s, "6")                           # nil
    done(s)
    return out_o, out_d, evals


# ------------------------------------------------------------------ verdicts
def changed_ops(o):
    """(fn:param) of the operations that changed the watched key after the last WATCH of the watcher in this cell"""
    key = (o.get("cell") or {}).get("key")
    steps = o.get("steps") or []
    last = max([i for i, st in enumerate(steps) if st.get("c") == A and st.get("text", "").upper().startswith("WATCH")], default=-1)
    out = set()
    for st in steps[last + 1:]:
        for t in st.get("ops", []):
            f = t.split(":")
            if f[0] == "f":
                out.add("flush_db:*")
            elif f[0] == "k" and f[3] == key and f[6] != "-":
                out.add("%s:%s" % (f[1], f[2]))
    return out


def match_finding(o, fs):
    """an oracle failure is known iff a finding names its shape:
      `unsound:<CMD,...>` + `fn`: a matrix cell whose command is one of CMD and in which the watched key was changed
           by one of the listed (storage function : key parameter) pairs — and by no other one;
      `scenario:<name,...>` (+ optional `kind`): the named history, failing in that way"""
    cell = o.get("cell") or {}
    for f in fs:
        kind, _, names = f.get("match", "").partition(":")
        names = names.split(",")
        if cell.get("kind") in ("matrix", "other-key") and kind == o["kind"] == "unsound" and cell.get("cmd", "").split("-")[0] in names:
            ch = changed_ops(o)
            if ch and ch <= set(f.get("fn", "").split(",")):
                return f
        if cell.get("kind") == "scenario" and kind == "scenario" and cell.get("name") in names and f.get("kind", o["kind"]) == o["kind"]:
            return f
    return None


def replay_obj(o, steps):
    return {"replay": {"cell": o.get("cell"), "kind": o["kind"], "why": o["why"], "impl": o.get("impl"), "code_model": o.get("code"), "spec": o.get("spec"),
                       "steps": steps, "how": "steps are client commands in order: c = connection (0 watcher, 1, 2), text = the command; "
                       "kinds sleep / control / blocked-pop-served / wait-sweep are harness actions; ./check C08 --replay <this file> re-runs them on a fresh server"}}


def run_steps(s, steps):
    """re-execute recorded steps on session `s` (fresh server)"""
    for st in steps:
        k = st["kind"]
        if k in ("ctl", "queue", "read", "write", "exec"):
            s.do(st["c"], [unhx(x) for x in st["args"]])
        elif k == "sleep":
            s.sleep(st["ms"])
        elif k == "control":
            s.ctl_cmd(*[unhx(x) for x in st["args"]])
        elif k == "blocked-pop-served":
            s.blocked_pop_served(st["popper"], st["pusher"], unhx(st["key"]), unhx(st["elem"]))
        elif k == "wait-sweep":
            s.sweeper_alone([(st["db"], unhx(st["key"]))])
        elif k == "sweeper-run":
            s.sweeper_alone([(d, unhx(kk)) for d, kk in st["keys"]])


def reproduce_alone(rows, quirks, o, steps):
    """does the cell fail the same way on a fresh server? (then its own steps are a minimal replay).  A cell without
    waiting steps is tried up to four times: the order in which the server visits a watch list of several keys is
    seeded per process and per map, so a defect that depends on it shows only in a fraction of the runs."""
    cheap = not any(st["kind"] in ("sleep", "sweeper-run", "wait-sweep", "blocked-pop-served") for st in steps)
    for _ in range(4 if cheap else 1):
        s = Sess(rows, "c08r", quirks)
        try:
            s.cell = o.get("cell")
            run_steps(s, steps)
            if any(x["kind"] == o["kind"] for x in s.oracle):
                return True
        except (InternalError, Closed, ProtocolError, TimeoutError, OSError, AssertionError):
            return False
        finally:
            s.close()
    return False


def run_round(rep, rows, quirks, r, base_db, tier, n_round):
    """one server, one model: matrix, other-key side, scenarios; then the SELECT scenarios on fresh servers.
    Returns (oracle failures, model disagreements)."""
    key_sets = pick_key_sets(r)
    ks0 = key_sets[r.below(3)]                                      # an ASCII name for the timed scenarios
    ksb = r.choice([k for k in key_sets if k["cls"] not in ("ascii", "utf8", "1KiB")])   # a binary one
    wk, same_k, diff_k, other_k = ks0["wk"], ks0["same"], ks0["diff"], ks0["other"]
    s = Sess(rows, "c08", quirks, base_db)
    try:
        # the model's shard function against the engine's (constants read from get_shard_index)
        for k in [PROBE] + [x for ks in key_sets for x in (ks["wk"], ks["same"], ks["diff"])]:
            info = s.ask("info 0 %s" % hx(k))
            if not info.startswith("shard=%d " % shard(k)):
                # the engine's shard function is no longer the model's (tree_shard_function refuses): the search goes on
                rep.extra["shard_function_differs_from_model"] = "%r: engine %d, model %s" % (k, shard(k), info)
        # ---- matrix on the watched key
        cells = []
        for label, args, ostate, only in COMMANDS:
            for state in STATES:
                if only and state not in only:
                    continue
                for path in PATHS + SELECT_PATHS:
                    if tier == "quick" and path in SELECT_PATHS and (len(cells) + hash_str(label + state)) % 3:
                        continue                    # quick tier: the two SELECT paths on a third of the (command, state) pairs
                    if ostate is None:
                        cells.append((label, args, ostate, state, path, "other", None))
                    else:
                        # a command with two keys: the storage function may take another branch when both keys live in
                        # one shard (rename: one lock / two locks) - both, for every state of both keys and every path
                        cells.append((label, args, ostate, state, path, "same", "same-shard"))
                        cells.append((label, args, ostate, state, path, "diff", "other-shard"))
        r.shuffle(cells)
        if tier == "quick":
            budget = int(os.environ.get("VERIF_C08_CELLS", "0")) or len(cells)
            cells = cells[:budget]
        for n_cell, (label, args, ostate, state, path, okey, owhere) in enumerate(cells):
            ks = key_sets[n_cell % len(key_sets)]                   # every class of key name, in every cell family
            st = matrix_cell(s, label, args, ostate, state, path, ks["wk"], ks[okey], second=owhere, key_class=ks["cls"])
            rep.count("key-class.%s.%s" % (ks["cls"], st["impl"].split()[0]))
            if owhere:
                rep.count("matrix.two-key.%s.second-key-%s.%s" % (label, owhere, st["impl"].split()[0]))
            rep.nontrivial((label, state, path, owhere, st["impl"].split()[0], st["model"]))
            rep.count("matrix.%s.%s" % (path, st["impl"].split()[0]))
            rep.count("verdict." + st["model"].replace(" ", "/"))
            if len(rep.samples) < 6 and st["impl"] == "nil" and label not in [x["cell"]["cmd"] for x in rep.samples if "cell" in x]:
                rep.sample({"cell": s.cell, "steps": ["%d: %s -> %s | %s" % (x.get("c", -1), x.get("text", x["kind"]), x.get("impl"), x.get("model")) for x in s.cell_steps()]})
        # ---- the same commands on OTHER keys: watched key present and absent, other key in the same shard / another shard
        n_other = 0
        for label, args, ostate, only in COMMANDS:
            if label in ("FLUSHDB", "FLUSHALL", "SCAN", "KEYS"):
                continue
            for tname, where in (("same", "same-shard"), ("diff", "other-shard")):
                for wstate in ("string", "absent"):
                    path = PATHS[(n_other + n_round) % 4]
                    ks = key_sets[n_other % len(key_sets)]
                    wk, target, other_k = ks["wk"], ks[tname], ks["other"]
                    n_other += 1
                    s.begin({"kind": "other-key", "cmd": label, "where": where, "watched": wstate, "path": path, "key": hx(wk), "key_class": ks["cls"]})
                    for stp in STATES[wstate]:
                        s.do(B, subst(stp, wk, other_k))
                    hs = home_state(label)
                    for stp in STATES[hs]:
                        s.do(B, subst(stp, target, other_k))
                    if ostate == "present":
                        s.do(B, ["SET", other_k, "other"])
                    s.do(A, ["WATCH", wk])
                    run_path(s, path, subst(args, target, other_k))
                    st = finish_tx(s, "o")
                    rep.nontrivial((label, where, wstate, path, st["impl"].split()[0], st["model"]))
                    rep.count("other-key.%s.%s" % (where, st["impl"].split()[0]))
        wk, same_k, diff_k, other_k = ks0["wk"], ks0["same"], ks0["diff"], ks0["other"]
        # flushes that cannot touch the watched key
        for label, pre in (("FLUSHDB-absent-key", []), ("FLUSHDB-other-db", [["SELECT", str((base_db + 5) % 16)]])):
            s.begin({"kind": "other-key", "cmd": label, "where": "flush", "watched": "absent" if not pre else "string", "path": "other", "key": hx(wk)})
            if pre:
                s.do(B, ["SET", wk, "1"])
            s.do(B, ["SET", same_k, "1"])
            for p in pre:
                s.do(B, p)
            s.do(A, ["WATCH", wk])
            s.do(B, ["FLUSHDB"])
            st = finish_tx(s, "f")
            rep.count("other-key.flush.%s" % st["impl"].split()[0])
        # ---- scenarios
        scenarios(s, wk, same_k, diff_k, rep)
        scenarios(s, ksb["wk"], ksb["same"], ksb["diff"], rep, timed=False)
        multi_watch_cells(s, r, rep, key_sets, tier, n_round)
        for e in [x for x in s.steps if x["kind"] == "exec" and x["c"] == A][-20:]:
            rep.nontrivial(("scenario-exec", e["impl"].split()[0], e["model"]))
        oracle = [dict(o, session_steps=s.steps) for o in s.oracle]
        disagree = [dict(o) for o in s.disagree]
        rep.evaluations += s.evals
        rep.traces_validated += len(cells) + n_other
    finally:
        s.close()
    so, sd, ev = select_scenarios(rows, quirks, wk, same_k, rep, r)
    so2, sd2, ev2 = select_scenarios(rows, quirks, ksb["wk"], ksb["same"], rep, r)
    rep.evaluations += ev + ev2
    return oracle + so + so2, disagree + sd + sd2


def main(tier, seed):
    rep = Report(PID, tier, seed)
    rep.rule = ("every client command is mirrored as an event to the Lean machine Ferrous.Watch.step; the effect of each write on its keys is observed "
                "(dump before/after through a read-only control connection), the marking is predicted by the model from the regenerated table "
                "Gen.storageFns; at every EXEC: server reply vs code model vs Spec verdict, and the probe key written by the transaction "
                "(nil executes nothing, array executes).  Matrix = %d command variants x 10 states of the watched key x 6 paths (other connection, "
                "same connection, inside another EXEC, inside EVAL) + the same commands on other keys (same shard by FNV-1a, other shard, watched key "
                "present/absent) + scenarios (forgetting, re-WATCH, served blocking pop, expiry with the sweeper paused and running, SELECT between "
                "WATCH and UNWATCH/EXEC on fresh servers; expiry of a watched key of every type, lazily and by the sweeper alone, nobody touching the key).  Two more matrix paths: the watcher SELECTs another database between WATCH and EXEC and the command runs in the WATCH-time database / only on the same key name in the EXEC-time database.  distinct = (command variant, state, path, server outcome, model answer)" % len(COMMANDS))
    rep.assumptions = [
        "the value of a stream key includes its consumer-group state (groups, consumers, pending entries, last-delivered id: observed through XRANGE + XINFO GROUPS + XPENDING); the consumer-group writes are judged like every other write although Redis itself does not signal them to WATCH (only the key created by XGROUP CREATE MKSTREAM); XAUTOCLAIM is not dispatched by the server and not in the matrix",
        "global_counter (u64) is modelled unbounded: 2^64 modifications of one shard are out of reach",
        "a connection that is closed while it holds watches is not modelled (its registrations leak like those of EXEC/DISCARD, which only raises watcher counts)",
        "the abort decision is compared per EXEC; the individual replies of the queued commands belong to C07",
        "single command thread (DESIGN section 1): a command and the EXEC check never interleave; the sweeper is paused except in the sweeper scenario, where the model is told of the deletion after it was observed",
        "time: the expiry scenarios use a 150 ms deadline (500 ms / 2 s on a loaded machine: an attempt whose key is already dead when WATCH has been answered is abandoned unjudged) and EXEC is sent >= 170 ms after it; all other TTLs are >= 500 s",
        "watched key names are valid UTF-8 (a script mangles other bytes of ARGV — a C12 finding — so the EVAL path would address another key)",
        "an EXEC whose queue contains SELECT is mirrored as exec + select + cmd events (the watched keys are checked before anything runs)",
        "SETRANGE with an empty value is not in the matrix (it returns before marking; the model's mark discipline for setrange is `whenever the key exists`)",
    ]
    ok, log, errs = proof_phase(rep, families=["watch"])
    build_server()
    fs = findings()
    # the table and the watch-list switches as the translator reads them; what it cannot read is replaced by the
    # prescribed / pessimistic value with a note: the proof obligations then do not check, the search below still runs
    rows, rows_note = table_rows()
    quirks, q_notes = table_quirks()
    translator_notes = ([("storage functions: " + rows_note)] if rows_note else []) + ["watch list: " + n for n in q_notes]
    rep.extra["translator_not_recognised"] = translator_notes
    rep.extra["table_nonmarking_writes"] = sorted("%s:%s" % (r["name"], p) for r in rows if r["mutates"] for p in (r["keyParams"] or ["*"])
                                                  if (p not in r["marked"] if r["keyParams"] else not r["marksAll"]))
    rep.extra["watch_list_quirks"] = {"perDb": bool(quirks[0]), "rewatchKeeps": bool(quirks[1]), "watchPurges": bool(quirks[2]), "unwatchQueued": bool(quirks[3])}
    r = Rng(seed)
    oracle, disagree = [], []
    rounds = [0] if tier == "quick" else [0, 3, 15, 9]
    for n_round, base_db in enumerate(rounds):
        o_, d_ = run_round(rep, rows, quirks, r.fork("round%d" % n_round), base_db, tier, n_round)
        oracle += o_
        disagree += d_
    # ---- verdict
    known, new = {}, []
    for o in oracle:
        f = match_finding(o, fs)
        if f:
            known.setdefault(f["id"], (f, []))[1].append(o)
        else:
            new.append(o)
    for fid, (f, os_) in known.items():
        rep.known(fid, f["what"][:220])
        rep.count("known." + fid, len(os_))
    rep.extra["oracle_failures"] = len(oracle)
    rep.extra["model_disagreements"] = len(disagree)
    rep.extra["findings_not_reproduced"] = sorted(f["id"] for f in fs if f["id"] not in known)
    if new:
        # smallest first; a cell that fails the same way alone on a fresh server is its own minimal replay
        new.sort(key=lambda o: len(o["steps"]))
        o = new[0]
        alone = o.get("fresh_server") or reproduce_alone(rows, quirks, o, o["steps"])
        steps_min = o["steps"]
        if alone and len(steps_min) > 6:
            # delta-debug the steps before the watcher's MULTI .. EXEC (each candidate on a fresh server)
            tail_n = 3 if len(steps_min) >= 3 and steps_min[-3].get("text", "").upper() == "MULTI" else 1
            head, tail = steps_min[:-tail_n], steps_min[-tail_n:]
            try:
                head = shrink_list(head, lambda cand: reproduce_alone(rows, quirks, o, cand + tail), max_steps=24)
                steps_min = head + tail
            except (InternalError, OSError):
                pass
        obj = replay_obj(o, steps_min if alone else o["session_steps"][:o["upto"]])
        obj["reproduces_on_fresh_server"] = bool(alone)
        obj["more"] = [{"cell": x.get("cell"), "kind": x["kind"], "impl": x.get("impl"), "spec": x.get("spec")} for x in new[1:12]]
        obj["lean_errors"] = errs[:5]
        rep.violation("WATCH: %s (%s)" % (o["why"], json.dumps(o.get("cell"))[:160]), obj)
    elif not ok or translator_notes:
        broken = sorted(set(re.findall(r"Props/C08\.lean:(\d+)", " ".join(errs))))
        rep.violation("proof obligations of C08 no longer check against the regenerated tables Gen.storageFns / Gen.watchQ "
                      "(Props/C08.lean lines %s%s); the dynamic search (matrix + scenarios, Spec as oracle) found no failing input"
                      % (",".join(broken) or "?", "; translator: " + "; ".join(translator_notes) if translator_notes else ""),
                      {"theorem_errors": errs[:10], "translator_not_recognised": translator_notes, "log_tail": log[-3000:]}, no_input=True)
    elif disagree:
        rep.violation("correspondence Ferrous.Watch.step (with Gen.storageFns) vs server broke (%d disagreements) although the oracle holds" % len(disagree),
                      {"correspondence": "drv_watch vs ferrous over TCP", "disagreements": [{k: v for k, v in d.items() if k != "steps"} for d in disagree[:8]],
                       "steps_of_first": disagree[0]["steps"]}, no_input=True)
    return rep.finish()


def replay(path):
    obj = json.load(open(path))
    rp = obj.get("replay")
    if not rp or not rp.get("steps"):
        print("replay file has no concrete input (broken proof obligation or correspondence):", obj.get("what"))
        print(json.dumps({k: obj[k] for k in obj if k != "replay"}, indent=1)[:4000])
        return 1
    build_driver("watch")
    build_server()
    rows, _ = table_rows()
    fs = findings()
    quirks, _ = table_quirks()
    s = Sess(rows, "c08replay", quirks)
    try:
        s.cell = rp.get("cell")
        run_steps(s, rp["steps"])
        for st in s.steps:
            if st["kind"] in ("ctl", "queue", "read", "write", "exec"):
                print("conn %d: %-50s -> server %-10s model %s %s" % (st["c"], st["text"], st["impl"], st["model"], " ".join(st.get("ops", []))))
            else:
                print("        [%s]" % st["kind"], {k: v for k, v in st.items() if k != "kind"})
        bad = 0
        for o in s.oracle:
            f = match_finding(o, fs)
            print("%s [%s] %s: server %s, code model %s, spec %s" % ("KNOWN-FINDING " + f["id"] if f else "ORACLE-FAILURE", o["kind"], o["why"], o["impl"], o["code"], o["spec"]))
            bad += 0 if f else 1
        for d in s.disagree:
            print("MODEL-DISAGREEMENT", d["why"], d.get("impl"), d.get("code"))
        print("replay: %s" % ("property violated" if bad else "no violation on the current tree"))
        return 1 if bad else 0
    finally:
        s.close()
